//! Native replay driver: runs inputs produced by the solver through the real, natively
//! compiled crates of /repo (current working tree) and prints what happened, one JSON object
//! per input line.  Input lines:  <cmd> <arg> [<arg>]  with text arguments hex-encoded UTF-8.
use std::fmt::Write as _;
use std::io::{BufRead, Write};
use std::panic;

fn hex(s: &str) -> String {
    let b: Vec<u8> = (0..s.len() / 2)
        .map(|i| u8::from_str_radix(&s[2 * i..2 * i + 2], 16).unwrap())
        .collect();
    String::from_utf8(b).expect("utf8")
}

fn js(s: &str) -> String {
    let mut o = String::from("\"");
    for c in s.chars() {
        match c {
            '"' => o.push_str("\\\""),
            '\\' => o.push_str("\\\\"),
            '\n' => o.push_str("\\n"),
            '\r' => o.push_str("\\r"),
            '\t' => o.push_str("\\t"),
            c if (c as u32) < 0x20 => {
                let _ = write!(o, "\\u{:04x}", c as u32);
            }
            c => o.push(c),
        }
    }
    o.push('"');
    o
}

fn parse_kinds(kinds: &str, joint: &str) -> String {
    use oq3_parser::{Input, Step, SyntaxKind, TopEntryPoint};
    let mut inp = Input::default();
    let ks: Vec<u16> = if kinds == "-" { vec![] } else { kinds.split(',').map(|x| x.parse().unwrap()).collect() };
    let js_: Vec<u8> = if joint == "-" { vec![] } else { joint.split(',').map(|x| x.parse().unwrap()).collect() };
    for (i, k) in ks.iter().enumerate() {
        let kind: SyntaxKind = (*k).into();
        inp.push(kind);
        if js_.get(i).copied().unwrap_or(0) != 0 {
            inp.was_joint();
        }
    }
    let out = TopEntryPoint::SourceFile.parse(&inp);
    let mut s = String::from("{\"steps\":[");
    let mut first = true;
    for st in out.iter() {
        if !first {
            s.push(',');
        }
        first = false;
        match st {
            Step::Token { kind, n_input_tokens } => {
                let _ = write!(s, "[\"token\",{},{}]", kind as u16, n_input_tokens);
            }
            Step::Enter { kind } => {
                let _ = write!(s, "[\"enter\",{}]", kind as u16);
            }
            Step::Exit => s.push_str("[\"exit\"]"),
            Step::Error { msg } => {
                let _ = write!(s, "[\"error\",{}]", js(msg));
            }
            Step::FloatSplit { ends_in_dot } => {
                let _ = write!(s, "[\"floatsplit\",{}]", ends_in_dot);
            }
        }
    }
    s.push_str("]}");
    s
}

fn lex(text: &str) -> String {
    let mut s = String::from("{\"tokens\":[");
    let mut first = true;
    for t in oq3_lexer::tokenize(text) {
        if !first {
            s.push(',');
        }
        first = false;
        let _ = write!(s, "[{},{}]", js(&format!("{:?}", t.kind)), t.len);
    }
    s.push_str("]}");
    s
}

fn lexed(text: &str) -> String {
    let l = oq3_parser::LexedStr::new(text);
    let mut s = String::from("{\"kinds\":[");
    for i in 0..l.len() {
        if i > 0 {
            s.push(',');
        }
        let _ = write!(s, "{}", l.kind(i) as u16);
    }
    s.push_str("],\"starts\":[");
    for i in 0..=l.len() {
        if i > 0 {
            s.push(',');
        }
        let _ = write!(s, "{}", l.text_start(i));
    }
    s.push_str("],\"texts\":[");
    for i in 0..l.len() {
        if i > 0 {
            s.push(',');
        }
        s.push_str(&js(l.text(i)));
    }
    s.push_str("],\"errors\":[");
    let mut first = true;
    for (i, m) in l.errors() {
        if !first {
            s.push(',');
        }
        first = false;
        let _ = write!(s, "[{},{}]", i, js(m));
    }
    s.push_str("]");
    s.push('}');
    s
}

fn tree_dump(node: &oq3_syntax::SyntaxNode, s: &mut String) {
    use oq3_syntax::NodeOrToken;
    let _ = write!(s, "[{},{},{},[", node.kind() as u16, u32::from(node.text_range().start()), u32::from(node.text_range().end()));
    let mut first = true;
    for ch in node.children_with_tokens() {
        if !first {
            s.push(',');
        }
        first = false;
        match ch {
            NodeOrToken::Node(n) => tree_dump(&n, s),
            NodeOrToken::Token(t) => {
                let _ = write!(s, "[{},{},{},{}]", t.kind() as u16, u32::from(t.text_range().start()), u32::from(t.text_range().end()), js(t.text()));
            }
        }
    }
    s.push_str("]]");
}

fn parse_text(text: &str, check_lex: bool) -> String {
    let mut s = String::new();
    if check_lex {
        let p = oq3_syntax::SourceFile::parse_check_lex(text);
        let _ = write!(s, "{{\"have_parse\":{},\"errors\":[", p.have_parse());
        for (i, e) in p.errors().iter().enumerate() {
            if i > 0 {
                s.push(',');
            }
            let _ = write!(s, "[{},{},{}]", u32::from(e.range().start()), u32::from(e.range().end()), js(e.message()));
        }
        s.push_str("],\"tree\":");
        if p.have_parse() {
            tree_dump(&p.syntax_node(), &mut s);
        } else {
            s.push_str("null");
        }
        s.push('}');
    } else {
        let p = oq3_syntax::SourceFile::parse(text);
        s.push_str("{\"have_parse\":true,\"errors\":[");
        for (i, e) in p.errors().iter().enumerate() {
            if i > 0 {
                s.push(',');
            }
            let _ = write!(s, "[{},{},{}]", u32::from(e.range().start()), u32::from(e.range().end()), js(e.message()));
        }
        s.push_str("],\"tree\":");
        tree_dump(&p.syntax_node(), &mut s);
        s.push('}');
    }
    s
}

fn semantic(text: &str) -> String {
    let r = oq3_semantics::syntax_to_semantics::parse_source_string(text, None);
    let mut s = String::new();
    let _ = write!(
        s,
        "{{\"syntax_errors\":{},\"semantic_errors\":[",
        r.any_syntax_errors()
    );
    let mut first = true;
    for e in r.semantic_errors().iter() {
        if !first {
            s.push(',');
        }
        first = false;
        let rg = e.range();
        let _ = write!(s, "[{},{},{}]", js(&format!("{:?}", e.kind())), u32::from(rg.start()), u32::from(rg.end()));
    }
    let _ = write!(s, "],\"program\":{},", js(&format!("{:?}", r.program())));
    let _ = write!(s, "\"symbols\":{}}}", js(&format!("{:?}", r.symbol_table())));
    s
}

fn parse_type(s: &str) -> oq3_semantics::types::Type {
    // <Ctor>[/w=<u32>|/w=-][/c=0|1][/d=a;b;c][/a=<usize>/b=<usize>][/n=<usize>/r=<Ctor..with ~ instead of />]
    use oq3_semantics::types::{ArrayDims, IsConst, SubroutineDef, Type};
    let mut parts = s.split('/');
    let ctor = parts.next().unwrap();
    let mut w: Option<u32> = None;
    let mut c = IsConst::False;
    let mut d: Vec<usize> = vec![];
    let (mut a, mut b, mut n) = (0usize, 0usize, 0usize);
    let mut r = Type::Void;
    for p in parts {
        let (k, v) = p.split_once('=').unwrap();
        match k {
            "w" => w = if v == "-" { None } else { Some(v.parse().unwrap()) },
            "c" => c = if v == "1" { IsConst::True } else { IsConst::False },
            "d" => d = v.split(';').map(|x| x.parse().unwrap()).collect(),
            "a" => a = v.parse().unwrap(),
            "b" => b = v.parse().unwrap(),
            "n" => n = v.parse().unwrap(),
            "r" => r = parse_type(&v.replace('~', "/")),
            _ => panic!("bad type field"),
        }
    }
    let dims = || match d.len() {
        1 => ArrayDims::D1(d[0]),
        2 => ArrayDims::D2(d[0], d[1]),
        _ => ArrayDims::D3(d[0], d[1], d[2]),
    };
    match ctor {
        "Bit" => Type::Bit(c),
        "Qubit" => Type::Qubit,
        "HardwareQubit" => Type::HardwareQubit,
        "Int" => Type::Int(w, c),
        "UInt" => Type::UInt(w, c),
        "Float" => Type::Float(w, c),
        "Angle" => Type::Angle(w, c),
        "Complex" => Type::Complex(w, c),
        "Bool" => Type::Bool(c),
        "Duration" => Type::Duration(c),
        "Stretch" => Type::Stretch(c),
        "BitArray" => Type::BitArray(dims(), c),
        "QubitArray" => Type::QubitArray(dims()),
        "IntArray" => Type::IntArray(dims()),
        "UIntArray" => Type::UIntArray(dims()),
        "FloatArray" => Type::FloatArray(dims()),
        "AngleArray" => Type::AngleArray(dims()),
        "ComplexArray" => Type::ComplexArray(dims()),
        "BoolArray" => Type::BoolArray(dims()),
        "DurationArray" => Type::DurationArray(dims()),
        "Gate" => Type::Gate(a, b),
        "SubroutineDef" => Type::SubroutineDef(SubroutineDef { num_params: n, return_type: Box::new(r) }),
        "Range" => Type::Range,
        "Set" => Type::Set,
        "Void" => Type::Void,
        "ToDo" => Type::ToDo,
        "Undefined" => Type::Undefined,
        _ => panic!("bad ctor"),
    }
}

fn promote(a: &str, b: &str) -> String {
    use oq3_semantics::types::{can_cast_literal, promote_types};
    let (ta, tb) = (parse_type(a), parse_type(b));
    format!(
        "{{\"ab\":{},\"ba\":{},\"cast\":{}}}",
        js(&format!("{:?}", promote_types(&ta, &tb))),
        js(&format!("{:?}", promote_types(&tb, &ta))),
        can_cast_literal(&ta, &tb)
    )
}

fn symhist(ops: &str) -> String {
    use oq3_semantics::symbols::{ScopeType, SymbolTable, SymbolType};
    use oq3_semantics::types::{IsConst, Type};
    let mut t = SymbolTable::new();
    let mut out = String::from("{\"results\":[");
    for (i, op) in ops.split(',').enumerate() {
        if i > 0 {
            out.push(',');
        }
        let (code, name) = match op.split_once(':') {
            Some((c, n)) => (c, n),
            None => (op, ""),
        };
        let r = match code {
            "el" | "es" | "eg" | "x" => {
                let res = panic::catch_unwind(panic::AssertUnwindSafe(|| match code {
                    "el" => t.verif_enter_scope(ScopeType::Local),
                    "es" => t.verif_enter_scope(ScopeType::Subroutine),
                    "eg" => t.verif_enter_scope(ScopeType::Global),
                    _ => t.exit_scope(),
                }));
                if res.is_ok() { String::from("ok") } else { String::from("panic") }
            }
            "bi" | "bq" | "bg" | "bh" => {
                let ty = match code {
                    "bi" => Type::Int(Some(32), IsConst::False),
                    "bg" => Type::Gate(1, 2),
                    "bh" => Type::HardwareQubit,
                    _ => Type::Qubit,
                };
                // a successful binding is followed by what the table says the new id denotes
                match t.new_binding(name, &ty) {
                    Ok(id) => format!("Ok({:?})|{}|{:?}", id, t[&id].name(), t[&id].symbol_type()),
                    Err(e) => format!("Err({:?})", e),
                }
            }
            "l" => match t.lookup(name) {
                Ok(rec) => format!("Ok({:?},{},{:?})", rec.symbol_id(), t[&rec.symbol_id()].name(), rec.symbol_type()),
                Err(e) => format!("Err({:?})", e),
            },
            _ => String::from("bad"),
        };
        out.push_str(&js(&r));
        if r == "panic" {
            break;
        }
    }
    // the listing observers: "name|id|ncl|nqu" per gate, "name|id" per hardware qubit
    let gates: Vec<String> = t.gates().map(|(n, id, c, q)| js(&format!("{}|{:?}|{}|{}", n, id, c, q))).collect();
    let hw: Vec<String> = t.hardware_qubits().iter().map(|(n, id)| js(&format!("{}|{:?}", n, id))).collect();
    let _ = write!(out, "],\"gates\":[{}],\"hardware_qubits\":[{}],\"len_current_scope\":{}}}", gates.join(","), hw.join(","), t.len_current_scope());
    out
}

fn run(line: &str) -> String {
    let parts: Vec<&str> = line.split_whitespace().collect();
    match parts.as_slice() {
        ["parse_kinds", k, j] => parse_kinds(k, j),
        ["promote", a, b] => promote(a, b),
        ["symhist", ops] => symhist(ops),
        ["lex", t] => lex(&hex(t)),
        ["lex"] => lex(""),
        ["lexed", t] => lexed(&hex(t)),
        ["lexed"] => lexed(""),
        ["parse", t] => parse_text(&hex(t), false),
        ["parse"] => parse_text("", false),
        ["parse_check_lex", t] => parse_text(&hex(t), true),
        ["parse_check_lex"] => parse_text("", true),
        ["semantic", t] => semantic(&hex(t)),
        ["semantic"] => semantic(""),
        _ => String::from("{\"bad_command\":true}"),
    }
}

fn main() {
    panic::set_hook(Box::new(|_| {}));
    let stdin = std::io::stdin();
    let stdout = std::io::stdout();
    for line in stdin.lock().lines() {
        let line = line.unwrap();
        if line.trim().is_empty() {
            continue;
        }
        let l2 = line.clone();
        let r = panic::catch_unwind(move || run(&l2));
        let mut o = stdout.lock();
        match r {
            Ok(s) => {
                let _ = writeln!(o, "{}", s);
            }
            Err(e) => {
                let msg = if let Some(s) = e.downcast_ref::<String>() {
                    s.clone()
                } else if let Some(s) = e.downcast_ref::<&str>() {
                    s.to_string()
                } else {
                    String::from("panic")
                };
                let _ = writeln!(o, "{{\"panic\":{}}}", js(&msg));
            }
        }
        let _ = o.flush();
    }
}
