#!/bin/bash
# usage: tools/seedverify.sh <id> <staging dir> : verifies a seeded change against /repo HEAD in a scratch worktree
id=$1; st=$2
wt=/tmp/seedchk/$id
rm -rf $wt; mkdir -p /tmp/seedchk
git -C /repo worktree add --detach $wt HEAD >/dev/null 2>&1 || { echo "$id worktree failed"; exit 1; }
cp /repo/Cargo.lock $wt/
crate=$(grep -o "\-p oq3_[a-z_]*" $st/demo_cmd.txt | head -1 | cut -d' ' -f2)
mkdir -p $wt/crates/$crate/tests
cp $st/seeded_demo.rs $wt/crates/$crate/tests/seeded_demo.rs
cd $wt
export CARGO_NET_OFFLINE=true CARGO_TARGET_DIR=/tmp/seedchk/target
r0=$(cargo test -p $crate --test seeded_demo --offline -j 6 2>&1 | grep "^test result" | tail -1)
git apply $st/patch.diff || { echo "$id patch does not apply"; }
r1=$(cargo test -p $crate --test seeded_demo --offline -j 6 2>&1 | grep "^test result" | tail -1)
mv crates/$crate/tests/seeded_demo.rs /tmp/seedchk/demo_$id.rs
r2=$(cargo test --workspace --no-fail-fast --offline -j 6 2>&1 | grep -E "^test result" | awk '{p+=$4; f+=$6} END {print p" passed "f" failed"}')
echo "$id | demo without change: $r0 | demo with change: $r1 | suite with change: $r2"
cd /; git -C /repo worktree remove --force $wt
