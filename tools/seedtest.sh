#!/bin/bash
# usage: tools/seedtest.sh <patch.diff> <tier> <check id>...   applies the patch to /repo, runs the checks, reverts.
patch=$1; tier=$2; shift 2
cd /repo || exit 9
if ! git diff --quiet; then echo "/repo is dirty"; exit 9; fi
git apply "$patch" || { echo "patch does not apply"; exit 9; }
trap 'git -C /repo checkout -- . ; git -C /repo clean -fdq crates' EXIT
cd /verif
for id in "$@"; do
  out=$(./check $id --tier $tier 2>&1); rc=$?
  echo "== $id rc=$rc"
  echo "$out" | grep -E "^VIOLATION|^INCONCLUSIVE|^KNOWN" | cut -c1-400 | head -6
  echo "$out" | grep -A1 "^VIOLATION" | grep -v "^VIOLATION\|^--" | cut -c1-500 | head -3
done
