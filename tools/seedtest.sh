#!/bin/bash
# usage: tools/seedtest.sh <patch.diff> <tier> <check id>...
# Runs the checks against a scratch copy of /repo HEAD with the patch applied (VERIF_REPO / VERIF_WORK point the checks at it),
# so /repo itself is never touched and other runs are not disturbed.  The copy and its build output are removed afterwards.
patch=$1; tier=$2; shift 2
tag=$(basename $(dirname "$patch"))_$$
wt=/tmp/seedrun/$tag
mkdir -p /tmp/seedrun
git -C /repo worktree add --detach $wt HEAD >/dev/null 2>&1 || { echo "worktree failed"; exit 9; }
cp /repo/Cargo.lock $wt/ 2>/dev/null
trap 'git -C /repo worktree remove --force '$wt' >/dev/null 2>&1; rm -rf /tmp/seedrun/'$tag'.work' EXIT
( cd $wt && git apply "$patch" ) || { echo "patch does not apply"; exit 9; }
cd /verif
export VERIF_REPO=$wt VERIF_WORK=/tmp/seedrun/$tag.work
mkdir -p $VERIF_WORK
for id in "$@"; do
  out=$(./check $id --tier $tier 2>&1); rc=$?
  echo "== $id rc=$rc"
  echo "$out" | grep -E "^VIOLATION|^INCONCLUSIVE" | cut -c1-400 | head -6
  echo "$out" | grep -A1 "^VIOLATION" | grep -v "^VIOLATION\|^--" | cut -c1-500 | head -3
done
