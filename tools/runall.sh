#!/bin/bash
# runs every registered quick (or $1) check sequentially; prints a one-line summary per check
tier=${1:-quick}
cd /verif
for id in $(python3 -c "import json; print(' '.join(c['property_id'] for c in json.load(open('MANIFEST.json'))['checks']))"); do
  s=$(date +%s)
  out=$(./check $id --tier $tier 2>&1); rc=$?
  e=$(date +%s)
  echo "$id rc=$rc $((e-s))s known=$(echo "$out" | grep -c '^KNOWN-FINDING') viol=$(echo "$out" | grep -c '^VIOLATION') inconcl=$(echo "$out" | grep -c '^INCONCLUSIVE')"
  if [ $rc -ne 0 ]; then echo "$out" | grep -E "^VIOLATION|^INCONCLUSIVE" | cut -c1-300 | head -3; fi
done
