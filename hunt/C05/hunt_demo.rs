// Hunt C05: "The AST mirrors the program's derivation: precedence, associativity, roles".
//
// Every test parses a small program that is ACCEPTED (no syntax error), and asserts what the
// property requires of the typed AST.  All tests FAIL on the current code.
//
// Run:
//   cd /tmp/hunt/C05 && CARGO_NET_OFFLINE=true CARGO_TARGET_DIR=/tmp/hunt/C05/target \
//     cargo test --offline -j 2 -p oq3_syntax --test hunt_demo

use oq3_syntax::ast::{self, AstNode, Expr, HasArgList};
use oq3_syntax::SourceFile;

// ---------------------------------------------------------------------------------------------
// helpers
// ---------------------------------------------------------------------------------------------

/// Parse, require that the program is accepted (no syntax errors), return the tree and a dump.
fn parse_ok(src: &str) -> (SourceFile, String) {
    let parse = SourceFile::parse(src);
    let dump = parse.debug_dump();
    assert!(
        parse.errors().is_empty(),
        "program is expected to be accepted but has errors: {src}\n{dump}"
    );
    (parse.tree(), dump)
}

fn text<N: AstNode>(n: &N) -> String {
    n.syntax().text().to_string()
}

fn opt_text<N: AstNode>(n: Option<N>) -> String {
    n.map(|n| text(&n)).unwrap_or_else(|| "<None>".to_string())
}

/// Fully parenthesised rendering of an expression, using only the typed accessors
/// (BinExpr::{lhs,rhs,op_token}, PrefixExpr::{op_token,expr}, ParenExpr::expr, ...).
fn sexp(e: &Expr) -> String {
    let sub = |x: Option<Expr>| x.map(|x| sexp(&x)).unwrap_or_else(|| "_".to_string());
    match e {
        Expr::BinExpr(b) => format!(
            "({} {} {})",
            b.op_token().map(|t| t.text().to_string()).unwrap_or_else(|| "?".into()),
            sub(b.lhs()),
            sub(b.rhs())
        ),
        Expr::PrefixExpr(p) => format!(
            "(neg{} {})",
            p.op_token().map(|t| t.text().to_string()).unwrap_or_else(|| "?".into()),
            sub(p.expr())
        ),
        Expr::ParenExpr(p) => format!("(paren {})", sub(p.expr())),
        Expr::CastExpression(c) => format!("(cast {} {})", opt_text(c.scalar_type()), sub(c.expr())),
        Expr::IndexExpr(i) => format!("(index {} {})", sub(i.expr()), opt_text(i.index_operator())),
        Expr::CallExpr(c) => format!(
            "(call {} {})",
            sub(c.expr()),
            c.arg_list()
                .and_then(|a| a.expression_list())
                .map(|l| l.exprs().map(|x| sexp(&x)).collect::<Vec<_>>().join(" "))
                .unwrap_or_else(|| "?".into())
        ),
        other => text(other),
    }
}

/// The initializer of the first statement, which must be a classical declaration.
fn init_sexp(src: &str) -> (String, String) {
    let (file, dump) = parse_ok(src);
    let stmt = file.statements().next().expect("one statement");
    let ast::Stmt::ClassicalDeclarationStatement(decl) = stmt else {
        panic!("expected a classical declaration: {src}\n{dump}")
    };
    (sexp(&decl.expr().expect("initializer")), dump)
}

fn first_stmt(src: &str) -> (ast::Stmt, String) {
    let (file, dump) = parse_ok(src);
    (file.statements().next().expect("one statement"), dump)
}

// ---------------------------------------------------------------------------------------------
// F1. `**` sits at the binding power of `^` (7): everything from `&` upwards binds tighter.
//     OpenQASM 3 table: `**` binds tighter than every other binary operator.
// ---------------------------------------------------------------------------------------------
#[test]
fn f1_power_binds_tighter_than_multiplication() {
    let (got, dump) = init_sexp("float x = a * b ** c;");
    assert_eq!(got, "(* a (** b c))", "a * b ** c must be a * (b ** c)\n{dump}");
}

// ---------------------------------------------------------------------------------------------
// F2. `**` is declared Left associative.  OpenQASM 3: power is right associative.
// ---------------------------------------------------------------------------------------------
#[test]
fn f2_power_is_right_associative() {
    let (got, dump) = init_sexp("float x = a ** b ** c;");
    assert_eq!(got, "(** a (** b c))", "a ** b ** c must be a ** (b ** c)\n{dump}");
}

// ---------------------------------------------------------------------------------------------
// F3. A prefix operator parses its operand at binding power 255, so it grabs only the atom.
//     OpenQASM 3: power binds tighter than unary `-`, `!`, `~`:  -a ** b  ==  -(a ** b).
// ---------------------------------------------------------------------------------------------
#[test]
fn f3_power_binds_tighter_than_unary_minus() {
    let (got, dump) = init_sexp("float x = -a ** b;");
    assert_eq!(got, "(neg- (** a b))", "-a ** b must be -(a ** b)\n{dump}");
}

// ---------------------------------------------------------------------------------------------
// F4. `==` / `!=` share binding power 5 with `<`, `<=`, `>`, `>=`.
//     OpenQASM 3: comparison binds tighter than equality:  a == b < c  ==  a == (b < c).
// ---------------------------------------------------------------------------------------------
#[test]
fn f4_comparison_binds_tighter_than_equality() {
    let (got, dump) = init_sexp("bool x = a == b < c;");
    assert_eq!(got, "(== a (< b c))", "a == b < c must be a == (b < c)\n{dump}");
}

// ---------------------------------------------------------------------------------------------
// F5. `&` (8), `^` (7), `|` (6) bind tighter than comparison and equality (5).
//     OpenQASM 3 (C-like): comparison and equality bind tighter than `&`, `^`, `|`.
// ---------------------------------------------------------------------------------------------
#[test]
fn f5_equality_binds_tighter_than_bitwise_and() {
    let (got, dump) = init_sexp("bool x = a & b == c;");
    assert_eq!(got, "(& a (== b c))", "a & b == c must be a & (b == c)\n{dump}");
}

#[test]
fn f5b_comparison_binds_tighter_than_bitwise_or() {
    let (got, dump) = init_sexp("bool x = a | b < c;");
    assert_eq!(got, "(| a (< b c))", "a | b < c must be a | (b < c)\n{dump}");
}

// ---------------------------------------------------------------------------------------------
// F6. RangeExpr::step() and RangeExpr::stop() return the START expression.
// ---------------------------------------------------------------------------------------------
#[test]
fn f6_range_stop_and_step_accessors() {
    let (stmt, dump) = first_stmt("for int i in [0:2:10] { }");
    let ast::Stmt::ForStmt(for_stmt) = stmt else { panic!("{dump}") };
    let range = for_stmt.for_iterable().unwrap().range_expr().unwrap();
    let got = (
        opt_text(range.thestart()),
        opt_text(range.step()),
        opt_text(range.stop()),
    );
    assert_eq!(
        got,
        ("0".to_string(), "2".to_string(), "10".to_string()),
        "[0:2:10]: thestart()/step()/stop() must be 0 / 2 / 10\n{dump}"
    );
}

// ---------------------------------------------------------------------------------------------
// F7. Gate::qubit_args() returns the (angle) parameter list when the gate has parameters.
// ---------------------------------------------------------------------------------------------
#[test]
fn f7_gate_qubit_args_accessor() {
    let (stmt, dump) = first_stmt("gate g(a, b) q, r { }");
    let ast::Stmt::Gate(gate) = stmt else { panic!("{dump}") };
    // the hand written accessors get it right ...
    assert_eq!(opt_text(gate.angle_params()), "(a, b)");
    assert_eq!(opt_text(gate.qubit_params()), "q, r");
    // ... the generated one does not
    assert_eq!(
        opt_text(gate.qubit_args()),
        "q, r",
        "Gate::qubit_args() must be the qubit list `q, r`\n{dump}"
    );
}

// ---------------------------------------------------------------------------------------------
// F8. WhileStmt::loop_body() (inherent, generated) returns the CONDITION.
// ---------------------------------------------------------------------------------------------
#[test]
fn f8_while_loop_body_accessor() {
    let (stmt, dump) = first_stmt("while (c) { x q; }");
    let ast::Stmt::WhileStmt(w) = stmt else { panic!("{dump}") };
    assert_eq!(opt_text(w.condition()), "c");
    assert_eq!(
        opt_text(w.loop_body()),
        "{ x q; }",
        "WhileStmt::loop_body() must be the body block, not the condition\n{dump}"
    );
}

// ---------------------------------------------------------------------------------------------
// F9. AssignmentStmt::indexed_identifier() returns the RIGHT-hand side of `c = d[0];`
//     (mirror image of the repaired AssignmentStmt::identifier()).
// ---------------------------------------------------------------------------------------------
#[test]
fn f9_assignment_indexed_identifier_is_the_target() {
    let (stmt, dump) = first_stmt("c = d[0];");
    let ast::Stmt::AssignmentStmt(a) = stmt else { panic!("{dump}") };
    assert_eq!(opt_text(a.identifier()), "c");
    assert_eq!(opt_text(a.rhs()), "d[0]");
    assert_eq!(
        opt_text(a.indexed_identifier()),
        "<None>",
        "the assignment target of `c = d[0];` is the plain identifier `c`; \
         indexed_identifier() must not hand out the value `d[0]` as the target\n{dump}"
    );
}

// ---------------------------------------------------------------------------------------------
// F10. IndexExpr::index() is always None (it looks for a second Expr child, but the index is
//      wrapped in an INDEX_OPERATOR node, which is not an Expr).
// ---------------------------------------------------------------------------------------------
#[test]
fn f10_index_expr_index_accessor() {
    let (stmt, dump) = first_stmt("int y = f(x)[1];");
    let ast::Stmt::ClassicalDeclarationStatement(decl) = stmt else { panic!("{dump}") };
    let Some(Expr::IndexExpr(ix)) = decl.expr() else { panic!("{dump}") };
    assert_eq!(opt_text(ix.base()), "f(x)");
    assert_eq!(
        opt_text(ix.index()),
        "1",
        "IndexExpr::index() of f(x)[1] must be the index `1`\n{dump}"
    );
}

// ---------------------------------------------------------------------------------------------
// F11. Subroutine signature: TypedParam::param_type() is None for an array reference parameter
//      (the parser emits ARRAY_TYPE, the typed AST only knows ARRAY_REF_TYPE there).
// ---------------------------------------------------------------------------------------------
#[test]
fn f11_def_array_parameter_type_accessor() {
    let (stmt, dump) = first_stmt("def f(int a, readonly array[int, 2] b) { }");
    let ast::Stmt::Def(def) = stmt else { panic!("{dump}") };
    let types: Vec<String> = def
        .typed_param_list()
        .unwrap()
        .typed_params()
        .map(|p| match p.param_type() {
            Some(ast::ParamType::ScalarType(t)) => text(&t),
            Some(ast::ParamType::ArrayRefType(t)) => text(&t),
            None => "<None>".to_string(),
        })
        .collect();
    assert_eq!(
        types,
        vec!["int".to_string(), "readonly array[int, 2]".to_string()],
        "every parameter of the signature must expose its declared type\n{dump}"
    );
}

// ---------------------------------------------------------------------------------------------
// F12. for loop with an identifier iterable and an unbraced body that starts with an identifier:
//      `arr n` is taken for a gate call (IDENT IDENT heuristic of atom_expr, applied in expression
//      context), the whole body statement becomes part of the iterable, the body disappears.
//      No syntax error is reported.
// ---------------------------------------------------------------------------------------------
#[test]
fn f12_for_identifier_iterable_unbraced_body() {
    let (stmt, dump) = first_stmt("for int i in arr n += i;");
    let ast::Stmt::ForStmt(for_stmt) = stmt else { panic!("{dump}") };
    assert_eq!(opt_text(for_stmt.loop_var()), "i");
    let iterable = opt_text(for_stmt.for_iterable());
    let body = opt_text(for_stmt.stmt());
    assert_eq!(
        (iterable.as_str(), body.as_str()),
        ("arr", "n += i;"),
        "loop variable / iterable / body of `for int i in arr n += i;`\n{dump}"
    );
}

// ---------------------------------------------------------------------------------------------
// Minor siblings of F11 (node kind emitted by the parser is not the kind the typed AST expects,
// so the accessor of that role is always None).  Peripheral constructs.
// ---------------------------------------------------------------------------------------------
#[test]
fn f11b_defcal_param_list_accessor() {
    let (stmt, dump) = first_stmt("defcal rz(angle[20] theta) q { }");
    let ast::Stmt::DefCal(d) = stmt else { panic!("{dump}") };
    assert_eq!(opt_text(d.qubit_list()), "q");
    assert_eq!(
        opt_text(d.param_list()),
        "(angle[20] theta)",
        "DefCal::param_list() must be the parameter list\n{dump}"
    );
}

#[test]
fn f11c_array_type_dimensions_accessor() {
    let (stmt, dump) = first_stmt("array[int[8], 2, 3] a;");
    let ast::Stmt::ClassicalDeclarationStatement(d) = stmt else { panic!("{dump}") };
    let ty = d.array_type().expect("array type");
    assert_eq!(opt_text(ty.scalar_type()), "int[8]");
    let dims: Vec<String> = ty
        .expression_list()
        .map(|l| l.exprs().map(|e| text(&e)).collect())
        .unwrap_or_default();
    assert_eq!(
        dims,
        vec!["2".to_string(), "3".to_string()],
        "ArrayType::expression_list() must give the dimensions 2, 3\n{dump}"
    );
}

// ---------------------------------------------------------------------------------------------
// F13. extern signature: every parameter type is wrapped twice (SCALAR_TYPE in SCALAR_TYPE), so
//      the ScalarType handed out by TypeList::scalar_types() has no type keyword and no designator;
//      the real type shows up in the slot reserved for the base type of `complex[...]`.
// ---------------------------------------------------------------------------------------------
#[test]
fn f13_extern_parameter_types() {
    let (stmt, dump) = first_stmt("extern f(float[32]) -> bit;");
    let ast::Stmt::ExternStmt(e) = stmt else { panic!("{dump}") };
    let ty = e.type_list().unwrap().scalar_types().next().expect("one parameter type");
    let got = (
        ty.float_token().map(|t| t.text().to_string()),
        opt_text(ty.designator()),
        opt_text(ty.scalar_type()), // inner type of complex[..]: must be absent for `float[32]`
    );
    assert_eq!(
        got,
        (Some("float".to_string()), "[32]".to_string(), "<None>".to_string()),
        "parameter type `float[32]` of the extern signature\n{dump}"
    );
}
