// C09 "Declared symbols carry exactly the declared type": inputs for which the unchanged
// project violates the property. Each test asserts what the property REQUIRES, so each one
// FAILS on the current code.

use oq3_semantics::asg;
use oq3_semantics::semantic_error::SemanticErrorKind;
use oq3_semantics::symbols::{SymbolTable, SymbolType};
use oq3_semantics::syntax_to_semantics::parse_source_string;
use oq3_semantics::types::{IsConst, SubroutineDef, Type};

struct Analysed {
    program: asg::Program,
    errors: Vec<SemanticErrorKind>,
    table: SymbolTable,
    syntax_errors: bool,
}

/// Analyse `code`; a panic inside the analyser is turned into `Err(message)`.
fn analyse(code: &'static str) -> Result<Analysed, String> {
    std::panic::catch_unwind(|| {
        let parsed = parse_source_string(code, None);
        let syntax_errors = parsed.any_syntax_errors();
        let (program, errors, table) = parsed.take_context().as_tuple();
        let errors = errors.iter().map(|e| e.kind().clone()).collect();
        Analysed {
            program,
            errors,
            table,
            syntax_errors,
        }
    })
    .map_err(|e| {
        e.downcast_ref::<String>()
            .cloned()
            .or(e.downcast_ref::<&str>().map(|s| s.to_string()))
            .unwrap_or_default()
    })
}

fn type_of(a: &Analysed, name: &str) -> Type {
    a.table.lookup(name).symbol_type().clone()
}

fn has_designator_diagnostic(errors: &[SemanticErrorKind]) -> bool {
    errors.iter().any(|e| {
        matches!(
            e,
            SemanticErrorKind::InvalidDesignatorError | SemanticErrorKind::ConstIntegerError
        )
    })
}

// 1. A designator that is a const *float* (or const complex) identifier is not a constant
//    integer. The property requires a diagnostic; the code silently records int[4].
#[test]
fn const_float_designator_is_diagnosed() {
    let code = "const float n = 4; int[n] x; qubit[n] q; bit[n] b;";
    let a = analyse(code).expect("no panic expected");
    assert!(!a.syntax_errors);
    assert!(
        has_designator_diagnostic(&a.errors),
        "`{code}`: n is a const float, not a constant integer, so each designator must be diagnosed.\n\
         errors = {:?}\n n: {:?}\n x: {:?}\n q: {:?}\n b: {:?}",
        a.errors,
        type_of(&a, "n"),
        type_of(&a, "x"),
        type_of(&a, "q"),
        type_of(&a, "b"),
    );
}

// 2. Old-style parameters (`creg c[4]`, `qreg q[2]`) of a `def` are dropped: they are not counted
//    in the subroutine type, not listed in DefStmt::params and not bound in the body scope.
#[test]
fn old_style_def_parameters_are_counted() {
    let code = "bit[4] c0; def f(int[8] a, creg c[4]) { c; } f(1, c0);";
    let a = analyse(code).expect("no panic expected");
    assert!(!a.syntax_errors);
    let def_params = a
        .program
        .stmts()
        .iter()
        .find_map(|s| match s {
            asg::Stmt::DefStmt(d) => Some(d.params().len()),
            _ => None,
        })
        .unwrap();
    let num_params = match type_of(&a, "f") {
        Type::SubroutineDef(SubroutineDef { num_params, .. }) => num_params,
        other => panic!("f is not a subroutine: {other:?}"),
    };
    assert!(
        num_params == 2 && def_params == 2 && a.errors.is_empty(),
        "`{code}`: f is written with 2 parameters and is called with 2 arguments.\n\
         symbol type of f = {:?}\n DefStmt::params().len() = {def_params}\n errors = {:?}\n program = {:?}",
        type_of(&a, "f"),
        a.errors,
        a.program.stmts(),
    );
}

// 3. `let k = g;` with a gate on the right-hand side is accepted without a diagnostic and binds a
//    new symbol of type Gate; SymbolTable::gates() then lists the alias as a gate. With the builtin
//    `U` on the right-hand side this also defeats the name filter that hides `U`.
#[test]
fn gate_listing_contains_only_defined_gates() {
    let code = "gate g(a) q, r { } let k = g; let u = U;";
    let a = analyse(code).expect("no panic expected");
    assert!(!a.syntax_errors);
    let listing: Vec<(String, usize, usize)> = a
        .table
        .gates()
        .map(|(name, _id, ncl, nqu)| (name.to_string(), ncl, nqu))
        .collect();
    assert_eq!(
        listing,
        vec![("g".to_string(), 1, 2)],
        "`{code}`: the only user-defined gate is g(1 angle, 2 qubits); no stdgates.inc was included.\n\
         errors = {:?}",
        a.errors
    );
}

// 4. The return type of a subroutine is recorded with const-ness that was not written.
#[test]
fn def_return_type_is_the_written_type() {
    let code = "def f(int[8] a) -> int[8] { return a; }";
    let a = analyse(code).expect("no panic expected");
    assert!(!a.syntax_errors);
    let written = Type::Int(Some(8), IsConst::False);
    let from_stmt = a
        .program
        .stmts()
        .iter()
        .find_map(|s| match s {
            asg::Stmt::DefStmt(d) => Some(d.return_type().clone()),
            _ => None,
        })
        .unwrap();
    let from_symbol = match type_of(&a, "f") {
        Type::SubroutineDef(SubroutineDef { return_type, .. }) => *return_type,
        other => panic!("f is not a subroutine: {other:?}"),
    };
    assert!(
        from_stmt == written && from_symbol == written,
        "`{code}`: the written return type is int[8] (no const).\n\
         DefStmt::return_type = {from_stmt:?}\n symbol type of f = {:?}",
        type_of(&a, "f"),
    );
}

// 5. An array-reference parameter (valid OpenQASM 3, parsed without syntax error) makes the
//    analyser panic instead of giving the parameter a type / counting it.
#[test]
fn array_reference_parameter_gets_a_type() {
    let code = "def f(readonly array[int[8], 4] a) { }";
    match analyse(code) {
        Err(msg) => panic!("`{code}`: analyser panicked: {msg:?}"),
        Ok(a) => {
            assert!(!a.syntax_errors);
            match type_of(&a, "f") {
                Type::SubroutineDef(SubroutineDef { num_params, .. }) => assert_eq!(num_params, 1),
                other => panic!("f is not a subroutine: {other:?}"),
            }
        }
    }
}

// 6. A negative width (and any designator that is neither a bare literal nor a bare identifier,
//    e.g. `int[(4)]`, `int[2+2]`) must be diagnosed; the analyser panics instead.
#[test]
fn negative_designator_is_diagnosed() {
    let code = "int[-1] x;";
    match analyse(code) {
        Err(msg) => panic!("`{code}`: analyser panicked instead of diagnosing: {msg:?}"),
        Ok(a) => {
            assert!(!a.syntax_errors);
            assert!(
                has_designator_diagnostic(&a.errors),
                "`{code}`: errors = {:?}, x: {:?}",
                a.errors,
                type_of(&a, "x")
            );
        }
    }
}
