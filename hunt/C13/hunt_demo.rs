// Bug-hunt demo for property C13:
// "Gate, qubit, const and scope usage rules are diagnosed exactly".
//
// Each test asserts what the property REQUIRES, so each test FAILS on the current code.
// Only the public API of oq3_semantics is used.

use oq3_semantics::semantic_error::SemanticErrorKind;
use oq3_semantics::syntax_to_semantics::parse_source_string;

/// Analyse `code`; return (diagnostics as "Kind: text, range" strings, debug print of the ASG).
fn analyse(code: &str) -> (Vec<(SemanticErrorKind, String)>, String) {
    let result = parse_source_string(code, None);
    assert!(
        !result.any_syntax_errors(),
        "the demo input must be syntactically valid: {code}"
    );
    let errors = result
        .semantic_errors()
        .iter()
        .map(|e| (e.kind().clone(), format!("{e}")))
        .collect::<Vec<_>>();
    let asg = format!("{:?}", result.program());
    (errors, asg)
}

fn count(errors: &[(SemanticErrorKind, String)], pred: fn(&SemanticErrorKind) -> bool) -> usize {
    errors.iter().filter(|(k, _)| pred(k)).count()
}

fn texts(errors: &[(SemanticErrorKind, String)]) -> Vec<String> {
    errors.iter().map(|(_, s)| s.clone()).collect()
}

fn is_mutate_const(k: &SemanticErrorKind) -> bool {
    matches!(k, SemanticErrorKind::MutateConstError)
}
fn is_incompatible(k: &SemanticErrorKind) -> bool {
    matches!(k, SemanticErrorKind::IncompatibleTypesError)
}
fn is_return_global(k: &SemanticErrorKind) -> bool {
    matches!(k, SemanticErrorKind::ReturnInGlobalScopeError)
}

// ---------------------------------------------------------------------------------------------
// F1. Assigning to an element of a const symbol is not reported.
//     Clause: "assigning to a const symbol ... [is] reported".
// ---------------------------------------------------------------------------------------------
#[test]
fn f1_indexed_assignment_to_const_symbol_is_reported() {
    // Control: the plain-identifier form of the same mutation IS reported.
    let (errors, _) = analyse("const bit[4] c = \"0000\";\nc = \"1111\";\n");
    assert_eq!(
        count(&errors, is_mutate_const),
        1,
        "control failed: {:?}",
        texts(&errors)
    );

    let code = "const bit[4] c = \"0000\";\nc[0] = 1;\n";
    let (errors, asg) = analyse(code);
    assert_eq!(
        count(&errors, is_mutate_const),
        1,
        "`c` is const, so `c[0] = 1;` must get exactly one MutateConstError.\n\
         program:\n{code}\ndiagnostics: {:?}\nASG: {asg}",
        texts(&errors)
    );
}

// ---------------------------------------------------------------------------------------------
// F2a. A binary operator applied to an *indexed* qubit is not reported.
//      Clause: "applying a binary operator to a quantum value is reported".
// ---------------------------------------------------------------------------------------------
#[test]
fn f2a_binary_operator_on_indexed_qubit_is_reported() {
    // Control: the whole register is reported.
    let (errors, _) = analyse("qubit[2] q;\nq + 1;\n");
    assert_eq!(
        count(&errors, is_incompatible),
        1,
        "control failed: {:?}",
        texts(&errors)
    );

    let code = "qubit[2] q;\nq[0] + 1;\n";
    let (errors, asg) = analyse(code);
    assert!(
        count(&errors, is_incompatible) >= 1,
        "`q[0]` is a qubit, so `q[0] + 1` must get an IncompatibleTypesError.\n\
         program:\n{code}\ndiagnostics: {:?}\nASG: {asg}",
        texts(&errors)
    );
}

// ---------------------------------------------------------------------------------------------
// F2b. (same root cause as F2a, opposite direction) An alias of a qubit slice is rejected as a
//      gate operand although it is quantum.
//      Clause: "a program that does none of these gets none of these diagnostics".
// ---------------------------------------------------------------------------------------------
#[test]
fn f2b_alias_of_qubit_slice_is_a_legal_gate_operand() {
    // Control: alias of the whole register is accepted.
    let (errors, _) = analyse("qubit[4] q;\nlet a = q;\nU(0, 0, 0) a;\n");
    assert!(errors.is_empty(), "control failed: {:?}", texts(&errors));

    let code = "qubit[4] q;\nlet a = q[0:1];\nU(0, 0, 0) a;\nreset a;\n";
    let (errors, asg) = analyse(code);
    assert!(
        errors.is_empty(),
        "`a` aliases two qubits of `q`; using it as gate / reset operand breaks no rule.\n\
         program:\n{code}\ndiagnostics: {:?}\nASG: {asg}",
        texts(&errors)
    );
}

// ---------------------------------------------------------------------------------------------
// F3. Measuring one element of a qubit register into a `bit` gets IncompatibleTypesError:
//     the indexed operand `q[0]` is typed as the whole register `QubitArray(D1(2))`, so the
//     measurement is typed `bit[2]`.
//     Clause: "a program that does none of these gets none of these diagnostics"
//     (the operand of measure IS quantum).
// ---------------------------------------------------------------------------------------------
#[test]
fn f3_measure_of_indexed_qubit_into_bit_is_legal() {
    // Control: scalar qubit.
    let (errors, _) = analyse("qubit q;\nbit c;\nc = measure q;\n");
    assert!(errors.is_empty(), "control failed: {:?}", texts(&errors));

    let code = "qubit[2] q;\nbit c;\nc = measure q[0];\n";
    let (errors, asg) = analyse(code);
    assert!(
        errors.is_empty(),
        "`measure q[0]` has a quantum operand and yields one bit; no rule is broken.\n\
         program:\n{code}\ndiagnostics: {:?}\nASG: {asg}",
        texts(&errors)
    );
}

// ---------------------------------------------------------------------------------------------
// F4. `delay[s]` with `s` a stretch is reported as a non-duration delay.
//     Clause: "a non-duration delay [is] reported; and a program that does none of these gets
//     none of these diagnostics". (stretch is the spec's resolvable sub-type of duration;
//     `delay[a] q;` with `stretch a;` is the spec's own example.)
// ---------------------------------------------------------------------------------------------
#[test]
fn f4_delay_with_stretch_is_legal() {
    let code = "qubit q;\nstretch st;\ndelay[st] q;\n";
    let (errors, asg) = analyse(code);
    assert!(
        errors.is_empty(),
        "a stretch is a duration; `delay[st] q;` breaks no rule.\n\
         program:\n{code}\ndiagnostics: {:?}\nASG: {asg}",
        texts(&errors)
    );
}

// ---------------------------------------------------------------------------------------------
// F5. `delay[2*d]` with `d` a duration is reported as a non-duration delay
//     (duration * int is typed Void).
// ---------------------------------------------------------------------------------------------
#[test]
fn f5_delay_with_scaled_duration_is_legal() {
    // Control: sum of durations is accepted.
    let (errors, _) = analyse("qubit q;\nduration d = 10ns;\ndelay[d + d] q;\n");
    assert!(errors.is_empty(), "control failed: {:?}", texts(&errors));

    let code = "qubit q;\nduration d = 10ns;\ndelay[2 * d] q;\n";
    let (errors, asg) = analyse(code);
    assert!(
        errors.is_empty(),
        "`2 * d` is a duration; `delay[2 * d] q;` breaks no rule.\n\
         program:\n{code}\ndiagnostics: {:?}\nASG: {asg}",
        texts(&errors)
    );
}

// ---------------------------------------------------------------------------------------------
// F6. `return` outside any subroutine is only reported when it is a direct child of the
//     program; inside a top-level if / for / while / switch body it is silently accepted.
//     Clause: "`return` at global scope [is] reported".
// ---------------------------------------------------------------------------------------------
#[test]
fn f6_return_outside_subroutine_in_top_level_block_is_reported() {
    // Control: direct child of the program.
    let (errors, _) = analyse("return;\n");
    assert_eq!(
        count(&errors, is_return_global),
        1,
        "control failed: {:?}",
        texts(&errors)
    );
    // Control: inside a subroutine, nested in a block: legal.
    let (errors, _) = analyse("def f() { if (true) { return; } }\n");
    assert!(errors.is_empty(), "control failed: {:?}", texts(&errors));

    for code in [
        "if (true) { return; }\n",
        "if (true) return;\n",
        "for int i in [0:1] { return; }\n",
        "while (true) { return; }\n",
        "int k = 1;\nswitch (k) { case 1 { return; } }\n",
    ] {
        let (errors, asg) = analyse(code);
        assert_eq!(
            count(&errors, is_return_global),
            1,
            "there is no enclosing subroutine, so this `return` must get ReturnInGlobalScopeError.\n\
             program:\n{code}\ndiagnostics: {:?}\nASG: {asg}",
            texts(&errors)
        );
    }
}
