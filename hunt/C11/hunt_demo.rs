// Bug-hunt demo for property C11:
// "Malformed lexemes are always diagnosed and errors gate the later stages".
//
// Every test asserts what the property REQUIRES and therefore FAILS on the current code.
// Only public API of oq3_lexer / oq3_parser / oq3_syntax / oq3_semantics is used.

use oq3_semantics::syntax_to_semantics::parse_source_string;
use oq3_syntax::ast::SourceFile;
use std::panic::{catch_unwind, AssertUnwindSafe};

/// Raw lexer tokens, as `Kind"text"`, for assertion messages.
fn tokens(src: &str) -> String {
    let mut off = 0usize;
    let mut out = Vec::new();
    for t in oq3_lexer::tokenize(src) {
        let text = &src[off..off + t.len as usize];
        off += t.len as usize;
        if !matches!(t.kind, oq3_lexer::TokenKind::Whitespace) {
            out.push(format!("{:?}{:?}", t.kind, text));
        }
    }
    out.join(" ")
}

/// Lexical diagnostics (byte range, message) recorded by `LexedStr`.
fn lex_diags(src: &str) -> Vec<(std::ops::Range<usize>, String)> {
    let lexed = oq3_parser::LexedStr::new(src);
    lexed
        .errors()
        .map(|(i, msg)| (lexed.text_range(i), msg.to_string()))
        .collect()
}

/// Is there a lexical diagnostic whose range overlaps the malformed lexeme `lexeme` of `src`?
fn has_lex_diag_on(src: &str, lexeme: &str) -> bool {
    let start = src.find(lexeme).expect("lexeme occurs in src");
    let end = start + lexeme.len();
    lex_diags(src)
        .iter()
        .any(|(r, _)| r.start < end && start < r.end)
}

/// What the whole pipeline does with `src`; a panic is reported as Err(message).
/// (The default panic hook also prints the panic location to stderr.)
fn pipeline(src: &str) -> Result<(bool, usize, bool), String> {
    let res = catch_unwind(AssertUnwindSafe(|| {
        let r = parse_source_string(src, None);
        (
            r.any_syntax_errors(),
            r.program().stmts().len(),
            r.any_semantic_errors(),
        )
    }));
    res.map_err(|e| {
        e.downcast_ref::<String>()
            .cloned()
            .or_else(|| e.downcast_ref::<&str>().map(|s| s.to_string()))
            .unwrap_or_else(|| "panic".to_string())
    })
}

/// Positive control for the helpers: the malformed lexemes that the lexer does know about are
/// reported, on the lexeme, and the tree is withheld.
fn control() {
    for (src, lexeme) in [
        ("int x = 0b;", "0b"),
        ("int x = 0x;", "0x"),
        ("float x = 1e;", "1e"),
        ("float x = 1.0e+;", "1.0e+"),
        ("OPENQASM 3.;", "OPENQASM 3."),
        ("int a\u{1F600}b = 1;", "a\u{1F600}b"),
    ] {
        assert!(has_lex_diag_on(src, lexeme), "control failed: {src:?}");
        assert!(
            !SourceFile::parse_check_lex(src).have_parse(),
            "control failed: {src:?}"
        );
    }
}

fn describe(src: &str) -> String {
    let p = SourceFile::parse_check_lex(src);
    let errs: Vec<String> = p
        .errors()
        .iter()
        .map(|e| format!("{:?}: {}", e.range(), e))
        .collect();
    format!(
        "\n  source          : {:?}\n  lexer tokens    : {}\n  lexical diags   : {:?}\n  parse_check_lex : have_parse={} errors={:?}\n  full pipeline   : {}\n",
        src,
        tokens(src),
        lex_diags(src),
        p.have_parse(),
        errs,
        match pipeline(src) {
            Ok((syn, n, sem)) => format!(
                "any_syntax_errors={syn} program.len={n} any_semantic_errors={sem}"
            ),
            Err(m) => format!("PANIC: {m}"),
        }
    )
}

/// Finding 1. `0b2` / `0o8`: a base prefix followed by no digit of that base.
/// The lexer eats *decimal* digits after `0b` / `0o`, so `empty_int` stays false.
#[test]
fn f1_binary_or_octal_prefix_without_a_digit_of_that_base_is_diagnosed() {
    control();
    for (src, lexeme) in [("int x = 0b2;", "0b2"), ("int x = 0o8;", "0o8")] {
        assert!(
            has_lex_diag_on(src, lexeme),
            "no lexical diagnostic on the integer `{lexeme}` (base prefix, but no digit of that base){}",
            describe(src)
        );
        assert!(
            !SourceFile::parse_check_lex(src).have_parse(),
            "a tree was returned for a source with a malformed integer{}",
            describe(src)
        );
    }
}

/// Finding 2. `0B` / `0X`: OpenQASM 3 base prefixes may be upper case ('0b'|'0B', '0x'|'0X').
/// The lexer only knows the lower-case ones; `0B` becomes decimal `0` with a "suffix" `B`.
#[test]
fn f2_upper_case_base_prefix_without_digits_is_diagnosed() {
    control();
    for (src, lexeme) in [("int x = 0B;", "0B"), ("int x = 0X;", "0X")] {
        assert!(
            has_lex_diag_on(src, lexeme),
            "no lexical diagnostic on the integer `{lexeme}` (base prefix without digits){}",
            describe(src)
        );
        assert!(
            !SourceFile::parse_check_lex(src).have_parse(),
            "a tree was returned for a source with a malformed integer{}",
            describe(src)
        );
    }
}

/// Finding 3. `1.e`: a float with an exponent marker but no exponent digits.
/// (`1e`, `1.0e`, `.5e` are diagnosed; `1.e` is not: the `e` is eaten as a literal suffix.)
#[test]
fn f3_float_with_point_then_exponent_marker_without_digits_is_diagnosed() {
    control();
    let src = "float x = 1.e;";
    assert!(
        has_lex_diag_on(src, "1.e"),
        "no lexical diagnostic on the float `1.e` (exponent marker without digits){}",
        describe(src)
    );
    assert!(
        !SourceFile::parse_check_lex(src).have_parse(),
        "a tree was returned for a source with a malformed float{}",
        describe(src)
    );
}

/// Finding 4. Version header: the language says `[0-9]+ ('.' [0-9]+)?`.
/// The lexer uses `eat_decimal_digits`, which also eats underscores.
#[test]
fn f4_version_header_with_underscores_is_diagnosed() {
    control();
    for src in ["OPENQASM 3_0;", "OPENQASM _3;", "OPENQASM 3._1;"] {
        let lexeme = &src[..src.len() - 1];
        assert!(
            has_lex_diag_on(src, lexeme),
            "no lexical diagnostic on the malformed version header `{lexeme}`{}",
            describe(src)
        );
    }
}

/// Finding 5. Identifiers: OpenQASM 3 allows [A-Za-z_], Unicode letters (Lu Ll Lt Lm Lo Nl) and,
/// after the first character, [0-9]. The lexer uses XID_Continue, which also admits
/// U+00B7 MIDDLE DOT (punctuation), U+200D ZERO WIDTH JOINER (invisible), combining marks and
/// non-ASCII digits.
#[test]
fn f5_identifier_with_forbidden_characters_is_diagnosed() {
    control();
    for (src, lexeme) in [
        ("int a\u{b7}b = 1;", "a\u{b7}b"),
        ("int a\u{200d}b = 1;", "a\u{200d}b"),
        ("int x\u{663} = 1;", "x\u{663}"),
    ] {
        assert!(
            has_lex_diag_on(src, lexeme),
            "no lexical diagnostic on the identifier {lexeme:?}, which contains a forbidden character{}",
            describe(src)
        );
    }
}

/// Finding 6. The gate: a source with a syntax diagnostic must yield an empty program and no
/// semantic diagnostics. Here the pipeline panics before `analyze_source` is reached, because
/// `parse_included_files` unwraps the value of the include path, which is `None` when the
/// string contains a backslash that is not one of Rust's escapes (OpenQASM 3 strings have no
/// escapes at all, so `"dir\q.inc"` is an ordinary string).
/// The same panic occurs without the syntax error (`include "dir\q.inc";` alone: no diagnostic of
/// any kind, and semantic analysis does not "run otherwise").
#[test]
fn f6_syntax_error_plus_include_path_with_backslash_yields_empty_program() {
    let src = "include \"dir\\q.inc\";\nint x = ;";
    // The source does have a syntax diagnostic, and a tree.
    let p = SourceFile::parse_check_lex(src);
    assert!(p.have_parse() && !p.errors().is_empty(), "{}", describe(src));
    match pipeline(src) {
        Ok((syn, n, sem)) => assert!(
            syn && n == 0 && !sem,
            "expected (any_syntax_errors, empty program, no semantic errors){}",
            describe(src)
        ),
        Err(m) => panic!(
            "the pipeline panicked instead of returning an empty program with any_syntax_errors: {m}{}",
            describe(src)
        ),
    }
}
