// C10 "Literal values reach the semantic graph exactly" - bug-hunt demonstrations.
// Every test asserts what the property REQUIRES, so every test FAILS on the current code.
//
// run: cargo test --offline -p oq3_semantics --test hunt_demo

use oq3_semantics::asg;
use oq3_semantics::syntax_to_semantics::parse_source_string;
use oq3_semantics::types::{IsConst, Type};
use oq3_syntax::ast::{self, AstNode};
use oq3_syntax::AstToken;

/// Outcome of running the whole front end on `code`.
enum Outcome {
    /// (statements, any syntax error, number of semantic errors)
    Done(Vec<asg::Stmt>, bool, usize),
    Panicked(String),
}

fn analyze(code: &str) -> Outcome {
    let owned = code.to_string();
    let res = std::panic::catch_unwind(move || {
        let parsed = parse_source_string(&owned, None);
        let syn = parsed.any_syntax_errors();
        let (program, errors, _symbols) = parsed.take_context().as_tuple();
        (program.stmts().to_vec(), syn, errors.len())
    });
    match res {
        Ok((stmts, syn, nerr)) => Outcome::Done(stmts, syn, nerr),
        Err(payload) => {
            let msg = payload
                .downcast_ref::<String>()
                .cloned()
                .or_else(|| payload.downcast_ref::<&str>().map(|s| s.to_string()))
                .unwrap_or_else(|| "<non-string panic payload>".to_string());
            Outcome::Panicked(msg)
        }
    }
}

fn syntax_tree(code: &str) -> String {
    let parse = oq3_syntax::SourceFile::parse(code);
    format!(
        "syntax errors: {:?}\n{:#?}",
        parse.errors(),
        parse.syntax_node()
    )
}

/// The expression of the single `ExprStmt` the program consists of.
fn single_expr(code: &str) -> asg::TExpr {
    match analyze(code) {
        Outcome::Done(stmts, syn, nerr) => {
            assert!(
                !syn && nerr == 0,
                "{code:?} is not accepted: syntax_errors={syn} semantic_errors={nerr}"
            );
            match stmts.as_slice() {
                [asg::Stmt::ExprStmt(texpr)] => texpr.clone(),
                other => panic!("{code:?}: expected one expression statement, got {other:#?}"),
            }
        }
        Outcome::Panicked(msg) => panic!(
            "{code:?}: the analysis PANICKED with {msg:?}\nsyntax tree of the input:\n{}",
            syntax_tree(code)
        ),
    }
}

// ---------------------------------------------------------------------------------------------
// Finding 1a. `1.e3ns` (float with empty fraction + exponent, directly followed by the unit).
// `1.e3` is a valid OpenQASM 3 FloatLiteral and `1.e3ns` a valid TimingLiteral (1000 ns).
// The property requires a duration literal with value 1000 and unit ns (exactly what `1.e3 ns`
// and `1.0e3ns` give). The code yields the plain float 1000: the unit is silently dropped.
// The same happens to `1.e3im` (becomes the REAL number 1000).
// ---------------------------------------------------------------------------------------------
#[test]
fn f1a_exponent_after_trailing_dot_keeps_unit() {
    // Reference spellings that work today (so the expectation is not a matter of taste):
    for reference in ["1.e3 ns;", "1.0e3ns;", "1e3ns;"] {
        let e = single_expr(reference);
        assert!(
            matches!(e.expression(), asg::Expr::Literal(asg::Literal::TimingFloatLiteral(t))
                if *t.value() == 1000.0 && *t.time_unit() == asg::TimeUnit::NanoSecond),
            "reference spelling {reference:?} gave {e:#?}"
        );
    }

    let e = single_expr("1.e3ns;");
    assert!(
        matches!(e.expression(), asg::Expr::Literal(asg::Literal::TimingFloatLiteral(t))
            if *t.value() == 1000.0 && *t.time_unit() == asg::TimeUnit::NanoSecond),
        "`1.e3ns` must be the duration literal 1000 ns, got {e:#?}"
    );

    let e = single_expr("1.e3im;");
    assert!(
        matches!(e.expression(), asg::Expr::Literal(asg::Literal::ImaginaryFloat(f))
            if f.value().parse::<f64>() == Ok(1000.0)),
        "`1.e3im` must be the imaginary literal 1000 im, got {e:#?}"
    );
}

// ---------------------------------------------------------------------------------------------
// Finding 1b. `1.e-3` (empty fraction + SIGNED exponent). Valid FloatLiteral, value 0.001.
// The lexer ends the token after `1.e`; the parser then builds the subtraction `1.e - 3` WITHOUT
// any syntax error, and the semantic pass panics on `FloatNumber::value() == None`.
// (same lexer root cause as 1a: the exponent is not lexed when no digit follows the dot)
// ---------------------------------------------------------------------------------------------
#[test]
fn f1b_signed_exponent_after_trailing_dot() {
    // Reference spellings that work today.
    for reference in ["1.0e-3;", "1e-3;"] {
        let e = single_expr(reference);
        assert!(
            matches!(e.expression(), asg::Expr::Literal(asg::Literal::Float(f))
                if f.value().parse::<f64>() == Ok(0.001)),
            "reference spelling {reference:?} gave {e:#?}"
        );
    }

    // AST level: the accepted program must contain exactly one float literal, of value 0.001.
    let parse = oq3_syntax::SourceFile::parse("1.e-3;");
    let floats: Vec<_> = parse
        .syntax_node()
        .descendants()
        .filter_map(ast::Literal::cast)
        .map(|lit| match lit.kind() {
            ast::LiteralKind::FloatNumber(f) => format!("Float({:?} = {:?})", f.text(), f.value()),
            ast::LiteralKind::IntNumber(i) => format!("Int({:?} = {:?})", i.text(), i.value()),
            _ => "other".to_string(),
        })
        .collect();
    assert!(
        parse.errors().is_empty(),
        "`1.e-3;` is a valid program, errors: {:?}",
        parse.errors()
    );
    assert_eq!(
        floats,
        vec!["Float(\"1.e-3\" = Some(0.001))".to_string()],
        "`1.e-3;` must hold the single float literal 0.001; syntax tree:\n{}",
        syntax_tree("1.e-3;")
    );

    // Semantic level.
    let e = single_expr("1.e-3;");
    assert!(
        matches!(e.expression(), asg::Expr::Literal(asg::Literal::Float(f))
            if f.value().parse::<f64>() == Ok(0.001)),
        "`1.e-3` must be the float literal 0.001, got {e:#?}"
    );
}

// ---------------------------------------------------------------------------------------------
// Finding 2. Unary minus directly applied to a duration literal: `-1ns` (also `-1.5ns`, `- 1 dt`,
// `delay[-100ns] q;`). Negative durations are legal OpenQASM 3. asg::TimingIntLiteral even has a
// `sign` field for this. The property requires the negated literal (value 1, sign false, ns).
// The code panics: "Only floats are supported as operands to unary minus."
// ---------------------------------------------------------------------------------------------
#[test]
fn f2_minus_applied_to_duration_literal() {
    // With parentheses the program is analysed fine, so negative durations are not rejected by design.
    let e = single_expr("-(1ns);");
    assert!(
        matches!(e.expression(), asg::Expr::UnaryExpr(_)),
        "reference `-(1ns)` gave {e:#?}"
    );

    let e = single_expr("-1ns;");
    assert!(
        matches!(e.expression(), asg::Expr::Literal(asg::Literal::TimingIntLiteral(t))
            if *t.value() == 1 && !*t.sign() && *t.time_unit() == asg::TimeUnit::NanoSecond),
        "`-1ns` must be the negated duration literal (value 1, sign false, ns), got {e:#?}"
    );
    let e = single_expr("-1.5 us;");
    assert!(
        matches!(e.expression(), asg::Expr::Literal(asg::Literal::TimingFloatLiteral(t))
            if *t.value() == 1.5 && !*t.sign() && *t.time_unit() == asg::TimeUnit::MicroSecond),
        "`-1.5 us` must be the negated duration literal (value 1.5, sign false, us), got {e:#?}"
    );
}

// ---------------------------------------------------------------------------------------------
// Finding 3. `-2 ** 2`. In OpenQASM 3 `**` binds tighter than unary minus, so the minus sign is NOT
// directly applied to the literal: the program contains the literals 2 and 2 and means -(2**2) = -4.
// The parser gives prefix operators the maximal binding power (255) and the semantic pass folds the
// minus into the literal, so the graph holds the literal -2 raised to 2 (= +4): a literal value
// (-2) that does not occur in the program.
// ---------------------------------------------------------------------------------------------
#[test]
fn f3_minus_is_not_folded_into_the_base_of_a_power() {
    let e = single_expr("-2 ** 2;");
    // Required shape: UnaryExpr(Minus, BinaryExpr(2, 2)) - in any case no negative literal.
    let dump = format!("{e:?}");
    assert!(
        matches!(e.expression(), asg::Expr::UnaryExpr(_)) && !dump.contains("sign: false"),
        "`-2 ** 2` is -(2 ** 2): both literals are +2 and the minus applies to the power; got {e:#?}"
    );
}

// ---------------------------------------------------------------------------------------------
// Finding 4. Imaginary INTEGER literal: `5 im`. The literal node is ImaginaryInt(5), but it is typed
// `int[64]` (IntLiteral::to_imaginary_texpr), whereas `5.0 im` is typed complex[float[64]].
// So the "unit" of the literal is lost for everything that looks at the type:
// in `complex c = 1 + 2im;` the imaginary literal is CAST TO int[128] and the sum is typed int[128].
// ---------------------------------------------------------------------------------------------
#[test]
fn f4_imaginary_int_literal_is_complex() {
    let float_im = single_expr("5.0 im;");
    assert_eq!(
        float_im.get_type(),
        &Type::Complex(Some(64), IsConst::True),
        "reference `5.0 im`"
    );

    let int_im = single_expr("5 im;");
    assert!(
        matches!(int_im.expression(), asg::Expr::Literal(asg::Literal::ImaginaryInt(i)) if *i.value() == 5),
        "got {int_im:#?}"
    );
    assert!(
        matches!(int_im.get_type(), Type::Complex(..)),
        "`5 im` is an imaginary literal, its type must be complex (as for `5.0 im`), got {int_im:#?}"
    );
}

// ---------------------------------------------------------------------------------------------
// Finding 5. AST literal accessor `IntNumber::float_value` ignores the radix: it parses the digits
// after the prefix as a DECIMAL float. `0x10` -> 10.0 (value() says 16), `0b11` -> 11.0 (3),
// `0xff` -> None (255).
// ---------------------------------------------------------------------------------------------
#[test]
fn f5_int_number_float_value_agrees_with_value() {
    for (src, expected) in [("16;", 16u128), ("0x10;", 16), ("0b11;", 3), ("0o17;", 15), ("0xff;", 255)] {
        let parse = oq3_syntax::SourceFile::parse(src);
        assert!(parse.errors().is_empty());
        let int_number = parse
            .syntax_node()
            .descendants()
            .filter_map(ast::Literal::cast)
            .find_map(|lit| match lit.kind() {
                ast::LiteralKind::IntNumber(n) => Some(n),
                _ => None,
            })
            .unwrap();
        assert_eq!(int_number.value(), Some(expected), "{src}");
        assert_eq!(
            int_number.float_value(),
            Some(expected as f64),
            "IntNumber::float_value of {:?} must agree with IntNumber::value = {expected}",
            int_number.text()
        );
    }
}
