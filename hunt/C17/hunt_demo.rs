// C17 hunt: "Analysis is invariant under layout and renaming, one-pass and deterministic".
//
// Every test states what the property REQUIRES (two programs that differ only in layout, or only by
// an injective renaming of user identifiers, give the same graph / symbols / diagnostic kinds) and
// therefore FAILS on the current code.

use oq3_semantics::asg;
use oq3_semantics::symbols::{SymbolTable, SymbolType};
use oq3_semantics::syntax_to_semantics::parse_source_string;

struct Run {
    syntax_errors: bool,
    program: asg::Program,
    symbols: SymbolTable,
    kinds: Vec<String>,
}

fn analyse(code: &str) -> Run {
    let result = parse_source_string(code, None);
    let syntax_errors = result.any_syntax_errors();
    let (program, errors, symbols) = result.take_context().as_tuple();
    // Kind of each diagnostic, without its position (and without the payload of RedeclarationError).
    let kinds = errors
        .iter()
        .map(|e| {
            let s = format!("{:?}", e.kind());
            s.split('(').next().unwrap().to_string()
        })
        .collect();
    Run {
        syntax_errors,
        program,
        symbols,
        kinds,
    }
}

fn show(code: &str, r: &Run) -> String {
    format!(
        "\n  source: {:?}\n  syntax errors: {}\n  diagnostics: {:?}\n  graph: {:#?}\n",
        code, r.syntax_errors, r.kinds, r.program.stmts
    )
}

/// The property for two layouts of the same token sequence.
fn assert_same_analysis(what: &str, code_a: &str, code_b: &str) {
    let a = analyse(code_a);
    let b = analyse(code_b);
    let same = a.syntax_errors == b.syntax_errors
        && a.program == b.program
        && a.symbols == b.symbols
        && a.kinds == b.kinds;
    assert!(
        same,
        "{what}\n--- layout A:{}--- layout B:{}",
        show(code_a, &a),
        show(code_b, &b)
    );
}

// ---------------------------------------------------------------------------------------------
// F1. A block comment whose text contains `/*`.
// OpenQASM 3 block comments do not nest: `/* a /* b */` is one complete comment. Replacing the
// comment `/* a */` by the comment `/* a /* b */` changes nothing but a comment between two tokens.
// The lexer (copied from rustc_lexer) counts nesting depth, so the comment is "unterminated", it
// swallows the rest of the file, and the whole analysis is skipped.
#[test]
fn f1_layout_block_comment_containing_comment_opener() {
    assert_same_analysis(
        "changing only the text of a comment changed the result",
        "int x; /* a */ int y;\n",
        "int x; /* a /* b */ int y;\n",
    );
}

// ---------------------------------------------------------------------------------------------
// F2. CRLF instead of LF after a pragma line / an annotation line.
// Only the line breaks differ. The pragma / annotation token is "everything up to '\n'", so the
// '\r' ends up inside Pragma::pragma_text and Annotation::annotation_text: the graphs differ.
#[test]
fn f2_layout_crlf_line_breaks_after_pragma_and_annotation() {
    assert_same_analysis(
        "changing only the line breaks (LF -> CRLF) changed the graph",
        "pragma vendor opt\n@keep this\nint x;\n",
        "pragma vendor opt\r\n@keep this\r\nint x;\r\n",
    );
}

// ---------------------------------------------------------------------------------------------
// F3. A comment placed directly after the version number of the version statement.
// `OPENQASM 3.0 ;` and `OPENQASM 3.0 /* c */;` are accepted, but with the comment (or a line
// comment) touching the number the lexer reports "Invalid version number", and nothing is analysed.
#[test]
fn f3_layout_comment_directly_after_version_number() {
    assert_same_analysis(
        "inserting a comment between the version number and `;` changed the result",
        "OPENQASM 3.0 ;\nint x;\n",
        "OPENQASM 3.0/* c */;\nint x;\n",
    );
}

// ---------------------------------------------------------------------------------------------
// F4. A lone carriage return as line break after a line comment.
// The OpenQASM grammar ends a line comment at '\r' or '\n' (LineComment: '//' ~[\r\n]*). Here only
// '\n' ends it, so with CR line breaks the statement on the next line silently disappears from the
// graph (no diagnostic at all).
#[test]
fn f4_layout_lone_cr_line_break_after_line_comment() {
    assert_same_analysis(
        "changing only the line breaks (LF -> CR) silently dropped a statement",
        "int x; // first\nint y;\n",
        "int x; // first\rint y;\r",
    );
}

/// The property for an injective renaming of user identifiers: same graph (symbol ids are
/// name-independent), same diagnostic kinds, and the renamed symbol is bound with the same type.
fn assert_same_up_to_renaming(code_a: &str, old: &str, code_b: &str, new: &str) {
    let a = analyse(code_a);
    let b = analyse(code_b);
    let type_a = a.symbols.lookup(old).map(|r| r.symbol_type().clone());
    let type_b = b.symbols.lookup(new).map(|r| r.symbol_type().clone());
    let same = a.syntax_errors == b.syntax_errors
        && a.program == b.program
        && a.kinds == b.kinds
        && type_a == type_b;
    assert!(
        same,
        "renaming `{old}` to `{new}` changed the result\n--- original:{}  type of `{old}`: {:?}\n--- renamed:{}  type of `{new}`: {:?}\n",
        show(code_a, &a),
        type_a,
        show(code_b, &b),
        type_b
    );
}

// ---------------------------------------------------------------------------------------------
// F5. Renaming a variable to `_`.
// `_` is a valid OpenQASM 3 identifier (Identifier: FirstIdCharacter GeneralIdCharacter*, with
// FirstIdCharacter: '_' | ...); it is no keyword, built-in or gate name. The token converter turns
// the identifier `_` into the rust-analyzer leftover token UNDERSCORE, which no OpenQASM rule
// accepts as a name: syntax errors, nothing analysed. (`__` and `_a` work.)
#[test]
fn f5_rename_identifier_to_single_underscore() {
    assert_same_up_to_renaming(
        "int x = 1;\nx = 2;\n",
        "x",
        "int _ = 1;\n_ = 2;\n",
        "_",
    );
}

// ---------------------------------------------------------------------------------------------
// F6. Renaming a variable to `dim`.
// The OpenQASM 3 keyword is `#dim`; plain `dim` is an ordinary identifier. The keyword table maps
// the identifier text "dim" to DIM_KW as well, so `int dim;` is a syntax error.
#[test]
fn f6_rename_identifier_to_dim() {
    assert_same_up_to_renaming(
        "int x = 1;\nx = 2;\n",
        "x",
        "int dim = 1;\ndim = 2;\n",
        "dim",
    );
}

// ---------------------------------------------------------------------------------------------
// F7 (side finding; contradicts the stated mechanism "single forward pass; state carried only in
// Context" rather than one of the four relations literally).
// The analysis of `let a = q;` depends on parser state left behind by an EARLIER statement: once the
// top-level loop has met any statement that is not an "item" (pragma, annotation, gate call,
// assignment, expression statement), it stays inside `expr_block_statements`, where `let` is parsed
// as LET_STMT (-> NotImplementedError + NullStmt, `a` never bound) instead of
// ALIAS_DECLARATION_STATEMENT (-> Alias, `a` bound).
// Requirement checked: inserting a pragma line (which binds nothing) between two statements adds
// one Pragma statement to the graph and leaves the other statements and the diagnostics unchanged.
#[test]
fn f7_let_statement_analysed_differently_after_a_pragma() {
    let code_a = "qubit[2] q;\nlet a = q;\nU(0, 0, 0) a[0];\n";
    let code_b = "qubit[2] q;\npragma p\nlet a = q;\nU(0, 0, 0) a[0];\n";
    let a = analyse(code_a);
    let b = analyse(code_b);
    let b_without_pragma: Vec<asg::Stmt> = b
        .program
        .stmts
        .iter()
        .filter(|s| !matches!(s, asg::Stmt::Pragma(_)))
        .cloned()
        .collect();
    assert!(
        a.program.stmts == b_without_pragma && a.kinds == b.kinds && a.symbols == b.symbols,
        "a preceding pragma changed how `let a = q;` (and every later use of `a`) is analysed\n--- without pragma:{}--- with pragma:{}",
        show(code_a, &a),
        show(code_b, &b)
    );
}
