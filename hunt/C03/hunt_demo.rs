// Bug hunt for property C03: "Semantic analysis returns normally on every
// syntax-error-free program".
//
// Every test below takes a program for which the lexer+parser report NO diagnostics
// (this premise is checked with oq3_syntax::SourceFile::parse_check_lex) and asserts what
// the property requires: `parse_source_string` / `parse_source_file` returns a result
// (program, symbol table, diagnostics) instead of panicking, overflowing the stack or
// recursing for ever.  All of them FAIL on the code as it is.

use oq3_semantics::syntax_to_semantics::{parse_source_file, parse_source_string};
use std::panic;

/// What the analyser produced, or the panic message.
#[derive(Debug)]
struct Outcome {
    semantic_errors: Vec<String>,
    num_stmts: usize,
}

/// The premise of the property: the program parses without diagnostics.
fn assert_parses_cleanly(src: &str) {
    let parsed = oq3_syntax::SourceFile::parse_check_lex(src);
    assert!(
        parsed.have_parse() && parsed.errors().is_empty(),
        "premise broken, the parser reports diagnostics for {src:?}: {:?}",
        parsed.errors()
    );
}

/// Run the whole front end on `src`; Err(message) if it panicked.
fn analyze(src: &str) -> Result<Outcome, String> {
    assert_parses_cleanly(src);
    let owned = src.to_string();
    let result = panic::catch_unwind(move || {
        let res = parse_source_string(owned.as_str(), None);
        assert!(!res.any_syntax_errors());
        Outcome {
            semantic_errors: res
                .semantic_errors()
                .iter()
                .map(|e| format!("{:?}", e.kind()))
                .collect(),
            num_stmts: res.program().len(),
        }
    });
    result.map_err(|e| {
        if let Some(s) = e.downcast_ref::<String>() {
            s.clone()
        } else if let Some(s) = e.downcast_ref::<&str>() {
            s.to_string()
        } else {
            "<non-string panic payload>".to_string()
        }
    })
}

// ---------------------------------------------------------------------------------------
// Finding 1.  `barrier;` (a barrier on all qubits, valid OpenQASM 3: the operand list of
// `barrier` is optional) parses cleanly; the analyser unwraps the absent qubit list.
// ---------------------------------------------------------------------------------------
#[test]
fn f1_barrier_without_operands() {
    let src = "barrier;";
    let out = analyze(src);
    assert!(
        out.is_ok(),
        "semantic analysis of the valid program {src:?} must return normally, but it panicked: {:?}",
        out.unwrap_err()
    );
    let out = out.unwrap();
    assert_eq!(out.num_stmts, 1, "{out:?}");
}

// ---------------------------------------------------------------------------------------
// Finding 2.  An integer literal that does not fit in 128 bits is one INT_NUMBER token and
// parses cleanly; the analyser unwraps `IntNumber::value_u128()` / `IntNumber::value()`,
// which are `None` on overflow.  Same crash for a literal initializer, a negated literal,
// an imaginary / timing literal and a type width.
// ---------------------------------------------------------------------------------------
#[test]
fn f2_integer_literal_wider_than_128_bits() {
    let two_pow_128 = "340282366920938463463374607431768211456"; // u128::MAX + 1
    let mut failures = Vec::new();
    for src in [
        format!("int x = {two_pow_128};"),
        format!("int x = -{two_pow_128};"),
        format!("int[{two_pow_128}] x;"),
        format!("duration d = {two_pow_128}ns;"),
    ] {
        match analyze(&src) {
            Ok(out) => {
                // an out-of-range literal is a semantic fault: it has to be reported
                if out.semantic_errors.is_empty() {
                    failures.push(format!("{src:?} -> accepted silently: {out:?}"));
                }
            }
            Err(msg) => failures.push(format!("{src:?} -> PANIC: {msg}")),
        }
    }
    assert!(
        failures.is_empty(),
        "an out-of-range integer literal must be reported as a diagnostic, not crash:\n{}",
        failures.join("\n")
    );
}

// ---------------------------------------------------------------------------------------
// Finding 3.  Unsupported binary operators are not reported as diagnostics: the ordering
// comparisons, the logical operators and every compound assignment make
// `binary_op_to_asg_type` panic.  All of these are valid OpenQASM 3.
// ---------------------------------------------------------------------------------------
#[test]
fn f3_unsupported_binary_operators_panic() {
    let mut failures = Vec::new();
    for src in [
        "bool b = 1 < 2;",
        "bool b = 2 >= 1;",
        "bool b = true && false;",
        "bool b = true || false;",
        "int x; x += 1;",
        "bit[3] b; b <<= 1;",
        "int i = 0; while (i < 3) { i += 1; }",
    ] {
        if let Err(msg) = analyze(src) {
            failures.push(format!("{src:?} -> PANIC: {msg}"));
        }
    }
    assert!(
        failures.is_empty(),
        "constructs the analyser does not support must be reported as diagnostics, not crash:\n{}",
        failures.join("\n")
    );
}

// ---------------------------------------------------------------------------------------
// Finding 4.  A subroutine with an array-reference parameter (valid OpenQASM 3) parses
// cleanly.  The parser closes the parameter type as ARRAY_TYPE, never ARRAY_REF_TYPE, so
// `TypedParam::param_type()` is None and `bind_typed_parameter_list` hits
// panic!("You have found a bug in oq3_parser").  The Subroutine scope entered by
// with_scope! is left open by the unwinding.
// ---------------------------------------------------------------------------------------
#[test]
fn f4_def_with_array_reference_parameter() {
    let mut failures = Vec::new();
    for src in [
        "def f(readonly array[int[8], #dim=1] a) {}",
        "def f(mutable array[int[8], 3] a) {}",
    ] {
        if let Err(msg) = analyze(src) {
            failures.push(format!("{src:?} -> PANIC: {msg}"));
        }
    }
    assert!(
        failures.is_empty(),
        "array parameters are valid OpenQASM 3; if unsupported they must give a diagnostic:\n{}",
        failures.join("\n")
    );
}

// ---------------------------------------------------------------------------------------
// Findings 5 and 6 exhaust the stack, which aborts the process.  Each is therefore run in
// a child process (this same test binary, running one #[ignore]d helper test) and the
// parent test asserts that the child terminated normally.
// ---------------------------------------------------------------------------------------
fn run_child(helper: &str) -> (std::process::ExitStatus, String, String) {
    let exe = std::env::current_exe().expect("current_exe");
    let out = std::process::Command::new(exe)
        .args(["--ignored", "--exact", helper, "--nocapture", "--test-threads", "1"])
        .env("HUNT_C03_CHILD", "1")
        .output()
        .expect("spawn child");
    (
        out.status,
        String::from_utf8_lossy(&out.stdout).into_owned(),
        String::from_utf8_lossy(&out.stderr).into_owned(),
    )
}

fn last_lines(s: &str, n: usize) -> String {
    let lines: Vec<&str> = s.lines().filter(|l| !l.trim().is_empty()).collect();
    lines[lines.len().saturating_sub(n)..].join("\n")
}

/// Run `f` on a thread with the usual 8 MiB main-thread stack, so the outcome does not depend
/// on RUST_MIN_STACK or on the test harness' 2 MiB default.
fn on_8mib_stack<F: FnOnce() + Send + 'static>(f: F) {
    std::thread::Builder::new()
        .stack_size(8 * 1024 * 1024)
        .spawn(f)
        .unwrap()
        .join()
        .unwrap();
}

// Overflows an 8 MiB stack from about 1200 terms in a debug build and below 10000 terms in a
// release build; the parser alone still copes with 100000 terms (release) on the same stack.
const NUM_TERMS: usize = 12000;

fn long_sum() -> String {
    // int x = 1+1+1+ ... +1;   (NUM_TERMS additions, 24 kB of source, no nesting in the text)
    format!("int x = 1{};", "+1".repeat(NUM_TERMS))
}

// Finding 5.  A flat sum of 12000 terms: the parser copes (on the same stack), the analyser
// recurses once per operator in `expr_to_asg_texpr` (7 kB of stack per level in a debug build)
// and overflows an 8 MiB stack.
#[test]
fn f5_long_flat_expression_exhausts_the_stack() {
    let (status, stdout, stderr) = run_child("helper_f5_long_sum");
    assert!(
        status.success(),
        "analysis of `int x = 1+1+...+1;` ({NUM_TERMS} additions) must return normally; child: {status}\n\
         -- child stdout --\n{}\n-- child stderr --\n{}",
        last_lines(&stdout, 6),
        last_lines(&stderr, 6)
    );
}

#[test]
#[ignore]
fn helper_f5_long_sum() {
    if std::env::var("HUNT_C03_CHILD").is_err() {
        return;
    }
    on_8mib_stack(|| {
        let src = long_sum();
        let parsed = oq3_syntax::SourceFile::parse_check_lex(&src);
        println!(
            "parser returned normally on this stack: {} syntax errors",
            parsed.errors().len()
        );
        assert!(parsed.errors().is_empty());
        let res = parse_source_string(src.as_str(), None);
        println!(
            "analysis returned normally: {} semantic errors",
            res.semantic_errors().len()
        );
    });
}

// Finding 6.  A file that includes itself (each copy parses without diagnostics):
// `parse_included_files` recurses without bound ("FIXME: prevent a file from including
// itself"), so `parse_source_file` never returns; it ends in a stack overflow.
#[test]
fn f6_self_including_file_never_returns() {
    let (status, stdout, stderr) = run_child("helper_f6_include_cycle");
    assert!(
        status.success(),
        "parse_source_file on a file that includes itself must return (with a diagnostic); child: {status}\n\
         -- child stdout --\n{}\n-- child stderr --\n{}",
        last_lines(&stdout, 6),
        last_lines(&stderr, 6)
    );
}

#[test]
#[ignore]
fn helper_f6_include_cycle() {
    if std::env::var("HUNT_C03_CHILD").is_err() {
        return;
    }
    on_8mib_stack(|| {
        let dir = std::env::temp_dir().join(format!("hunt_c03_cycle_{}", std::process::id()));
        std::fs::create_dir_all(&dir).unwrap();
        let file = dir.join("self.qasm");
        let src = format!("include \"{}\";\nqubit q;\n", file.display());
        std::fs::write(&file, &src).unwrap();
        assert_parses_cleanly(&src);
        println!("the file parses without diagnostics; calling parse_source_file");
        let res = parse_source_file(&file);
        println!(
            "analysis returned normally: syntax errors: {}, {} semantic errors",
            res.any_syntax_errors(),
            res.semantic_errors().len()
        );
        let _ = std::fs::remove_dir_all(&dir);
    });
}
