// C16 hunt: "Statement parsing is compositional: context never changes a statement's parse".
//
// Each test takes statements that parse WITHOUT diagnostics on their own, concatenates them
// (at top level and/or inside a block body) and asserts what the property requires:
//   * the concatenation parses without diagnostics, and
//   * the statement list (SourceFile::statements() / BlockExpr::statements()) is exactly the
//     statement parsed from s1, then from s2, ... (same node kind, same text).
// All tests FAIL on the current code. None of them uses `let` or the top-level `int x;;`
// (those are the violations already listed in the property text).

use oq3_syntax::ast::{self, AstNode};
use oq3_syntax::SourceFile;

type Stmts = Vec<(String, String)>; // (node kind, node text)

fn stmt_list<I: Iterator<Item = ast::Stmt>>(it: I) -> Stmts {
    it.map(|s| {
        (
            format!("{:?}", s.syntax().kind()),
            s.syntax().text().to_string(),
        )
    })
    .collect()
}

/// Parse one statement on its own; it must be free of diagnostics.
fn alone(s: &str) -> Stmts {
    let p = SourceFile::parse(s);
    assert!(
        p.errors().is_empty(),
        "precondition: {s:?} must parse without diagnostics on its own, got {:?}",
        p.errors()
    );
    stmt_list(p.tree().statements())
}

fn expected(parts: &[&str]) -> Stmts {
    parts.iter().flat_map(|s| alone(s)).collect()
}

/// The concatenation at top level.
fn check_top(parts: &[&str], sep: &str) {
    let src = parts.join(sep);
    let p = SourceFile::parse(&src);
    assert!(
        p.errors().is_empty(),
        "concatenation {src:?} has diagnostics {:?}\n{}",
        p.errors(),
        p.debug_dump()
    );
    let got = stmt_list(p.tree().statements());
    assert_eq!(
        got,
        expected(parts),
        "\ntop level: statements of {src:?} differ from the statements parsed one by one from {parts:?}\ntree:\n{}",
        p.debug_dump()
    );
}

/// The concatenation as the body of `while (c) { ... }` (any block body shows the same).
fn check_in_while_body(parts: &[&str], sep: &str) {
    let src = format!("while (c) {{\n{}\n}}", parts.join(sep));
    let p = SourceFile::parse(&src);
    assert!(
        p.errors().is_empty(),
        "{src:?} has diagnostics {:?}\n{}",
        p.errors(),
        p.debug_dump()
    );
    let w = match p.tree().statements().next() {
        Some(ast::Stmt::WhileStmt(w)) => w,
        other => panic!("expected a while statement, got {other:?}\n{}", p.debug_dump()),
    };
    let body = w
        .syntax()
        .children()
        .find_map(ast::BlockExpr::cast)
        .expect("while body block");
    let got = stmt_list(body.statements());
    assert_eq!(
        got,
        expected(parts),
        "\nblock body: statements of {src:?} differ from the statements parsed one by one from {parts:?}\ntree:\n{}",
        p.debug_dump()
    );
}

// Finding 1.
// `{ x; }` (a scope / block statement) is one EXPR_STMT on its own. As the LAST statement of
// any block body it is not wrapped in EXPR_STMT (Rust "tail expression" rule kept in stmt():
// `if !p.at(T!['}'])`), so BlockExpr::statements() silently loses it.
#[test]
fn block_statement_last_in_block_body_is_lost() {
    check_in_while_body(&["y;", "{ x; }"], "\n");
}

// (Smallest form: the body of `while (c) { {} }` has no statement at all.)

// Finding 2.
// `x = 1;` is an ASSIGNMENT_STMT, `-x;` is an EXPR_STMT. Concatenated, the operator loop of
// expr_bp keeps going after it has completed the ASSIGNMENT_STMT (semicolon included), sees
// the binary operator `-` and builds ONE statement EXPR_STMT(BIN_EXPR(ASSIGNMENT_STMT - x)).
#[test]
fn statement_starting_with_minus_after_assignment_is_absorbed() {
    check_top(&["x = 1;", "-x;"], "\n");
}


// Finding 3.
// `{}` is the EXPR_STMT "{}", `;` is the empty statement (no node). Concatenated, the empty
// statement is eaten into the block statement (optional `;` after a block-like expression in
// stmt()), whose text becomes "{}\n;". (At top level after an *item* the same `;` is an error;
// that one is the known `int x;;` case and is not used here.)
#[test]
fn empty_statement_after_block_statement_is_absorbed() {
    check_top(&["{}", ";", "y;"], "\n");
}


// Finding 4 (lexical).
// `pragma foo` / `@anno a` are PRAGMA_STATEMENT / ANNOTATION_STATEMENT with exactly that text.
// When the next statement is separated by a Windows line break "\r\n", the statement text
// becomes "pragma foo\r" (same for "@anno a\r"): the lexer eats up to '\n' only, so the carriage return (which the
// same lexer classifies as white space everywhere else) becomes part of the statement.
#[test]
fn pragma_text_depends_on_the_line_break_that_follows() {
    check_top(&["pragma foo", "x;"], "\r\n");
}

