// C14 hunt: "Tokens partition the input on character boundaries".
//
// Both tests are memory hungry (4-5 GiB each) and take a minute or two in a
// debug build, so run them one at a time (--test-threads 1).

use oq3_lexer::tokenize;
use oq3_parser::LexedStr;

/// A single token whose byte length does not fit in `u32`.
///
/// `Cursor::pos_within_token` computes the length as `usize` and casts it with
/// `as u32`, so the length is silently reduced modulo 2^32.  The input below is
/// a line comment of exactly 2^32 bytes, so the only token has `len == 0`:
/// a zero-length token, and the lengths no longer sum to the input length.
#[test]
fn token_longer_than_u32_is_truncated() {
    // "//aa" (4 bytes) + (2^30 - 1) four-byte characters = 2^32 bytes, one line comment.
    let mut text = String::from("//aa");
    text.push_str(&"\u{1F600}".repeat((1usize << 30) - 1));
    assert_eq!(text.len(), 1usize << 32);

    let tokens: Vec<_> = tokenize(&text).collect();
    let sum: usize = tokens.iter().map(|t| t.len as usize).sum();
    let zero_len: Vec<_> = tokens.iter().filter(|t| t.len == 0).collect();
    assert!(
        zero_len.is_empty(),
        "zero-length token(s) in the stream: {:?} (all tokens: {:?})",
        zero_len,
        tokens
    );
    assert_eq!(
        sum,
        text.len(),
        "token lengths sum to {} but the input has {} bytes; tokens: {:?}",
        sum,
        text.len(),
        tokens
    );
}

/// An input longer than 2^32 bytes made only of tokens that each fit in `u32`.
///
/// The lexer is right here (every `len` is exact), but `LexedStr::push` stores
/// `offset as u32`, so the start offsets wrap around: they are not strictly
/// increasing, the last one is not the input length, and `text(i)` slices the
/// input with `lo > hi` and panics.
#[test]
fn lexed_str_start_offsets_wrap_at_4gib() {
    // Five line comments of 1 GiB each, separated by '\n', then `x`.
    let line = format!("//aa{}", "\u{1F600}".repeat((1usize << 28) - 1)); // 2^30 bytes
    assert_eq!(line.len(), 1usize << 30);
    let mut text = String::with_capacity(5 * (line.len() + 1) + 1);
    for _ in 0..5 {
        text.push_str(&line);
        text.push('\n');
    }
    text.push('x');
    drop(line);

    // The lexer itself partitions the input correctly.
    let lens: Vec<usize> = tokenize(&text).map(|t| t.len as usize).collect();
    assert_eq!(lens.iter().sum::<usize>(), text.len(), "lexer lengths {:?}", lens);

    let lexed = LexedStr::new(&text);
    let starts: Vec<usize> = (0..=lexed.len()).map(|i| lexed.text_start(i)).collect();
    assert!(
        starts.windows(2).all(|w| w[0] < w[1]),
        "start offsets are not strictly increasing: {:?} (exact token lengths: {:?})",
        starts,
        lens
    );
    assert_eq!(
        *starts.last().unwrap(),
        text.len(),
        "last start offset {} is not the input length {}; starts: {:?}",
        starts.last().unwrap(),
        text.len(),
        starts
    );
    // Slicing by the table must not fail and must give back the input.
    let mut rebuilt_len = 0usize;
    for i in 0..lexed.len() {
        rebuilt_len += lexed.text(i).len();
    }
    assert_eq!(rebuilt_len, text.len());
}

/// A string literal that spans 2^31 lines (input of 2 GiB + 1 byte, so every
/// length and offset still fits in `u32`).
///
/// `double_quoted_string` / `single_quoted_string` count the newlines inside the
/// literal in a variable whose type defaults to `i32` (`let mut count_newlines = 0;`).
/// The 2^31-th newline overflows it: a build with overflow checks (the default
/// `dev`/`test` profile) panics with "attempt to add with overflow" instead of
/// yielding a token stream; a release build wraps to a negative count.
#[test]
fn newline_counter_in_string_literal_overflows_i32() {
    let mut text = String::with_capacity((1usize << 31) + 1);
    text.push('"');
    text.push_str(&"\n".repeat(1usize << 31));
    assert_eq!(text.len(), (1usize << 31) + 1);

    let result = std::panic::catch_unwind(|| {
        tokenize(&text).map(|t| t.len as usize).collect::<Vec<usize>>()
    });
    match result {
        Ok(lens) => assert_eq!(lens.iter().sum::<usize>(), text.len(), "lengths {:?}", lens),
        Err(e) => {
            let msg = e
                .downcast_ref::<&str>()
                .map(|s| s.to_string())
                .or_else(|| e.downcast_ref::<String>().cloned())
                .unwrap_or_default();
            panic!("the lexer panicked instead of yielding a token stream: {msg}");
        }
    }
}
