// C07 bug hunt: names resolve by lexical scoping; undeclared and duplicate names are diagnosed.
//
// Every test asserts what the property REQUIRES, so every test FAILS on the current code.
// Only the public API of oq3_semantics is used.

use oq3_semantics::asg;
use oq3_semantics::semantic_error::SemanticErrorKind;
use oq3_semantics::symbols::{SymbolIdResult, SymbolTable};
use oq3_semantics::syntax_to_semantics::parse_source_string;

struct Analysed {
    syntax_errors: bool,
    kinds: Vec<SemanticErrorKind>,
    stmts: Vec<asg::Stmt>,
    symbols: SymbolTable,
}

impl Analysed {
    fn count(&self, kind: &SemanticErrorKind) -> usize {
        // SemanticErrorKind has no PartialEq; only variants without payload are counted here.
        self.kinds
            .iter()
            .filter(|k| std::mem::discriminant(*k) == std::mem::discriminant(kind))
            .count()
    }

    fn dump(&self, code: &str) -> String {
        format!(
            "\n  input          : {code}\n  syntax errors  : {}\n  semantic errors: {:?}\n  graph          : {:?}\n",
            self.syntax_errors, self.kinds, self.stmts
        )
    }

    /// The name of the symbol a reference points to, or "<unresolved>".
    fn name_of(&self, sym: &SymbolIdResult) -> String {
        match sym {
            Ok(id) => self.symbols[id].name().to_string(),
            Err(err) => format!("<unresolved: {err:?}>"),
        }
    }
}

fn analyse(code: &str) -> Analysed {
    let result = parse_source_string(code, None);
    let syntax_errors = result.any_syntax_errors();
    let (program, errors, symbols) = result.take_context().as_tuple();
    Analysed {
        syntax_errors,
        kinds: errors.iter().map(|e| e.kind().clone()).collect(),
        stmts: program.stmts().to_vec(),
        symbols,
    }
}

/// Run the analysis, turning a panic of the analyser into `Err(panic message)`.
fn analyse_no_panic(code: &str) -> Result<Analysed, String> {
    let owned = code.to_string();
    // (The panic hook is left alone: it is process wide and the tests run in parallel.)
    let res = std::panic::catch_unwind(move || analyse(&owned));
    res.map_err(|payload| {
        if let Some(s) = payload.downcast_ref::<&str>() {
            s.to_string()
        } else if let Some(s) = payload.downcast_ref::<String>() {
            s.clone()
        } else {
            "<non-string panic payload>".to_string()
        }
    })
}

// ---------------------------------------------------------------------------------------------
// Finding 1. The last expression statement of a block may omit its `;` without any syntax error
// (Rust style "tail expression"). Such a statement is not a `Stmt` child of the block, so it is
// never analysed: the uses in it are neither resolved nor reported, and the statement vanishes
// from the graph.
//
// Required: the undeclared names are reported as undefined exactly once each (or, at the very
// least, the program is rejected by the parser so that it is not "analysed").
// ---------------------------------------------------------------------------------------------
#[test]
fn undeclared_names_in_last_statement_of_block_are_reported() {
    let mut failures = Vec::new();
    for (code, undef_var, undef_gate) in [
        // `nosuch` is not declared anywhere.
        ("if (true) { nosuch }", 1, 0),
        // `b` is not a qubit parameter of the gate; `nosuchgate` is not a gate.
        ("gate g a { nosuchgate b }", 1, 1),
        ("def f() { return nosuch }", 1, 0),
    ] {
        let a = analyse(code);
        if !(a.syntax_errors
            || (a.count(&SemanticErrorKind::UndefVarError) == undef_var
                && a.count(&SemanticErrorKind::UndefGateError) == undef_gate))
        {
            failures.push(a.dump(code));
        }
    }
    assert!(
        failures.is_empty(),
        "undeclared names used in the last statement of a block are not diagnosed at all (and the statement is missing from the graph):{}",
        failures.join("")
    );
}

// ---------------------------------------------------------------------------------------------
// Finding 2. `qreg` / `creg` parameters of a subroutine are dropped: they are not bound in the
// subroutine scope, so a use in the body, which is textually preceded by the parameter
// declaration, is unresolved and reported as undefined. No "not implemented" diagnostic.
//
// Required: the use refers to the symbol created by the parameter declaration.
// ---------------------------------------------------------------------------------------------
#[test]
fn old_style_subroutine_parameter_is_visible_in_the_body() {
    let code = "def f(int n, qreg q[2]) { reset q; }";
    let a = analyse(code);
    assert!(!a.syntax_errors, "{}", a.dump(code));
    let asg::Stmt::DefStmt(def) = &a.stmts[0] else {
        panic!("expected a DefStmt:{}", a.dump(code));
    };
    let asg::Stmt::Reset(reset) = &def.block().statements()[0] else {
        panic!("expected a Reset:{}", a.dump(code));
    };
    let asg::Expr::GateOperand(asg::GateOperand::Identifier(sym)) =
        reset.gate_operand().expression()
    else {
        panic!("expected an identifier operand:{}", a.dump(code));
    };
    assert_eq!(
        (def.params().len(), a.name_of(sym), a.count(&SemanticErrorKind::UndefVarError)),
        (2, "q".to_string(), 0),
        "(number of parameters, symbol the use of `q` refers to, number of UndefVarError); the parameter `qreg q[2]` was never bound:{}",
        a.dump(code)
    );
}

// ---------------------------------------------------------------------------------------------
// Finding 3. Calling a name that has no visible declaration is not diagnosed: the analyser logs
// UndefVarError and then panics ("programming error: expected Type::Def variant"). The same
// happens when the callee resolves to any symbol that is not a subroutine, e.g. when an inner
// scope silently shadows a subroutine name (`def f() {} if (true) { int f; f(); }`), and for all
// built-in functions (`sin(x)`).
//
// Required: marked unresolved, typed undefined, reported as undefined exactly once.
// ---------------------------------------------------------------------------------------------
#[test]
fn call_of_undeclared_name_is_reported_as_undefined() {
    let code = "int y = nosuch(1);";
    let a = match analyse_no_panic(code) {
        Ok(a) => a,
        Err(msg) => panic!("analysis of `{code}` panicked instead of reporting an undefined name: {msg}"),
    };
    assert_eq!(a.count(&SemanticErrorKind::UndefVarError), 1, "{}", a.dump(code));
}

// ---------------------------------------------------------------------------------------------
// Finding 4. The name of a subroutine is bound only after its body has been analysed, so a use
// of the name inside the body (direct recursion) does not refer to the enclosing `def`, although
// that declaration textually precedes the use and encloses it.
//
// Required: the use refers to the symbol of the enclosing `def f`.
// ---------------------------------------------------------------------------------------------
#[test]
fn subroutine_name_is_visible_in_its_own_body() {
    let code = "def f(int n) -> int { return f(n); }";
    let a = match analyse_no_panic(code) {
        Ok(a) => a,
        Err(msg) => panic!(
            "`f` is not visible in its own body: lookup of the callee failed and the analysis of `{code}` panicked: {msg}"
        ),
    };
    let asg::Stmt::DefStmt(def) = &a.stmts[0] else {
        panic!("expected a DefStmt:{}", a.dump(code));
    };
    let asg::Stmt::ExprStmt(ret) = &def.block().statements()[0] else {
        panic!("expected an ExprStmt:{}", a.dump(code));
    };
    let asg::Expr::Return(ret) = ret.expression() else {
        panic!("expected a return:{}", a.dump(code));
    };
    let asg::Expr::SubroutineCall(call) = ret.value().unwrap().expression() else {
        panic!("expected a call:{}", a.dump(code));
    };
    assert_eq!(call.name(), def.name(), "{}", a.dump(code));
    assert_eq!(a.count(&SemanticErrorKind::UndefVarError), 0, "{}", a.dump(code));
}

// ---------------------------------------------------------------------------------------------
// Finding 5. Whether `let a = ...;` declares `a` depends on where the statement stands. As the
// first statements of a file it is an alias declaration and binds `a`. After the first expression
// statement (gate call, ...) of the file, and inside every block, the very same text is parsed as
// a LET_STMT, which is not analysed: `a` is not bound, later uses of `a` are reported as
// undefined, and the names on the right-hand side are never looked up.
//
// Required: the use of `a` refers to the symbol created by the preceding `let a`; the undeclared
// `nosuch` on a right-hand side is reported as undefined exactly once.
// ---------------------------------------------------------------------------------------------
#[test]
fn alias_declaration_binds_its_name_wherever_it_stands() {
    fn last_use(a: &Analysed, code: &str) -> String {
        match a.stmts.last() {
            Some(asg::Stmt::ExprStmt(texpr)) => match texpr.expression() {
                asg::Expr::Identifier(sym) => a.name_of(sym),
                _ => panic!("expected an identifier:{}", a.dump(code)),
            },
            _ => panic!("expected an expression statement:{}", a.dump(code)),
        }
    }
    // Reference: the alias is among the first statements. This part passes.
    let code = "qubit[4] q; let a = q[0:1]; a;";
    let a = analyse(code);
    assert_eq!(last_use(&a, code), "a", "{}", a.dump(code));

    // The only difference: an expression statement `q;` precedes the alias.
    let code = "qubit[4] q; q; let a = q[0:1]; a;";
    let a = analyse(code);
    assert_eq!(
        (last_use(&a, code), a.count(&SemanticErrorKind::UndefVarError)),
        ("a".to_string(), 0),
        "(symbol the use of `a` refers to, number of UndefVarError):{}",
        a.dump(code)
    );

    // And the right-hand side of such a `let` is not analysed at all.
    let code = "qubit q; q; let b = nosuch;";
    let a = analyse(code);
    assert_eq!(a.count(&SemanticErrorKind::UndefVarError), 1, "{}", a.dump(code));
}

// ---------------------------------------------------------------------------------------------
// Finding 6. A parenthesised list `(a, b)` is accepted by the parser without error as a
// TUPLE_EXPR, which is not an `Expr`. As the initializer of a declaration it is silently dropped
// (`initializer: None`): the names in it are never looked up and nothing is reported.
//
// Required: the undeclared `a` and `b` are each reported as undefined exactly once (or the
// program is rejected by the parser).
// ---------------------------------------------------------------------------------------------
#[test]
fn undeclared_names_in_parenthesised_initializer_are_reported() {
    let code = "int x = (a, b);";
    let a = analyse(code);
    assert!(
        a.syntax_errors || a.count(&SemanticErrorKind::UndefVarError) == 2,
        "the undeclared names `a` and `b` are not diagnosed and the initializer is dropped:{}",
        a.dump(code)
    );
}
