// Bug hunt for property C12:
// "Diagnostics carry valid spans; a diagnostic-free tree has no error nodes".
//
// Every test asserts what the property requires and therefore FAILS on the
// current code.  Only public API of oq3_semantics and of its (dev-)dependencies
// oq3_syntax, oq3_source_file, oq3_parser is used.

use std::panic::{catch_unwind, AssertUnwindSafe};
use std::path::PathBuf;

use oq3_source_file::SourceTrait;
use oq3_syntax::{SourceFile, SyntaxError, SyntaxNode};

fn panic_message(e: Box<dyn std::any::Any + Send>) -> String {
    e.downcast_ref::<String>()
        .cloned()
        .or_else(|| e.downcast_ref::<&str>().map(|s| s.to_string()))
        .unwrap_or_else(|| "<non-string panic payload>".to_string())
}

fn assert_ranges_valid(src: &str, errors: &[SyntaxError]) {
    for e in errors {
        let (s, t): (usize, usize) = (e.range().start().into(), e.range().end().into());
        assert!(
            s <= t && t <= src.len() && src.is_char_boundary(s) && src.is_char_boundary(t),
            "invalid range {:?} for diagnostic {:?} on {src:?}",
            e.range(),
            e.message()
        );
    }
}

// ---------------------------------------------------------------------------
// Finding 1
//
// A timing / imaginary literal followed by a postfix `[` or `(`.
// The property quantifies over every UTF-8 string: the diagnostics of a parse
// must exist and carry valid ranges.  Here the pass that produces the literal
// diagnostics (oq3_syntax::validation::validate) panics, so neither
// `SourceFile::parse` nor `SourceFile::parse_check_lex` returns any diagnostics.
// For `a = 1ns(2);` the parser itself reports nothing at all (silent
// acceptance of "calling a literal"), the only outcome is the panic.
// ---------------------------------------------------------------------------
#[test]
fn f1_timing_literal_followed_by_postfix_panics_in_validation() {
    for src in ["1dt[0];", "a = 1ns(2);"] {
        // The tree and the parser's own diagnostics, without the validation pass.
        let (green, parser_errors) = oq3_syntax::parse_text(src);
        let tree = format!("{:#?}", SyntaxNode::new_root(green));

        let res = catch_unwind(AssertUnwindSafe(|| {
            let p = SourceFile::parse(src);
            let errs1 = p.errors().to_vec();
            let p2 = SourceFile::parse_check_lex(src);
            let errs2 = p2.errors().to_vec();
            (errs1, errs2)
        }));
        match res {
            Ok((errs1, errs2)) => {
                assert_ranges_valid(src, &errs1);
                assert_ranges_valid(src, &errs2);
            }
            Err(e) => panic!(
                "collecting the diagnostics of {src:?} panicked: {:?}\n\
                 parser diagnostics before validation: {parser_errors:?}\n\
                 tree (note LITERAL wrapping TIMING_LITERAL, i.e. a LITERAL without a token):\n{tree}",
                panic_message(e)
            ),
        }
    }
}

// ---------------------------------------------------------------------------
// Finding 2
//
// The consumer of the spans (oq3_source_file::report_error, reached through
// print_syntax_errors / print_errors) hands the BYTE offsets of the diagnostics
// to ariadne, whose default configuration interprets spans as CHARACTER
// offsets.  As soon as a multi-byte character precedes the diagnostic, the
// printed location is wrong, or (if the byte offset exceeds the number of
// characters in the file) the location and the source excerpt vanish entirely.
//
// The test re-executes this test binary to capture what is printed on stdout.
// ---------------------------------------------------------------------------

// (source, 1-based line:column (in characters) of the single syntax diagnostic)
const PRINTER_CASES: &[(&str, &str)] = &[
    // Missing `= ...;` / `;` after `x`: byte offset 11, character offset 10.
    ("// \u{e9}\nint x\nint y;\n", "f.qasm:2:6"),
    // Same with more non-ASCII text in front: byte offset 15 > 13 characters in the file.
    ("// \u{e9}\u{e9}\u{e9}\nint x\n", "f.qasm:2:6"),
];

#[test]
fn f2_printer_child() {
    // Only does something when run as the child of `f2_error_printer_...`.
    if let Ok(idx) = std::env::var("HUNT_C12_PRINTER_CASE") {
        let (src, _) = PRINTER_CASES[idx.parse::<usize>().unwrap()];
        let parsed =
            oq3_source_file::parse_source_string(src, Some("f.qasm"), None::<&[PathBuf]>);
        println!("BEGIN-REPORT");
        parsed.print_syntax_errors();
        println!("END-REPORT");
    }
}

#[test]
fn f2_error_printer_mixes_up_byte_and_char_offsets() {
    let mut failures = Vec::new();
    for (idx, (src, expected_location)) in PRINTER_CASES.iter().enumerate() {
        // What the library reports: exactly one diagnostic, with a valid byte range.
        let parsed =
            oq3_source_file::parse_source_string(src, Some("f.qasm"), None::<&[PathBuf]>);
        let errors = parsed.syntax_ast().unwrap().errors().to_vec();
        assert_eq!(errors.len(), 1, "{errors:?}");
        assert_ranges_valid(src, &errors);
        let start: usize = errors[0].range().start().into();
        // Line and column (counted in characters) that the byte offset designates.
        let before = &src[..start];
        let line = before.matches('\n').count() + 1;
        let col = before.rsplit('\n').next().unwrap().chars().count() + 1;
        assert_eq!(format!("f.qasm:{line}:{col}"), *expected_location);

        let out = std::process::Command::new(std::env::current_exe().unwrap())
            .args(["--exact", "f2_printer_child", "--nocapture", "--test-threads=1"])
            .env("HUNT_C12_PRINTER_CASE", idx.to_string())
            .env("NO_COLOR", "1")
            .output()
            .unwrap();
        let stdout = String::from_utf8_lossy(&out.stdout).to_string();
        let report = stdout
            .split("BEGIN-REPORT")
            .nth(1)
            .and_then(|s| s.split("END-REPORT").next())
            .unwrap_or(&stdout)
            .to_string();
        if !report.contains(expected_location) {
            failures.push(format!(
                "source {src:?}: diagnostic {:?} has byte range {:?}, i.e. location {expected_location}, \
                 but the error printer shows:\n{report}",
                errors[0].message(),
                errors[0].range(),
            ));
        }
    }
    assert!(failures.is_empty(), "{}", failures.join("\n"));
}

// ---------------------------------------------------------------------------
// Finding 3
//
// `include "a\q.inc";`  In OpenQASM 3 a string literal has no escape
// sequences, so this is a well-formed include of a file that does not exist;
// the expected outcome is the semantic diagnostic FileNotFound whose range is
// the FILE_PATH node 8..17.  (Even under the project's own Rust-like reading of
// strings, an "Invalid escape" syntax diagnostic would be expected, as is
// reported for the same token in expression position.)
// Instead: the parser and the validation pass report NO diagnostic
// (validate_literal only visits LITERAL nodes, not FILE_PATH), and
// oq3_source_file::parse_included_files then unwraps the `None` returned by
// FilePath::to_string() and panics.
// ---------------------------------------------------------------------------
#[test]
fn f3_include_path_with_backslash_no_diagnostic_then_panic() {
    let src = "include \"a\\q.inc\";";
    let syntax_only = SourceFile::parse_check_lex(src);
    let syntax_errors = syntax_only.errors().to_vec();

    let res = catch_unwind(AssertUnwindSafe(|| {
        let r = oq3_semantics::syntax_to_semantics::parse_source_string(src, Some("f.qasm"));
        let sem: Vec<String> = r.semantic_errors().iter().map(|e| e.to_string()).collect();
        (r.any_syntax_errors(), sem)
    }));
    match res {
        Ok((any_syntax, sem)) => assert!(
            any_syntax || !sem.is_empty(),
            "{src:?}: neither a syntax nor a semantic diagnostic"
        ),
        Err(e) => panic!(
            "{src:?}: syntax diagnostics = {syntax_errors:?} (none), then the pipeline panicked: {:?}",
            panic_message(e)
        ),
    }
}

// ---------------------------------------------------------------------------
// Finding 4
//
// oq3_parser::TopEntryPoint::Expr (public entry point of the parser crate):
// when input remains after the expression, the rest is swept into an ERROR node
// without any error event (grammar.rs, entry::top::expr).  "A tree that contains
// an error node is always accompanied by at least one diagnostic" fails.
// ---------------------------------------------------------------------------
#[test]
fn f4_expr_entry_point_builds_error_node_without_diagnostic() {
    let src = "a;";
    let lexed = oq3_parser::LexedStr::new(src);
    let output = oq3_parser::TopEntryPoint::Expr.parse(&lexed.to_input());
    let steps: Vec<String> = output.iter().map(|s| format!("{s:?}")).collect();
    let has_error_node = output.iter().any(|s| {
        matches!(
            s,
            oq3_parser::Step::Enter {
                kind: oq3_parser::SyntaxKind::ERROR
            }
        )
    });
    let n_diagnostics = output
        .iter()
        .filter(|s| matches!(s, oq3_parser::Step::Error { .. }))
        .count();
    assert!(
        !has_error_node || n_diagnostics > 0,
        "{src:?}: ERROR node but {n_diagnostics} diagnostics; parser output: {steps:#?}"
    );
}
