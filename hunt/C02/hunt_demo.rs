//! C02 hunt: inputs on which the syntax tree is not a lossless image of the source text.
//! Every test asserts what property C02 REQUIRES and therefore FAILS on the current code.

use oq3_syntax::{SourceFile, SyntaxKind, TextSize};

/// Finding 1: a single raw token longer than u32::MAX bytes.
/// `oq3_lexer::Cursor::pos_within_token` casts the token length `as u32`, so the length wraps;
/// `LexedStr::new` then slices the token texts from the wrong offsets and the last start offset
/// is not `text.len()`.  Parsing RETURNS (no panic) with a tiny tree whose text is not the input.
/// Needs ~4.1 GiB of memory and a few minutes in the dev profile, hence #[ignore].
#[test]
#[ignore]
fn token_longer_than_u32_is_silently_truncated() {
    // "//" + 'a' * (2^32 - 1)  is one line comment of 2^32 + 1 bytes, then "\nx;"
    let n = (u32::MAX as usize) + 1;
    let mut src = String::with_capacity(n + 8);
    src.push_str("//");
    src.extend(std::iter::repeat('a').take(n - 1));
    src.push_str("\nx;");
    let parse = SourceFile::parse(&src);
    let root = parse.syntax_node();
    assert_eq!(root.kind(), SyntaxKind::SOURCE_FILE);
    let text_len: usize = root.text().len().into();
    assert_eq!(
        text_len,
        src.len(),
        "the tree spells {} bytes, the input has {} bytes; tree:\n{:#?}",
        text_len,
        src.len(),
        root
    );
}

/// Finding 2: the second entry point hands back NO tree at all when the source has a lexical
/// error, although it returns normally; the observer `ParseOrErrors::syntax_node()` then panics.
#[test]
fn parse_check_lex_returns_a_lossless_tree_for_lexically_erroneous_text() {
    let src = "int x = 1;\n\"abc";
    let parse = SourceFile::parse_check_lex(src);
    assert!(
        parse.have_parse(),
        "parse_check_lex returned without a tree; errors: {:?}",
        parse.errors()
    );
    let root = parse.syntax_node();
    assert_eq!(root.kind(), SyntaxKind::SOURCE_FILE);
    assert_eq!(root.text().to_string(), src);
    assert_eq!(root.text_range().end(), TextSize::of(src));
}
