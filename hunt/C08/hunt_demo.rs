// Bug hunt for property C08:
// "Expressions are typed consistently; conversions are explicit or diagnosed".
//
// Every test asserts what the property REQUIRES and therefore FAILS on the current code.
// Only the public API of oq3_semantics is used.

use oq3_semantics::asg;
use oq3_semantics::semantic_error::SemanticErrorList;
use oq3_semantics::syntax_to_semantics::parse_source_string;
use oq3_semantics::types::{IsConst, Type};

fn analyse(code: &str) -> (asg::Program, SemanticErrorList) {
    let parsed = parse_source_string(code, None);
    assert!(
        !parsed.any_syntax_errors(),
        "test input must be syntactically valid: {code}"
    );
    let (program, errors, _symbol_table) = parsed.take_context().as_tuple();
    (program, errors)
}

fn initializer(stmt: &asg::Stmt) -> &asg::TExpr {
    match stmt {
        asg::Stmt::DeclareClassical(decl) => decl.initializer().expect("initializer"),
        other => panic!("expected a classical declaration, got {other:?}"),
    }
}

fn expr_stmt(stmt: &asg::Stmt) -> &asg::TExpr {
    match stmt {
        asg::Stmt::ExprStmt(texpr) => texpr,
        other => panic!("expected an expression statement, got {other:?}"),
    }
}

fn is_numeric_scalar(ty: &Type) -> bool {
    matches!(
        ty,
        Type::Int(..) | Type::UInt(..) | Type::Float(..) | Type::Complex(..) | Type::Angle(..)
    )
}

// Finding 1.
// Clause: "a measurement has the bit shape of its operand".
// The operand `q[0]` is ONE qubit of a register, so the measurement is a single `bit`.
// The code types it with the shape of the whole register (`bit[2]`), hence
//   `bit c = measure q[0];`     -> IncompatibleTypesError (valid program rejected)
//   `bit[2] c = measure q[0];`  -> accepted silently (wrong program accepted)
#[test]
fn measure_of_indexed_qubit_has_single_bit_shape() {
    let (program, errors) = analyse("qubit[2] q; bit c = measure q[0];");
    let init = initializer(&program[1]);
    assert!(
        matches!(init.expression(), asg::Expr::MeasureExpression(_)),
        "initializer is not the measurement: {init:?}"
    );
    assert_eq!(
        init.get_type(),
        &Type::Bit(IsConst::False),
        "`measure q[0]` (one qubit of qubit[2]) must have type bit; got {:?}\nerrors: {errors:?}\ninitializer: {init:?}",
        init.get_type()
    );
    assert!(
        errors.is_empty(),
        "`bit c = measure q[0];` is well typed but was diagnosed: {errors:?}"
    );

    // The mirror image: a two-bit target silently accepts a one-qubit measurement.
    let (program, errors) = analyse("qubit[2] q; bit[2] c = measure q[0];");
    assert!(
        !errors.is_empty(),
        "`bit[2] c = measure q[0];` (bit <- bit[2] mismatch) accepted silently: {:?}",
        program[1]
    );
}

// Finding 2.
// Clause: "an arithmetic expression has the common type of its operands with each operand
// either already of that type or wrapped in an explicit cast to it" (quantifier: "every
// arithmetic operator over every operand type pair").
// `**` is recorded in the ASG as the CONCATENATION operator `++`, with type `ToDo`, no casts,
// no diagnostic.
#[test]
fn power_operator_is_arithmetic_and_typed() {
    let (program, errors) = analyse("int a; a ** 2;");
    let texpr = expr_stmt(&program[1]);
    let bin = match texpr.expression() {
        asg::Expr::BinaryExpr(bin) => bin,
        other => panic!("expected a binary expression, got {other:?}"),
    };
    assert!(
        !matches!(bin.op(), asg::BinaryOp::ConcatenationOp),
        "`a ** 2` is recorded as a register concatenation `a ++ 2`: {texpr:?}"
    );
    assert!(
        matches!(texpr.get_type(), Type::Int(..)) || !errors.is_empty(),
        "`a ** 2` (int ** int literal) has type {:?} and no diagnostic; expected the common int type: {texpr:?}",
        texpr.get_type()
    );
}

// Finding 3.
// Clause: "an arithmetic expression has the common type of its operands with each operand either
// already of that type or wrapped in an explicit cast to it"; title: "conversions are explicit or
// diagnosed".
// For operand pairs that `promote_types` does not know (int/uint, uint << int literal, complex of
// two widths, angle of two widths, bool, bit, duration * int, ...) the expression gets type `Void`,
// BOTH operands are wrapped in `Cast { typ: Void }`, and nothing is diagnosed.
#[test]
fn arithmetic_without_common_type_is_diagnosed_not_cast_to_void() {
    for code in ["int a; uint b; a + b;", "uint[8] a; a << 2;"] {
        let (program, errors) = analyse(code);
        let texpr = expr_stmt(program.last().unwrap());
        let bin = match texpr.expression() {
            asg::Expr::BinaryExpr(bin) => bin,
            other => panic!("expected a binary expression, got {other:?}"),
        };
        let cast_to_void = [bin.left(), bin.right()].iter().any(|operand| {
            matches!(operand.expression(), asg::Expr::Cast(cast) if cast.get_type() == &Type::Void)
        });
        assert!(
            !errors.is_empty() || (is_numeric_scalar(texpr.get_type()) && !cast_to_void),
            "`{code}`: expression typed {:?}, operands cast to Void: {cast_to_void}, diagnostics: none\n{texpr:?}",
            texpr.get_type()
        );
    }
}

// Finding 4.
// Clause: "a width narrowing of a non-constant value [is] always diagnosed, never accepted silently".
// `float[64] -> float[32]` is diagnosed, but `float[64] -> complex[float[32]]` (each component is a
// float[32]) is accepted with a cast, in declarations and in assignments, because
// `promote_base_type` ignores widths.
#[test]
fn float64_to_complex_float32_narrowing_is_diagnosed() {
    // Reference point: the same narrowing without the change of kind is diagnosed today.
    let (_program, errors) = analyse("float[64] f; float[32] g = f;");
    assert!(!errors.is_empty(), "reference case no longer diagnosed");

    let (program, errors) = analyse("float[64] f; complex[float[32]] c = f;");
    assert!(
        !errors.is_empty(),
        "declaration narrows a non-constant float[64] to complex[float[32]] silently: {:?}",
        program[1]
    );

    let (program, errors) = analyse("float[64] f; complex[float[32]] c; c = f;");
    assert!(
        !errors.is_empty(),
        "assignment narrows a non-constant float[64] to complex[float[32]] silently: {:?}",
        program[2]
    );
}

// Finding 5.
// Clauses: "a width narrowing of a non-constant value [is] always diagnosed" and "a declaration ...
// either ends up with a value whose type equals the target type up to const-ness (directly or through
// an explicit cast to exactly the target type) or reports a type diagnostic".
// Cast expressions and subroutine calls are typed `const` although their value is not constant
// (`scalar_type_to_type(.., true, ..)`), and the declaration check compares the promoted type with the
// initializer type INCLUDING const-ness. So a wider non-constant cast / call result initialises a
// narrower variable: no diagnostic, no cast to the target type.
// (The property text lists `const int n = 3; int[8] y = n;` - a real constant. Here the value is not
// constant, so acceptance itself is the violation.)
#[test]
fn narrowing_of_nonconstant_cast_or_call_result_is_diagnosed() {
    for (code, idx) in [
        ("int[32] y; int[8] z = int[32](y);", 1),
        ("float y; float[32] z = float(y);", 1),
        ("def f() -> int[32] { return 1; } int[8] z = f();", 1),
    ] {
        let (program, errors) = analyse(code);
        let init = initializer(&program[idx]);
        let target_is_narrow = matches!(
            init.get_type(),
            Type::Int(Some(8), _) | Type::Float(Some(32), _)
        );
        assert!(
            !errors.is_empty(),
            "`{code}`: non-constant wider value accepted silently; initializer has type {:?} (equal to target: {target_is_narrow})\n{init:?}",
            init.get_type()
        );
    }
}

// Finding 6.
// Clause: "an assignment to a declared variable either ends up with a value whose type equals the
// target type ... or reports a type diagnostic; a conversion ... anything to or from bit ... [is]
// always diagnosed, never accepted silently".
// When the assignment target is an indexed identifier no type check is made at all.
#[test]
fn assignment_to_indexed_target_is_type_checked() {
    // Reference point: the un-indexed form is diagnosed today.
    let (_program, errors) = analyse("bit b; b = 2.5;");
    assert!(!errors.is_empty(), "reference case no longer diagnosed");

    let (program, errors) = analyse("bit[4] b; b[0] = 2.5;");
    assert!(
        !errors.is_empty(),
        "float literal assigned to one bit of a register silently, without cast: {:?}",
        program[1]
    );

    let (program, errors) = analyse("bit[4] b; duration d; b[0] = d;");
    assert!(
        !errors.is_empty(),
        "duration assigned to one bit of a register silently, without cast: {:?}",
        program[2]
    );
}
