// Hunt C20: "Type promotion is a join on the numeric tower and never narrows".
// Each test asserts what the property REQUIRES and therefore FAILS on the current code.

use oq3_semantics::asg::{self, implicit_cast_type, ArithOp};
use oq3_semantics::semantic_error::SemanticErrorList;
use oq3_semantics::syntax_to_semantics::parse_source_string;
use oq3_semantics::types::{promote_types, promote_types_not_equal, IsConst, Type};

const NC: IsConst = IsConst::False;
const C: IsConst = IsConst::True;

fn parse(code: &str) -> (asg::Program, SemanticErrorList) {
    let parsed = parse_source_string(code, None);
    assert!(!parsed.any_syntax_errors(), "syntax errors in {code:?}");
    let (program, errors, _symbols) = parsed.take_context().as_tuple();
    (program, errors)
}

/// Type of the last statement of `code`, which must be an expression statement.
fn last_expr_type(code: &str) -> (Type, String, usize) {
    let (program, errors) = parse(code);
    let stmt = program.stmts().last().unwrap().clone();
    match &stmt {
        asg::Stmt::ExprStmt(texpr) => (texpr.get_type().clone(), format!("{texpr:?}"), errors.len()),
        other => panic!("not an expression statement: {other:?}"),
    }
}

// 1. complex[float[32]] and complex[float[64]] are both in the tower; complex[float[64]]
//    is an upper bound of both ("larger widths above smaller ones"), so the common type
//    must exist. The code says "no common type" (Void).
#[test]
fn complex_of_two_widths_has_a_common_type() {
    let a = Type::Complex(Some(32), NC);
    let b = Type::Complex(Some(64), NC);
    let r = promote_types(&a, &b);
    let r_ne = promote_types_not_equal(&a, &b);
    let r_none = promote_types(&Type::Complex(None, NC), &b);
    // end to end: the sum is silently typed Void, both operands are cast to Void, no diagnostic
    let (ty, tree, nerr) = last_expr_type("complex[float[32]] a; complex[float[64]] b; a + b;");
    // end to end: widening initialisation is rejected
    let (_p, errs) = parse("complex[float[32]] a; complex[float[64]] b = a;");
    assert!(
        r == Type::Complex(Some(64), NC)
            && r_ne == Type::Complex(Some(64), NC)
            && r_none == Type::Complex(None, NC)
            && ty == Type::Complex(Some(64), NC)
            && errs.is_empty(),
        "promote_types(complex32, complex64) = {r:?}; promote_types_not_equal = {r_ne:?}; \
         promote_types(complex, complex64) = {r_none:?}; `a + b` typed {ty:?} with {nerr} errors, tree {tree}; \
         `complex[float[64]] b = a;` gives {} error(s): {errs:?}",
        errs.len()
    );
}

// 2. int and uint are both below float in the stated order, so every (int, uint) pair has an
//    upper bound and must not be "no common type". (The language, following C99, makes
//    int[32] + uint[32] a uint[32].) The code returns Void for every such pair.
#[test]
fn int_and_uint_have_a_common_type() {
    let a = Type::Int(Some(32), NC);
    let b = Type::UInt(Some(32), NC);
    let r = promote_types(&a, &b);
    let r_sym = promote_types(&b, &a);
    let r_ne = promote_types_not_equal(&a, &b);
    let r_op = implicit_cast_type(&ArithOp::BitAnd, &a, &b);
    let (ty, tree, nerr) = last_expr_type("int[32] a; uint[32] b; a + b;");
    assert!(
        r != Type::Void && r_sym != Type::Void && r_ne != Type::Void && r_op != Type::Void && ty != Type::Void,
        "promote_types(int32, uint32) = {r:?}, swapped = {r_sym:?}, promote_types_not_equal = {r_ne:?}, \
         implicit_cast_type(BitAnd) = {r_op:?}; `a + b` typed {ty:?} with {nerr} errors, tree {tree}"
    );
}

// 3. The common type must be an upper bound of BOTH operands, widths included ("no width above
//    every width, larger widths above smaller ones"; title: "never narrows"). Cross-category
//    promotion returns the higher-category operand unchanged, so its width can be below the
//    other operand's width.
#[test]
fn cross_category_promotion_does_not_narrow_the_width() {
    fn wle(a: Option<u32>, b: Option<u32>) -> bool {
        match (a, b) {
            (_, None) => true,
            (None, Some(_)) => false,
            (Some(x), Some(y)) => x <= y,
        }
    }
    let cases = [
        (Type::Float(Some(64), NC), Type::Complex(Some(32), NC)),
        (Type::Int(Some(64), NC), Type::Float(Some(32), NC)),
        (Type::Float(None, NC), Type::Complex(Some(32), NC)),
        (Type::UInt(Some(128), NC), Type::Complex(Some(8), NC)),
    ];
    let mut bad = vec![];
    for (a, b) in &cases {
        for (x, y) in [(a, b), (b, a)] {
            let r = promote_types(x, y);
            if !(wle(x.width(), r.width()) && wle(y.width(), r.width())) {
                bad.push(format!("promote_types({x:?}, {y:?}) = {r:?}"));
            }
        }
    }
    // end to end: a float[64] is silently narrowed into a complex[float[32]] by plain assignment,
    // although float[32] x; float[64] y; x = y; is rejected.
    let (_p, errs_cf) = parse("complex[float[32]] c; float[64] f; c = f;");
    let (_p, errs_ff) = parse("float[32] c; float[64] f; c = f;");
    let (ty, _tree, _n) = last_expr_type("complex[float[32]] c; float[64] f; c + f;");
    assert!(
        bad.is_empty() && errs_cf.len() == errs_ff.len() && ty == Type::Complex(Some(64), NC),
        "results that are not upper bounds: {bad:#?}; `c + f` typed {ty:?}; \
         complex32 = float64 gives {} error(s) but float32 = float64 gives {}",
        errs_cf.len(),
        errs_ff.len()
    );
}

// 4. "is const only if both operands are": promote_types was fixed for this, but
//    promote_types_not_equal (an observation point of the property) still returns the
//    constness of the higher-category operand alone.
#[test]
fn promote_types_not_equal_is_const_only_if_both_are() {
    let a = Type::Int(Some(32), NC);
    let b = Type::Float(Some(32), C);
    let r1 = promote_types_not_equal(&a, &b);
    let r2 = promote_types_not_equal(&b, &a);
    let r3 = promote_types_not_equal(&Type::Float(Some(32), NC), &Type::Complex(Some(32), C));
    assert!(
        !r1.is_const() && !r2.is_const() && !r3.is_const(),
        "promote_types_not_equal(int32 non-const, float32 const) = {r1:?}; swapped = {r2:?}; \
         (float32 non-const, complex32 const) = {r3:?}; promote_types gives {:?}",
        promote_types(&a, &b)
    );
}

// 5. Division must pick the operand common type: "no common type" exactly for pairs without an
//    upper bound, and the type itself for two equal types. The fallback branch of
//    implicit_cast_type(Div, ..) returns non-const float for EVERY pair without a float/complex
//    operand: qubit / bit, bool / duration, void / undefined ... and int[32] / int[32] (integer division
//    in the language).
#[test]
fn division_has_no_common_type_for_unrelated_operands() {
    let r_qb = implicit_cast_type(&ArithOp::Div, &Type::Qubit, &Type::Bit(NC));
    let r_vv = implicit_cast_type(&ArithOp::Div, &Type::Void, &Type::Undefined);
    let r_ii = implicit_cast_type(&ArithOp::Div, &Type::Int(Some(32), C), &Type::Int(Some(32), C));
    let (ty, tree, nerr) = last_expr_type("bool p; duration d = 1ns; p / d;");
    assert!(
        r_qb == Type::Void && r_vv == Type::Void && r_ii == Type::Int(Some(32), C) && ty == Type::Void,
        "implicit_cast_type(Div, qubit, bit) = {r_qb:?}; (Div, Void, Undefined) = {r_vv:?}; \
         (Div, const int32, const int32) = {r_ii:?}; `bool p; duration d = 1ns; p / d;` typed {ty:?} with {nerr} errors, tree {tree}"
    );
}
