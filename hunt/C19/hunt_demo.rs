// Bug hunt for property C19 (the symbol table behaves as a stack of scopes).
// Each test asserts what the property / the documented contract requires and FAILS on the current code.
// All tests drive the table through the public API only (source text -> analysis -> SymbolTable).

use oq3_semantics::asg;
use oq3_semantics::semantic_error::{SemanticErrorKind, SemanticErrorList};
use oq3_semantics::symbols::{SymbolId, SymbolTable, SymbolType};
use oq3_semantics::syntax_to_semantics::parse_source_string;
use oq3_semantics::types::Type;

fn analyze(code: &str) -> (asg::Program, SemanticErrorList, SymbolTable) {
    let parsed = parse_source_string(code, None);
    assert!(
        !parsed.any_syntax_errors(),
        "input is expected to be syntactically accepted: {code:?}"
    );
    parsed.take_context().as_tuple()
}

// `SemanticErrorKind` has no `PartialEq`: compare the Debug texts.
fn error_kinds(errors: &SemanticErrorList) -> Vec<String> {
    errors.iter().map(|e| format!("{:?}", e.kind())).collect()
}

fn kind(k: SemanticErrorKind) -> String {
    format!("{k:?}")
}

/// Id of the gate defined inside the `if` body of `if (true) { gate <name> q { } }`.
fn gate_id_in_if_body(program: &asg::Program) -> SymbolId {
    let asg::Stmt::If(if_stmt) = &program.stmts()[0] else {
        panic!("expected an if statement, got {:?}", program.stmts())
    };
    let asg::Stmt::GateDefinition(gate_def) = &if_stmt.then_branch().statements()[0] else {
        panic!("expected a gate definition, got {:?}", if_stmt.then_branch())
    };
    gate_def
        .name()
        .clone()
        .expect("the gate name was bound (new_binding returned Ok)")
}

// FINDING 1
// `gates()` drops every gate-typed symbol whose NAME is "U", not just the built-in symbol (id 6).
// A gate called `U` that was bound in an inner scope (binding succeeds there: the inner scope has
// no `U`) is a different symbol with a different id and type, yet it is invisible in `gates()`.
// The same program with the gate called `V` lists the gate.
#[test]
fn gates_lists_a_user_gate_named_u_bound_in_an_inner_scope() {
    // Control: gate named V is listed.
    let (program_v, _errors, table_v) = analyze("if (true) { gate V q { } }");
    let id_v = gate_id_in_if_body(&program_v);
    let listed_v: Vec<_> = table_v.gates().collect();
    assert!(
        listed_v.iter().any(|(_, id, _, _)| *id == id_v),
        "control failed: V not listed: {listed_v:?}"
    );

    // Same history, name U.
    let (program_u, _errors, table_u) = analyze("if (true) { gate U q { } }");
    let id_u = gate_id_in_if_body(&program_u);
    // The id is a fresh one, and denotes name U, type Gate(0, 1): it is not the built-in U(a,b,c) q.
    assert_ne!(id_u, table_u.lookup("U").unwrap().symbol_id());
    assert_eq!(table_u[&id_u].name(), "U");
    assert_eq!(table_u[&id_u].symbol_type(), &Type::Gate(0, 1));
    let listed_u: Vec<_> = table_u.gates().collect();
    assert!(
        listed_u.iter().any(|(_, id, _, _)| *id == id_u),
        "gates() must list the gate symbol {id_u:?} = {:?} (only the built-in U, {:?}, is excluded), got {listed_u:?}",
        table_u[&id_u],
        table_u.lookup("U").unwrap().symbol_id(),
    );
}

// FINDING 2
// "Is this statement inside a subroutine?" is answered by looking at the TYPE OF THE INNERMOST scope
// only (`current_scope_type() == Global`), not at the stack. One `enter local scope` on top of the
// global scope is enough to hide the fact that no subroutine scope is open: a `return` in a top-level
// `if`/`while`/`for`/`switch` body is accepted silently, while a bare top-level `return;` is rejected.
#[test]
fn return_in_a_block_at_top_level_is_reported() {
    // Control: directly in the global scope the error is reported.
    let (_p, errors, _t) = analyze("return;");
    assert_eq!(
        error_kinds(&errors),
        vec![kind(SemanticErrorKind::ReturnInGlobalScopeError)]
    );

    for code in [
        "if (true) { return; }",
        "while (true) return 1;",
        "for int i in [0:1] { return i; }",
        "switch (1) { case 1 { return; } }",
    ] {
        let (_p, errors, _t) = analyze(code);
        assert!(
            error_kinds(&errors).contains(&kind(SemanticErrorKind::ReturnInGlobalScopeError)),
            "{code:?}: no subroutine scope is open, `return` must be reported; errors = {:?}",
            error_kinds(&errors)
        );
    }
}

// FINDING 3
// The history "enter local scope, bind x, exit, bind x" written with the language's anonymous
// scope `{ ... }` (grammar: statementOrScope) cannot be driven at all: the analysis panics
// ("BlockExpr not supported.") instead of opening a Local scope.
#[test]
fn anonymous_scope_opens_and_closes_a_local_scope() {
    let code = "{ int x = 1; } int x = 2;";
    let result = std::panic::catch_unwind(|| analyze(code));
    let (_program, errors, table) = match result {
        Ok(r) => r,
        Err(e) => {
            let msg = e
                .downcast_ref::<String>()
                .cloned()
                .or_else(|| e.downcast_ref::<&str>().map(|s| s.to_string()));
            panic!("{code:?}: analysis panicked: {msg:?}");
        }
    };
    // x of the closed scope is gone, so the second declaration is not a redeclaration.
    assert!(errors.is_empty(), "errors = {:?}", error_kinds(&errors));
    assert_eq!(
        table.lookup("x").unwrap().symbol_type(),
        &Type::Int(None, oq3_semantics::types::IsConst::False)
    );
}

// FINDING 4 (outside the clauses of C19, same public table API)
// `hardware_qubits()` is documented to "return a list of hardware qubits referenced in the program".
// Nothing ever binds a hardware qubit (`lookup_or_new_binding` has no caller), so the list is
// always empty.
#[test]
fn hardware_qubits_lists_the_hardware_qubits_of_the_program() {
    let (_program, errors, table) = analyze("U(0, 0, 0) $0; U(0, 0, 0) $1; U(0, 0, 0) $0;");
    assert!(errors.is_empty(), "errors = {:?}", error_kinds(&errors));
    let mut names: Vec<String> = table
        .hardware_qubits()
        .into_iter()
        .map(|(name, _id)| name.to_string())
        .collect();
    names.sort();
    assert_eq!(
        names,
        vec!["$0".to_string(), "$1".to_string()],
        "hardware_qubits() = {:?}",
        table.hardware_qubits()
    );
}
