// Bug-hunt demo for property C01:
//   "Lexing and parsing return normally on every input (no panic, no hang) ... no unbounded
//    loop or unbounded memory growth. The work done is bounded by a constant factor times the
//    number of tokens."
//
// Place this file in crates/oq3_syntax/tests/hunt_demo.rs.
// Each test asserts what the property requires and therefore FAILS on the current code.
// Only the public API of oq3_syntax is used.
//
// Tests 2 and 3 provoke a stack overflow, which aborts the whole process and cannot be caught
// with catch_unwind. They therefore re-run *themselves* in a child process (same test binary,
// `--exact <name>`, env var HUNT_C01_CHILD set) and assert that the child exits normally.
// In the child the parse runs on a thread with an 8 MiB stack, i.e. the default size of the
// main thread on Linux (the libtest worker threads only have 2 MiB, which would be unfair).

use std::process::Command;
use std::time::{Duration, Instant};

use oq3_syntax::SourceFile;

const MAIN_THREAD_STACK: usize = 8 << 20;

fn time_parse(src: &str) -> Duration {
    // best of three, to damp scheduling noise
    let mut best = Duration::MAX;
    for _ in 0..3 {
        let t = Instant::now();
        let parse = SourceFile::parse(src);
        let dt = t.elapsed();
        assert!(parse.errors().is_empty(), "input is valid OpenQASM 3");
        // do not let the (recursive) drop of the tree interfere with this test
        std::mem::forget(parse);
        best = best.min(dt);
    }
    best
}

/// Finding 1. `1+1+1+...+1;` is a flat, perfectly valid expression statement. Parsing time grows
/// quadratically with the number of tokens (the lexer, the parser and the event processing are
/// linear; the quadratic part is the green-tree construction in `build_tree`).
#[test]
fn work_is_linear_in_the_number_of_tokens() {
    let chain = |terms: usize| format!("1{};", "+1".repeat(terms - 1));
    let small_terms = 1500; //  2 999 + 1 tokens
    let large_terms = 6000; // 11 999 + 1 tokens: 4x the tokens

    // Warm up (page faults, lazy statics).
    let _ = time_parse(&chain(200));

    let t_small = time_parse(&chain(small_terms));
    let t_large = time_parse(&chain(large_terms));
    let ratio = t_large.as_secs_f64() / t_small.as_secs_f64();

    // For comparison: the same number of tokens, laid out as separate statements.
    let stmts = "x=1;".repeat(large_terms / 2); // 4 tokens each -> 12 000 tokens
    let t_stmts = time_parse(&stmts);

    // "bounded by a constant factor times the number of tokens": 4x the tokens may cost about 4x
    // the time. We allow 8x. (Quadratic behaviour gives about 16x.)
    assert!(
        ratio <= 8.0,
        "SourceFile::parse is not linear in the number of tokens: \
         {small_terms} terms ({} tokens) took {t_small:?}, {large_terms} terms ({} tokens) took \
         {t_large:?}: 4x the tokens cost {ratio:.1}x the time. \
         (The same number of tokens as {} separate statements `x=1;` takes {t_stmts:?}.)",
        2 * small_terms,
        2 * large_terms,
        large_terms / 2,
    );
}

/// Runs the calling test again in a child process with HUNT_C01_CHILD set; returns
/// (exit status ok?, combined output).
fn rerun_in_child(test_name: &str) -> (bool, String) {
    let out = Command::new(std::env::current_exe().unwrap())
        .args(["--exact", test_name, "--nocapture", "--test-threads=1"])
        .env("HUNT_C01_CHILD", "1")
        .output()
        .expect("cannot spawn the test binary");
    let mut text = String::from_utf8_lossy(&out.stdout).into_owned();
    text.push_str(&String::from_utf8_lossy(&out.stderr));
    (out.status.success(), format!("{:?}\n{}", out.status, text))
}

fn in_child() -> bool {
    std::env::var_os("HUNT_C01_CHILD").is_some()
}

fn on_main_sized_stack(f: impl FnOnce() + Send + 'static) {
    std::thread::Builder::new()
        .stack_size(MAIN_THREAD_STACK)
        .spawn(f)
        .unwrap()
        .join()
        .unwrap();
}

/// Finding 2. 5000 nested (empty) blocks: `{{{{ ... }}}}`, a 10 kB valid program. The recursive
/// descent (`block_expr` -> `expr_block_statements` -> `stmt` -> `expr_stmt` -> `expr_bp` -> `lhs`
/// -> `atom_expr` -> `block_expr`) has no depth guard: the process dies with SIGABRT ("has
/// overflowed its stack") instead of returning a result.
#[test]
fn nested_blocks_return_normally() {
    const DEPTH: usize = 5000;
    if in_child() {
        on_main_sized_stack(|| {
            let src = format!("{}{}", "{".repeat(DEPTH), "}".repeat(DEPTH));
            let parse = SourceFile::parse(&src);
            println!("child: parsed, {} errors", parse.errors().len());
            std::mem::forget(parse); // this test is about parsing only, not about dropping
        });
        return;
    }
    let (ok, output) = rerun_in_child("nested_blocks_return_normally");
    assert!(
        ok,
        "SourceFile::parse did not return normally on {DEPTH} nested blocks \
         (input length {} bytes, 8 MiB stack); child process: {output}",
        2 * DEPTH
    );
}

/// Finding 3. `1 + 1 + 1 + ... + 1;` with 40 000 terms: a flat statement without any nesting in the
/// source (160 kB). The parser handles it iteratively and in linear time (the blanks keep the nodes
/// out of the node cache, so finding 1 does not apply), but the result is a left-deep tree of depth
/// 40 000 whose destructor is recursive: the value returned by `SourceFile::parse` cannot be
/// dropped, the process dies with SIGABRT.
#[test]
fn result_for_a_flat_operator_chain_can_be_dropped() {
    const TERMS: usize = 40_000;
    if in_child() {
        on_main_sized_stack(|| {
            let src = format!("1{};", " + 1".repeat(TERMS - 1));
            let parse = SourceFile::parse(&src);
            println!("child: parsed, {} errors", parse.errors().len());
            drop(parse);
            println!("child: dropped");
            let parse = SourceFile::parse_check_lex(&src);
            println!("child: parsed (check_lex), {} errors", parse.errors().len());
            drop(parse);
            println!("child: dropped");
        });
        return;
    }
    let (ok, output) = rerun_in_child("result_for_a_flat_operator_chain_can_be_dropped");
    assert!(
        ok,
        "parsing and releasing the result for a flat chain of {TERMS} additions did not complete \
         normally (8 MiB stack); child process: {output}"
    );
}
