// C15 hunt: "Well-formed lexemes are classified correctly regardless of neighbours and layout".
//
// Each test states what the property REQUIRES for a sequence of well-formed OpenQASM 3
// lexemes (judged against the reference lexical grammar, qasm3Lexer.g4) and therefore FAILS
// on the current code. Observation point: oq3_parser::LexedStr::{kind,text,errors}.

use oq3_parser::LexedStr;

/// Non-trivia rows of the token table as ("KIND", "text"), plus all lexical errors.
fn table(src: &str) -> (Vec<(String, String)>, Vec<String>) {
    let lexed = LexedStr::new(src);
    let toks = (0..lexed.len())
        .filter(|&i| !lexed.kind(i).is_trivia())
        .map(|i| (format!("{:?}", lexed.kind(i)), lexed.text(i).to_string()))
        .collect();
    let errs = lexed
        .errors()
        .map(|(i, msg)| format!("token {i}: {msg}"))
        .collect();
    (toks, errs)
}

fn rows(expected: &[(&str, &str)]) -> Vec<(String, String)> {
    expected
        .iter()
        .map(|(k, t)| (k.to_string(), t.to_string()))
        .collect()
}

fn check(src: &str, expected: &[(&str, &str)]) {
    let (toks, errs) = table(src);
    assert!(
        toks == rows(expected) && errs.is_empty(),
        "\ninput    : {src:?}\nrequired : {:?} and no lexical error\ngot      : {toks:?}\nerrors   : {errs:?}\n",
        rows(expected)
    );
}

/// Finding 1. OpenQASM 3 block comments do not nest (`BlockComment: '/*' .*? '*/'`): the
/// comment ends at the FIRST `*/`. A block comment whose body contains `/*` swallows
/// everything up to the end of the file and reports an unterminated comment.
#[test]
fn f1_block_comment_containing_slash_star_ends_at_first_star_slash() {
    // lexemes: block comment `/* a /* b */`, identifier `x`, `;`
    check("/* a /* b */ x;", &[("IDENT", "x"), ("SEMICOLON", ";")]);
    // smallest form: `/*/*/` is a complete comment (`/*`, body `/`, `*/`)
    check("/*/*/x", &[("IDENT", "x")]);
}

/// Finding 2. `dim` is an ordinary identifier in OpenQASM 3; only `#dim` is the keyword
/// (`DIM: '#dim'`). The identifier `dim` is classified as the keyword kind DIM_KW, i.e. it
/// gets the same kind as the lexeme `#dim`.
#[test]
fn f2_identifier_dim_is_an_identifier() {
    check(
        "int dim = 3;",
        &[
            ("INT_TY", "int"),
            ("IDENT", "dim"),
            ("EQ", "="),
            ("INT_NUMBER", "3"),
            ("SEMICOLON", ";"),
        ],
    );
}

/// Finding 3. The version header followed by a comment (or by the end of input) instead of
/// by whitespace or `;` gets a lexical error, although `OPENQASM 3.0` itself is well formed
/// and a comment is a legal separator before the `;`. With a blank instead of the comment
/// the same lexemes lex cleanly, so the flavour of the trivia changes the outcome.
#[test]
fn f3_version_header_followed_by_comment_has_no_lexical_error() {
    // Control: passes today.
    let ok = table("OPENQASM 3.0 ;");
    assert!(ok.1.is_empty(), "control failed: {ok:?}");
    for src in ["OPENQASM 3.0/* c */;", "OPENQASM 3.0// c\n;"] {
        check(src, &[("VERSION_STRING", "OPENQASM 3.0"), ("SEMICOLON", ";")]);
    }
}

/// Finding 4. A quoted string / bit string ends at its closing quote. An identifier written
/// directly after the closing quote is a separate lexeme (it cannot fuse with a string in
/// OpenQASM 3: there are no literal suffixes). The lexer glues it onto the literal, so the
/// literal's text is wrong and the identifier disappears from the table.
#[test]
fn f4_identifier_after_closing_quote_is_its_own_token() {
    check("\"01\"x", &[("BIT_STRING", "\"01\""), ("IDENT", "x")]);
    check("\"abc\"in", &[("STRING", "\"abc\""), ("IN_KW", "in")]);
}

/// Finding 5. A bit string is `'"' ([01] '_'?)* [01] '"'`; every other quoted text is an
/// ordinary string literal. Quoted texts made of `0`, `1`, `_` that do NOT have that shape
/// (`"_"`, `"1_"`, `"_1"`, `"1__0"`) are well-formed STRING lexemes, but are classified
/// BIT_STRING; `"1__0"` additionally gets a lexical error.
#[test]
fn f5_quoted_text_that_is_not_bitstring_shaped_is_a_string() {
    for src in ["\"_\"", "\"1_\"", "\"_1\"", "\"1__0\""] {
        check(src, &[("STRING", src)]);
    }
}

/// Finding 6. Only decimal literals can be floats. After a binary / octal / hexadecimal
/// integer literal a `.` starts a new lexeme (`.` or a float such as `.5`). The lexer
/// continues the radix-prefixed literal through the `.` and produces one FLOAT_NUMBER such
/// as `0x1F.5`, without any error.
#[test]
fn f6_radix_prefixed_integer_does_not_absorb_a_following_dot() {
    check("0x1F.5", &[("INT_NUMBER", "0x1F"), ("FLOAT_NUMBER", ".5")]);
    check("0b1.", &[("INT_NUMBER", "0b1"), ("DOT", ".")]);
    check("0o7.5", &[("INT_NUMBER", "0o7"), ("FLOAT_NUMBER", ".5")]);
}
