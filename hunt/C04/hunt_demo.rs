// C04: "Valid OpenQASM 3 programs are accepted with zero syntax diagnostics".
//
// Each test feeds one small, valid OpenQASM 3 program to the two observation points named by
// the property (`SourceFile::parse(..).errors()` and `SourceFile::parse_check_lex(..).errors()`)
// and asserts what the property requires: no diagnostic at all. Every test FAILS on the current
// code; the assertion message shows the diagnostics and the syntax tree that was built.
//
// Only the public API of oq3_syntax is used.

use oq3_syntax::SourceFile;

/// Assert that `src` lexes and parses with no diagnostic (both entry points).
fn assert_accepted(src: &str) {
    let parsed = SourceFile::parse(src);
    let errors = parsed.errors().to_vec();
    let checked = SourceFile::parse_check_lex(src);
    let errors_check_lex = checked.errors().to_vec();
    assert!(
        errors.is_empty() && errors_check_lex.is_empty(),
        "\nvalid program rejected:\n{src}\n\nSourceFile::parse(..).errors():\n{errors:#?}\n\n\
         SourceFile::parse_check_lex(..).errors():\n{errors_check_lex:#?}\n\ntree:\n{:#?}\n",
        parsed.syntax_node()
    );
}

/// Sanity: the neighbouring forms of every input below ARE accepted, so each failure is due to
/// the one construct named in the test and not to the surrounding program.
#[test]
fn control_neighbouring_forms_are_accepted() {
    for src in [
        "bool y = !a;",
        "int y = -a;",
        "bit c = measure q;",
        "c = measure q;",
        "def f(int a) -> float { return (float(a)); }",
        "def f(int a) -> float { return a; }",
        "float y = float(a);",
        "let b = q[1:2];",
        "int y = a[0:2:4];",
        "for int i in a { h q; }",
        "for int i in [0:3] h q;",
        "ctrl @ x q, r;",
        "gphase(pi);",
        "inv @ gphase(pi);",
    ] {
        assert_accepted(src);
    }
}

// ---------------------------------------------------------------------------------------------
// The six findings
// ---------------------------------------------------------------------------------------------

/// 1. The unary bitwise-not operator `~` can never start an expression.
/// `lhs()` has an arm for `T![~]`, and the ungrammar lists `'~'` as a prefix operator, but `~`
/// is missing from LHS_FIRST (= EXPR_FIRST), so `expr_bp` rejects it before `lhs()` is reached.
#[test]
fn f1_unary_bitwise_not() {
    assert_accepted("int y = ~a;");
}

/// 2. The arrow form of measurement, `measure q -> c;`.
/// There is no rule for it; `measure q` is parsed as an expression and `current_op` then takes
/// the `-` of `->` as binary minus (its `T![-]` arms do not exclude `->`).
#[test]
fn f2_measure_arrow_assignment() {
    assert_accepted("measure q -> c;");
}

/// 3. `return` directly followed by a cast.
/// `return_expr` only parses an operand when `p.at_ts(EXPR_FIRST)`, and type keywords are not in
/// EXPR_FIRST (`expr_bp` accepts casts through a separate clause that `return_expr` lacks). The
/// result is a bare `return` followed by a separate statement `float(a);`.
#[test]
fn f3_return_of_a_cast() {
    assert_accepted("def f(int a) -> float { return float(a); }");
}

/// 4. Range expressions with an omitted bound: `q[1:]`, `a[:2]`, `q[:]`.
/// `expr_or_range_expr` insists on an expression before the first colon and after every colon.
#[test]
fn f4_open_ended_range() {
    assert_accepted("let b = q[1:];");
}

/// 4b. Same root cause, other bound.
#[test]
fn f4b_open_start_range() {
    assert_accepted("int y = a[:2];");
}

/// 5. A `for` loop over an identifier with a single-statement body that starts with an identifier
/// (a gate call). `atom_expr` turns IDENT IDENT into a gate call, wherever the expression is, so
/// the iterable `a` swallows the body: `a h q` becomes a gate call `a` on qubits `h`, `q`.
#[test]
fn f5_for_over_identifier_with_gate_call_body() {
    assert_accepted("for int i in a h q;");
}

/// 6. A controlled global phase, `ctrl @ gphase(pi) q;`.
/// `modified_gate_call_expr` delegates to `gphase_call_expr`, which parses `gphase <expr>` and
/// never reads the qubit operands that the control modifier requires.
#[test]
fn f6_controlled_gphase_with_operand() {
    assert_accepted("ctrl @ gphase(pi) q;");
}

// ---------------------------------------------------------------------------------------------
// Further violations seen during the hunt (distinct root causes again; see findings.md)
// ---------------------------------------------------------------------------------------------

/// 7. Old-style register declaration without a size: `qreg q;` / `creg c;`.
/// `q_or_c_reg_param` makes the index operator mandatory.
#[test]
fn x7_qreg_without_size() {
    assert_accepted("qreg q;");
}

/// 8. OpenQASM 3 block comments do not nest, the lexer (inherited from rustc) nests them.
#[test]
fn x8_block_comment_containing_comment_opener() {
    assert_accepted("/* /* */ int x;");
}

/// 9. The compound assignment `**=` is missing from `current_op`.
#[test]
fn x9_power_assign() {
    assert_accepted("x **= 2;");
}

/// 10. `dim` and `void` are keywords of this parser but ordinary identifiers in OpenQASM 3
/// (the array-reference token is `#dim`).
#[test]
fn x10_dim_is_an_identifier() {
    assert_accepted("int dim = 3;");
}

/// 11. Trailing comma in a set expression: the ExpressionList flavour only knows `]` as its end
/// token, so after the comma it tries to parse an item at `}`.
#[test]
fn x11_set_with_trailing_comma() {
    assert_accepted("for int i in {1, 2,} { }");
}
