// C18 hunt: includes act as in-place textual inclusion with ordered path search.
// Each test asserts what the property requires and FAILS on the current code.
//
// Run:
//   cd /tmp/hunt/C18 && CARGO_NET_OFFLINE=true CARGO_TARGET_DIR=/tmp/hunt/C18/target \
//     cargo test --offline -j 2 -p oq3_semantics --test hunt_demo

use oq3_semantics::semantic_error::{SemanticErrorKind, SemanticErrorList};
use oq3_semantics::syntax_to_semantics::parse_source_string_with_path_search;
use std::fs;
use std::path::{Path, PathBuf};

fn fresh(name: &str) -> PathBuf {
    let d = std::env::temp_dir().join(format!("hunt_c18_{}_{}", std::process::id(), name));
    let _ = fs::remove_dir_all(&d);
    fs::create_dir_all(&d).unwrap();
    fs::canonicalize(d).unwrap()
}

fn put(dir: &Path, rel: &str, text: &str) -> PathBuf {
    let p = dir.join(rel);
    fs::create_dir_all(p.parent().unwrap()).unwrap();
    fs::write(&p, text).unwrap();
    p
}

fn dump_errs(e: &SemanticErrorList, indent: usize, out: &mut String) {
    out.push_str(&format!(
        "{}[{}]\n",
        " ".repeat(indent),
        e.source_file_path().display()
    ));
    for x in e.iter() {
        out.push_str(&format!("{}  {}\n", " ".repeat(indent), x));
    }
    for i in e.include_errors() {
        dump_errs(i, indent + 2, out);
    }
}

fn count_kind(e: &SemanticErrorList, pred: &dyn Fn(&SemanticErrorKind) -> bool) -> usize {
    e.iter().filter(|x| pred(x.kind())).count()
        + e.include_errors()
            .iter()
            .map(|i| count_kind(i, pred))
            .sum::<usize>()
}

/// What one run of the front end shows to its caller.
struct Outcome {
    syntax_errors: bool,
    n_not_global: usize,
    n_semantic: usize,
    symbols: Vec<String>,
    dump: String,
}

/// Analyse `code` with the search list `dirs`; a panic is turned into Err(message).
fn analyse(code: &str, dirs: &[PathBuf], probe_symbols: &[&str]) -> Result<Outcome, String> {
    let code = code.to_string();
    let dirs = dirs.to_vec();
    let probe: Vec<String> = probe_symbols.iter().map(|s| s.to_string()).collect();
    let r = std::panic::catch_unwind(move || {
        let r = parse_source_string_with_path_search(&code, Some("main.qasm"), Some(&dirs[..]));
        let mut dump = String::new();
        dump.push_str(&format!(
            "any_syntax_errors={} num_syntax_errors={}\n",
            r.any_syntax_errors(),
            r.num_syntax_errors()
        ));
        dump_errs(r.semantic_errors(), 0, &mut dump);
        for st in r.program().stmts() {
            dump.push_str(&format!("STMT {:?}\n", st));
        }
        Outcome {
            syntax_errors: r.any_syntax_errors(),
            n_not_global: count_kind(r.semantic_errors(), &|k| {
                matches!(k, SemanticErrorKind::IncludeNotInGlobalScopeError)
            }),
            n_semantic: count_kind(r.semantic_errors(), &|_| true),
            symbols: probe
                .iter()
                .filter(|s| r.symbol_table().lookup(s).is_ok())
                .cloned()
                .collect(),
            dump,
        }
    });
    r.map_err(|e| {
        e.downcast_ref::<String>()
            .cloned()
            .or_else(|| e.downcast_ref::<&str>().map(|s| s.to_string()))
            .unwrap_or_else(|| "<non-string panic>".to_string())
    })
}

// ---------------------------------------------------------------------------------------------
// Finding 1. "an include below global scope is reported, and none of these cases panics".
// An include that is the un-braced body of if / while / for is below global scope. The braced
// form `if (true) { include "stdgates.inc"; }` is reported correctly (checked first, as the
// reference); the un-braced form panics in block_or_stmt_to_asg_type.
// ---------------------------------------------------------------------------------------------
#[test]
fn include_as_unbraced_body_is_reported_not_a_panic() {
    let d = fresh("f1");
    put(&d, "a.inc", "int a = 1;\n");
    let dirs = vec![d];

    // reference: braced bodies behave as the property says
    let braced = analyse("if (true) { include \"stdgates.inc\"; }\n", &dirs, &[]).unwrap();
    assert_eq!(braced.n_not_global, 1, "reference (braced) run:\n{}", braced.dump);

    let mut failures = String::new();
    for code in [
        "if (true) include \"stdgates.inc\";\n",
        "if (true) include \"a.inc\";\n",
        "while (false) include \"stdgates.inc\";\n",
        "for int i in [0:1] include \"a.inc\";\n",
        "if (true) { int x = 1; } else include \"stdgates.inc\";\n",
    ] {
        match analyse(code, &dirs, &[]) {
            Err(msg) => failures.push_str(&format!("{code:?}: PANIC: {msg}\n")),
            Ok(o) if o.n_not_global != 1 => failures.push_str(&format!(
                "{code:?}: expected exactly one IncludeNotInGlobalScopeError, got:\n{}\n",
                o.dump
            )),
            Ok(_) => {}
        }
    }
    assert!(
        failures.is_empty(),
        "an include below global scope must be reported (IncludeNotInGlobalScopeError), never panic:\n{failures}"
    );
}

// ---------------------------------------------------------------------------------------------
// Finding 2. "an include that cannot be read is reported as a diagnostic on the include's
// path ... none of these cases panics". A path literal with an escape the string decoder
// does not know (`\q`) lexes and parses without any syntax error, but FilePath::to_string()
// is None and parse_included_files unwraps it.
// ---------------------------------------------------------------------------------------------
#[test]
fn include_path_with_unknown_escape_is_reported_not_a_panic() {
    let d = fresh("f2");
    put(&d, "a.inc", "int a = 1;\n");
    let dirs = vec![d];
    let code = "include \"a\\q.inc\";\nint y = 1;\n";
    match analyse(code, &dirs, &["y"]) {
        Err(msg) => panic!(
            "{code:?}: the include cannot be resolved to a readable file, so a diagnostic \
             (syntax error or FileNotFound-like semantic error) is required; got PANIC: {msg}"
        ),
        Ok(o) => assert!(
            o.syntax_errors || o.n_semantic > 0,
            "{code:?}: no diagnostic at all:\n{}",
            o.dump
        ),
    }
}

// ---------------------------------------------------------------------------------------------
// Finding 3. The list of included files is built (parse_included_files) BEFORE syntax errors
// are looked at, and it unwraps `include.file()`. Every include statement whose path did not
// parse as a FILE_PATH therefore panics instead of producing the syntax error the parser has
// already recorded. This includes the valid OpenQASM 3 program `include "01";` (a file named
// `01` exists on the search list): the lexer classifies "01" as a bit string, the parser
// records "expected a path to a file", and the front end panics.
// ---------------------------------------------------------------------------------------------
#[test]
fn include_whose_path_is_not_a_file_path_node_is_reported_not_a_panic() {
    let d = fresh("f3");
    put(&d, "01", "int from01 = 1;\n");
    let dirs = vec![d];
    let mut failures = String::new();
    for code in ["include \"01\";\n", "include \"\";\n", "include;\n"] {
        match analyse(code, &dirs, &["from01"]) {
            Err(msg) => failures.push_str(&format!("{code:?}: PANIC: {msg}\n")),
            Ok(o) => {
                // either the file was included, or a diagnostic says why not
                let included = o.symbols.iter().any(|s| s == "from01");
                if !(included || o.syntax_errors || o.n_semantic > 0) {
                    failures.push_str(&format!("{code:?}: neither included nor diagnosed:\n{}\n", o.dump));
                }
            }
        }
    }
    assert!(
        failures.is_empty(),
        "an include is either performed or reported, never a panic:\n{failures}"
    );
}

// ---------------------------------------------------------------------------------------------
// Finding 4. One include file over one search directory, the file including itself
// (`a.inc`: `include "a.inc";`). parse_included_files recurses without bound (source has a
// FIXME), the process dies with a stack overflow (SIGSEGV/SIGABRT) - worse than a panic,
// catch_unwind cannot stop it. The run is therefore done in a child process.
// ---------------------------------------------------------------------------------------------
#[test]
fn self_including_file_is_reported_not_a_crash() {
    const CHILD: &str = "HUNT_C18_SELF_INCLUDE_DIR";
    if let Ok(dir) = std::env::var(CHILD) {
        // child: just run the front end; any outcome but a crash is fine
        let dirs = vec![PathBuf::from(dir)];
        let r = parse_source_string_with_path_search(
            "include \"a.inc\";\nint y = 1;\n",
            Some("main.qasm"),
            Some(&dirs[..]),
        );
        let mut dump = String::new();
        dump_errs(r.semantic_errors(), 0, &mut dump);
        println!("child finished: any_errors={}\n{dump}", r.any_errors());
        return;
    }
    let d = fresh("f4");
    put(&d, "a.inc", "int a = 1;\ninclude \"a.inc\";\n");
    let mut child = std::process::Command::new(std::env::current_exe().unwrap())
        .args(["--exact", "self_including_file_is_reported_not_a_crash", "--nocapture", "--test-threads", "1"])
        .env(CHILD, &d)
        .stdout(std::process::Stdio::piped())
        .stderr(std::process::Stdio::piped())
        .spawn()
        .unwrap();
    let start = std::time::Instant::now();
    let status = loop {
        if let Some(st) = child.try_wait().unwrap() {
            break Some(st);
        }
        if start.elapsed().as_secs() > 120 {
            let _ = child.kill();
            break None;
        }
        std::thread::sleep(std::time::Duration::from_millis(50));
    };
    let out = child.wait_with_output().unwrap();
    let stderr = String::from_utf8_lossy(&out.stderr);
    let tail: String = stderr.lines().rev().take(6).collect::<Vec<_>>().into_iter().rev().collect::<Vec<_>>().join("\n");
    match status {
        None => panic!("a.inc including itself: front end did not terminate within 120 s"),
        Some(st) => assert!(
            st.success(),
            "a.inc including itself: the front end must terminate with a diagnostic, but the \
             process died: {st:?}\nstderr tail:\n{tail}"
        ),
    }
}
