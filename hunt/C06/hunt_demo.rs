// Bug hunt for property C06:
// "The semantic graph preserves the program's structure, order and operators".
//
// Every test asserts what the property REQUIRES, so every test FAILS on the current code.
// Only the public API of oq3_semantics is used.

use oq3_semantics::asg;
use oq3_semantics::semantic_error::SemanticErrorList;
use oq3_semantics::syntax_to_semantics::parse_source_string;

struct Analysed {
    program: asg::Program,
    errors: SemanticErrorList,
    syntax_errors: bool,
}

fn analyse(code: &str) -> Analysed {
    let parsed = parse_source_string(code, None);
    let syntax_errors = parsed.any_syntax_errors();
    let (program, errors, _symbols) = parsed.take_context().as_tuple();
    Analysed {
        program,
        errors,
        syntax_errors,
    }
}

fn dump(a: &Analysed) -> String {
    let mut out = format!(
        "syntax_errors: {}\nsemantic errors: {:?}\ngraph:\n",
        a.syntax_errors, a.errors
    );
    for stmt in a.program.stmts() {
        out.push_str(&format!("  {stmt:?}\n"));
    }
    out
}

fn unannotated(stmt: &asg::Stmt) -> &asg::Stmt {
    match stmt {
        asg::Stmt::AnnotatedStmt(a) => a.statement(),
        other => other,
    }
}

// ---------------------------------------------------------------------------------------------
// 1. The last statement of a block is silently dropped when it is a nested scope `{ ... }`
//    (also `box { ... }`, and any expression statement whose `;` is missing before `}`).
//    Property clause: "every block holds exactly the translations of its statements in order".
// ---------------------------------------------------------------------------------------------
#[test]
fn c06_last_nested_scope_of_a_block_is_not_dropped() {
    let a = analyse(
        r#"
qubit q;
qubit r;
if (true) { reset q; { reset r; } }
"#,
    );
    assert!(!a.syntax_errors, "program must be analysed\n{}", dump(&a));
    let asg::Stmt::If(if_stmt) = &a.program.stmts()[2] else {
        panic!("third statement must be the if\n{}", dump(&a));
    };
    let n = if_stmt.then_branch().statements().len();
    // The source block has two statements: `reset q;` and the scope `{ reset r; }`.
    // Accept a diagnostic instead of a translation; silence is the violation.
    assert!(
        n == 2 || !a.errors.is_empty(),
        "then-block of `if (true) {{ reset q; {{ reset r; }} }}` holds {n} statement(s) and nothing is \
         diagnosed: `reset r` has vanished from the graph\n{}",
        dump(&a)
    );
}

// ---------------------------------------------------------------------------------------------
// 2. `let b = q[1];` becomes an Alias when it precedes the first expression statement of the
//    file, but NullStmt + NotImplementedError when it comes after one (or sits in any block).
//    Property clause: "every ... statement kind maps to the graph construct of the same meaning".
// ---------------------------------------------------------------------------------------------
#[test]
fn c06_alias_statement_maps_to_alias_wherever_it_stands() {
    let before = analyse(
        r#"
qubit[2] q;
let b = q[1];
U(0, 0, 0) q[0];
"#,
    );
    let after = analyse(
        r#"
qubit[2] q;
U(0, 0, 0) q[0];
let b = q[1];
"#,
    );
    assert!(!before.syntax_errors && !after.syntax_errors);
    assert!(
        matches!(before.program.stmts()[1], asg::Stmt::Alias(_)),
        "reference program\n{}",
        dump(&before)
    );
    assert!(
        matches!(after.program.stmts()[2], asg::Stmt::Alias(_)) && after.errors.is_empty(),
        "the same `let b = q[1];` placed after a gate call is not an Alias any more\n\
         -- let first:\n{}\n-- let after the gate call:\n{}",
        dump(&before),
        dump(&after)
    );
}

// ---------------------------------------------------------------------------------------------
// 3. An expression statement that starts with a cast to a type WITH a width loses the cast:
//    `int[32](c) - 1;` is analysed as the statement `-1;`. (`int(c) - 1;` is fine.)
//    Property clause: "the graph's statements are the translations of the source statements",
//    "operands ... keep their order".
// ---------------------------------------------------------------------------------------------
#[test]
fn c06_statement_starting_with_a_sized_cast_keeps_its_left_operand() {
    let a = analyse(
        r#"
bit[4] c;
int[32](c) - 1;
"#,
    );
    assert!(!a.syntax_errors, "program must be analysed\n{}", dump(&a));
    assert_eq!(a.program.stmts().len(), 2, "{}", dump(&a));
    let asg::Stmt::ExprStmt(texpr) = &a.program.stmts()[1] else {
        panic!("second statement must be an expression statement\n{}", dump(&a));
    };
    let is_subtraction = match texpr.expression() {
        asg::Expr::BinaryExpr(b) => {
            matches!(b.op(), asg::BinaryOp::ArithOp(asg::ArithOp::Sub))
        }
        _ => false,
    };
    assert!(
        is_subtraction || !a.errors.is_empty(),
        "`int[32](c) - 1;` must be a subtraction whose left operand is the cast of `c`; \
         the graph holds the literal -1 and no diagnostic\n{}",
        dump(&a)
    );
}

// ---------------------------------------------------------------------------------------------
// 4. A parenthesised comma list `(1, 2)` is accepted by the parser without any error but is not
//    an expression for the AST layer; wherever it stands it is silently skipped:
//    an initializer disappears, an argument / set element / index disappears.
//    Property clause: "operands, arguments, ... index lists ... keep their order".
// ---------------------------------------------------------------------------------------------
#[test]
fn c06_tuple_operand_is_not_silently_skipped() {
    let a = analyse(
        r#"
int x = (1, 2);
for int j in {(1, 2), 3} { j; }
"#,
    );
    let diagnosed = a.syntax_errors || !a.errors.is_empty();
    let asg::Stmt::DeclareClassical(decl) = &a.program.stmts()[0] else {
        panic!("first statement must be the declaration\n{}", dump(&a));
    };
    let asg::Stmt::ForStmt(for_stmt) = &a.program.stmts()[1] else {
        panic!("second statement must be the for loop\n{}", dump(&a));
    };
    let set_len = match for_stmt.iterable() {
        asg::ForIterable::SetExpression(set) => set.expressions().len(),
        _ => usize::MAX,
    };
    assert!(
        diagnosed || (decl.initializer().is_some() && set_len == 2),
        "`int x = (1, 2);` is analysed as `int x;` (initializer: {:?}) and the set `{{(1, 2), 3}}` has \
         {set_len} element(s); nothing is diagnosed\n{}",
        decl.initializer(),
        dump(&a)
    );
}

// ---------------------------------------------------------------------------------------------
// 5. Operator nesting: OpenQASM 3 gives `==`/`!=` HIGHER precedence than `&`, `^`, `|`
//    (spec, "Operator precedence" table). `a & b == c` means `a & (b == c)`.
//    The graph holds `(a & b) == c`.
//    Property clause: "operands ... keep their order, and every operator ... maps to the graph
//    construct of the same meaning" (the tree of the source expression).
// ---------------------------------------------------------------------------------------------
#[test]
fn c06_equality_binds_tighter_than_bitwise_and() {
    let a = analyse(
        r#"
int a;
int b;
int c;
a & b == c;
"#,
    );
    assert!(!a.syntax_errors, "program must be analysed\n{}", dump(&a));
    let asg::Stmt::ExprStmt(texpr) = &a.program.stmts()[3] else {
        panic!("fourth statement must be an expression statement\n{}", dump(&a));
    };
    let asg::Expr::BinaryExpr(top) = texpr.expression() else {
        panic!("binary expression expected\n{}", dump(&a));
    };
    let right_is_eq = match top.right().expression() {
        asg::Expr::BinaryExpr(r) => matches!(r.op(), asg::BinaryOp::CmpOp(asg::CmpOp::Eq)),
        _ => false,
    };
    assert!(
        matches!(top.op(), asg::BinaryOp::ArithOp(asg::ArithOp::BitAnd)) && right_is_eq,
        "`a & b == c` must be BitAnd(a, Eq(b, c)); the graph has top operator {:?}\n{}",
        top.op(),
        dump(&a)
    );
}

// ---------------------------------------------------------------------------------------------
// 6. With CRLF line endings the pragma text (and the annotation text) contains the `\r` of the
//    line terminator.
//    Property clause: "pragma text verbatim" / "annotations attached ...": the text of the
//    directive is the rest of the line, the line terminator is not part of it.
// ---------------------------------------------------------------------------------------------
#[test]
fn c06_pragma_and_annotation_text_exclude_the_line_terminator() {
    let lf = analyse("pragma foo bar\n@note x\nqubit q;\n");
    let crlf = analyse("pragma foo bar\r\n@note x\r\nqubit q;\r\n");
    assert!(!lf.syntax_errors && !crlf.syntax_errors);
    let text = |a: &Analysed| -> (String, String) {
        let asg::Stmt::Pragma(p) = &a.program.stmts()[0] else {
            panic!("pragma expected\n{}", dump(a));
        };
        let asg::Stmt::AnnotatedStmt(an) = &a.program.stmts()[1] else {
            panic!("annotated statement expected\n{}", dump(a));
        };
        assert!(matches!(
            unannotated(&a.program.stmts()[1]),
            asg::Stmt::DeclareQuantum(_)
        ));
        (
            p.pragma_text().to_string(),
            an.annotations()[0].annotation_text().to_string(),
        )
    };
    assert_eq!(
        text(&lf),
        text(&crlf),
        "the same program with CRLF line endings yields a different pragma / annotation text\n{}",
        dump(&crlf)
    );
}
