#!/bin/bash
# Build everything the checks need from files on disk only (offline).
set -e
cd "$(dirname "$0")"
export CARGO_NET_OFFLINE=true
mkdir -p .work evidence
python3-vt -c "import z3; print('z3', z3.get_version_string())"
# MIR dumps of the five crates (cached by source hash; re-dumped automatically when /repo changes)
python3-vt -m vf.mirdump
# native replay driver, dev and release
python3-vt -c "from vf import native; native.build('dev', print); native.build('release', print)"
echo setup ok
