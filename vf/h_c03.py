"""C03 - semantic analysis returns normally on every syntax-error-free program (stage 2, DESIGN 6/C03).

Programs = a fixed preamble of declarations followed by one statement skeleton of /verif/spec/grammar.py.  Token CLASS
slots and the identifier names (a: int variable, q: qubit, g: gate, f: subroutine, u: undeclared) are solver choices.
The REAL parser builds the tree (interpreted), programs with syntax diagnostics are skipped (the property's
precondition), then ALL of oq3_semantics::syntax_to_semantic runs from MIR on the abstract tree.  Obligations: no
panic / unwrap / todo!, the symbol table is back at the global scope.
"""
import json, os, hashlib, collections, re
import z3
from . import explore, native, findings, skel
from .interp import Exec, SV, SB, EnumV, VecV, Ref, Panic, Unsupported, Violation, StepLimit
from .main import Result
from .sem_kit import SemKit
from .parser_kit import ParserKit

PREAMBLE = [("INT_TY", "int"), ("IDENT", "a"), ("SEMICOLON", ";"),
            ("QUBIT_KW", "qubit"), ("IDENT", "q"), ("SEMICOLON", ";"),
            ("GATE_KW", "gate"), ("IDENT", "g"), ("IDENT", "p"), ("L_CURLY", "{"), ("R_CURLY", "}"),
            ("DEF_KW", "def"), ("IDENT", "f"), ("L_PAREN", "("), ("R_PAREN", ")"), ("L_CURLY", "{"), ("R_CURLY", "}")]
NAMES = "aqgfu"
UNITS = ["ns", "dt", "im"]
PLEN = len(" ".join(t for _, t in PREAMBLE)) + 1
LIT_TEXT = {"INT_NUMBER": "1", "FLOAT_NUMBER": "1.5", "BIT_STRING": '"01"', "STRING": '"stdgates.inc"', "HARDWAREIDENT": "$0",
            "PRAGMA": "pragma x", "ANNOTATION": "@ann x", "VERSION_STRING": "OPENQASM 3.0", "DIM_KW": "#dim"}


class Family:
    def __init__(self, known, seed):
        self.kit = SemKit()
        self.pk = ParserKit()
        self.known = known; self.seed = seed
        self.ex = self.kit.new_exec(max_steps=4000000)
        self.text_of = dict(self.pk.keyword_text); self.text_of.update(self.pk.punct_text)

    def harness(self, task):
        return SemHarness(self, task)

    def exec_for(self, h):
        return self.ex


class SemHarness:
    def __init__(self, fam, task):
        self.fam = fam; self.name, self.shape, self.base, self.budget = task
        self.cache = {}

    def program(self, ex):
        """chooses class members / names (solver-level choices), returns the Source.
        base None: the full product of slot values.  Otherwise the Hamming ball of radius `budget` around a base
        assignment (roles: guessed by position; allu: every name undeclared; alla: every name the int variable)."""
        fam = self.fam; kit = fam.kit; K = kit.K; G = skel.spec()
        src = kit.source()
        for kn, t in PREAMBLE:
            src.tok(kn, t)
        self.text = []; self.joints = []
        nid = 0
        inst = skel.instantiate(fam.pk, self.shape, prefix="s")
        for c in inst.cons:
            ex.add_constraint(c)
        base, budget = self.base, self.budget
        dev = 0
        op_tail = set()
        for first, L, _ in inst.ops:
            op_tail.update(range(first + 1, first + L))
        slot_class = dict(inst.slots)
        prev = "start"
        toks = inst.toks
        for i, t in enumerate(toks):
            if isinstance(t, SV):
                if i in slot_class:
                    cands = [K[n] for n in G.CLASSES[slot_class[i]]]
                else:
                    cands = sorted(set(K[x] for v in G.BINOPS.values() for x in v[0]) | set(K[x] for v in G.CMPASSIGN.values() for x in v))
                if base is None or i in op_tail:
                    k = ex.choose([(c, t.e == c) for c in cands])
                else:
                    d = cands[0]
                    if slot_class.get(i) in ("ATOM", "IDX", "QUBIT") and base != "roles":
                        d = K["IDENT"]
                    elif slot_class.get(i) == "ATOM":
                        d = K["INT_NUMBER"]
                    if dev >= budget:
                        k = ex.choose([(d, t.e == d)])
                    else:
                        k = ex.choose([(d, t.e == d)] + [(c, t.e == c) for c in cands if c != d])
                        dev += (k != d)
            else:
                k = t
            kn = kit.names[k]
            joint = inst.forced_joint.get(i, 0) == 1
            if kn == "IDENT" and i > 0 and self.text and kit.names.get(self.lastkind) in ("INT_NUMBER", "FLOAT_NUMBER"):
                # the lexer yields <number><identifier> only ... the parser makes a timing literal of it and validation
                # rejects everything but a time unit or `im`
                opts = UNITS if base is None or dev < budget else UNITS[:1]
                txt = ex.choose([(u, z3.BoolVal(True)) for u in opts])
                dev += (txt != UNITS[0]) if base is not None else 0
                src.tok("IDENT", txt, joint)
                self.text.append(txt); self.joints.append(joint)
            elif kn == "IDENT":
                c = SV(z3.BitVec(f"name{nid}", 32), 32); nid += 1
                if base is None:
                    ex.add_constraint(z3.Or([c.e == ord(x) for x in NAMES]))
                else:
                    nxt = toks[i + 1] if i + 1 < len(toks) else None
                    if base == "allu":
                        dn = "u"
                    elif base == "alla":
                        dn = "a"
                    elif slot_class.get(i) == "QUBIT":
                        dn = "q"
                    elif prev in ("decl",):
                        dn = "u"
                    elif prev in ("start",) and (isinstance(nxt, SV) or kit.names.get(nxt) in ("IDENT", "HARDWAREIDENT", "L_PAREN")):
                        dn = "g" if kit.names.get(nxt) != "L_PAREN" or True else "f"
                    else:
                        dn = "a"
                    if dev >= budget or ex.choose([("d", z3.BoolVal(True)), ("o", z3.BoolVal(True))]) == "d":
                        ex.add_constraint(c.e == ord(dn))
                    else:
                        dev += 1
                        ex.add_constraint(z3.Or([c.e == ord(x) for x in NAMES if x != dn]))
                src.tok("IDENT", [c], joint)
                self.text.append(c); self.joints.append(joint)
            else:
                txt = LIT_TEXT.get(kn) or fam.text_of.get(k)
                if kn in ("PRAGMA", "ANNOTATION"):
                    # line-oriented tokens: with a body, without one, and the `#pragma` spelling
                    alts = {"PRAGMA": ["pragma x", "pragma", "#pragma x y", "#pragma"], "ANNOTATION": ["@ann x", "@ann"]}[kn]
                    txt = ex.choose([(a_, z3.BoolVal(True)) for a_ in alts])
                if txt is None:
                    raise Unsupported("no spelling for " + kn)
                src.tok(kn, txt, joint)
                self.text.append(txt); self.joints.append(joint)
            self.lastkind = k
            if kn.endswith("_TY") or kn in ("R_BRACK", "GATE_KW", "DEF_KW", "QUBIT_KW", "LET_KW", "QREG_KW", "CREG_KW", "EXTERN_KW", "CONST_KW", "INPUT_KW", "OUTPUT_KW"):
                prev = "decl"
            elif kn in ("SEMICOLON", "L_CURLY", "R_CURLY", "AT", "R_PAREN") or i == 0 and False:
                prev = "start"
            else:
                prev = "other"
            if i == 0 and kn == "IDENT":
                pass
        return src

    def run(self, ex):
        fam = self.fam; kit = fam.kit
        src = self.program(ex)
        # the parse depends on kinds and jointness only (names are symbolic characters that the parser never inspects):
        # one interpreted parse per kind assignment, the immutable tree is shared by the paths that differ in names
        key = tuple((k, tuple(c if isinstance(c, int) else None for c in cs), j) for k, cs, j in src.items)
        hit = self.cache.get(key)
        if hit is None:
            root = src.build(ex)
            errors = list(src.errors)
            if not errors:
                errors += fam.kit.validate(ex, root)       # literal / time-unit validation (concrete texts only)
            hit = self.cache[key] = (root, errors)
        root, errors = hit
        if errors:
            return "syntax-error"          # outside the property's precondition
        ctx, errs = kit.analyze(ex, root)
        ex.obligations += 2
        depth = len(ctx[2][0].items)
        if depth != 1:
            raise Violation(f"symbol table left with {depth} open scopes")
        return "analysed"

    def render(self, model):
        out = [t + " " for _, t in PREAMBLE]
        for t, j in zip(self.text, self.joints):
            out.append((chr(model.get(t.e.decl().name(), ord("a"))) if isinstance(t, SV) else t) + ("" if j else " "))
        txt = "".join(out).strip()
        return re.sub(r"((?:#?pragma|@ann)(?: x)?(?: y)?) ", r"\1\n", txt + " ").strip(" ")

    def describe(self, ex, outcome, detail):
        if outcome == "ok":
            return ("ok", detail, ex.obligations)
        model = ex.model() or {}
        text = self.render(model) if hasattr(self, "text") else ""
        stack = detail.get("stack") or []
        fn = next((s.split("::")[-1] for s in reversed(stack) if "<impl" not in s or True), "?")
        site = f"{outcome}|{fn}|{detail['msg'][:140].strip()}|{re.split('[@</]', self.name)[0]}"
        return ("fail", outcome, site, text, self.name)


def famfactory(known, seed):
    def f():
        return Family(known, seed)
    return f


def native_semantic(text):
    return native.run_one("semantic " + native.hexs(text), "dev", timeout=20)


def product_size(shape):
    G = skel.spec()
    n = 1
    for it in shape:
        if it == "IDENT":
            n *= len(NAMES)
        elif isinstance(it, tuple) and it[0] == "slot":
            cl = G.CLASSES[it[1]]
            n *= len(cl) + ((len(NAMES) - 1) if "IDENT" in cl else 0)
        elif isinstance(it, tuple) and it[0] in ("binop", "cmpassign"):
            n *= 8
    return n


def build_tasks(depth, reduced=False, full_below=600, budget=2):
    """(tag, shape, base, budget).  Skeletons whose full slot product is small are enumerated completely (base None);
    the others as Hamming balls around three base assignments."""
    G = skel.spec()
    tasks = []
    for name, sk in G.statements(depth):
        if len(sk) > 18:
            continue
        m = re.match(r"ifelse_(emptyblock|(?:block|single)_[a-z]+)_(emptyblock|(?:block|single)_[a-z]+)$", name)
        if m and reduced and not (m.group(1) == "emptyblock" or m.group(2) == "emptyblock" or m.group(1) == m.group(2)):
            continue        # quick: the two bodies go through the same block_or_stmt translation; the full product is the thorough tier
        for shape in skel.expand_shapes(sk):
            tag = name + ("" if shape == sk else "/" + "".join(str(it[1]) for it in shape if isinstance(it, tuple) and it[0] in ("binop", "cmpassign")))
            if product_size(shape) <= full_below:
                tasks.append((tag, shape, None, 0))
            else:
                for base in ("roles", "allu", "alla"):
                    tasks.append((tag + "@" + base, shape, base, budget))
    return tasks


def run(ctx):
    res = Result()
    depth = int(os.environ.get("VERIF_C03_DEPTH", 1 if ctx.quick() else 2))
    tasks = build_tasks(depth, reduced=ctx.quick(), full_below=600 if ctx.quick() else 3000, budget=2)
    if os.environ.get("VERIF_C03_ONLY"):
        tasks = [t for t in tasks if os.environ["VERIF_C03_ONLY"] in t[0]]
    ctx.log(f"{len(tasks)} statement skeleton instances after the preamble `{' '.join(t for _, t in PREAMBLE)}`")
    fails = collections.OrderedDict()
    counts = collections.Counter()

    def on_result(idx, task, recs, left, stats, err):
        if err:
            res.inconclusive.append(err[:500])
        if left:
            res.inconclusive.append(f"{task[0]} not exhausted")
        if os.environ.get("VERIF_C03_TIMING"):
            ctx.log(f"    {task[0]}: {stats.get('paths')} paths {stats.get('task_ms', 0) / 1000:.1f}s left={left}")
        for r in recs:
            if r[0] == "ok":
                counts[r[1]] += 1; res.obligations += r[2]
            else:
                d = fails.setdefault(r[2], {"count": 0, "ex": []})
                d["count"] += 1
                if len(d["ex"]) < 3:
                    d["ex"].append(r)
    st, errs = explore.explore_many(famfactory(ctx.known, ctx.seed), tasks, workers=ctx.workers, max_paths=int(os.environ.get('VERIF_C03_MAXPATHS', 20000)), on_result=on_result, log=ctx.log)
    res.merge_stats(st)
    ctx.log(f"{st.get('paths', 0)} paths: {dict(counts)} panic={st.get('panic', 0)} violation={st.get('violation', 0)} stuck={st.get('stuck', 0)} unsupported={st.get('unsupported', 0)} wall={st.get('wall', 0):.1f}s")
    res.extra["paths_by_outcome"] = dict(counts)
    known_by_id = {k["id"]: k for k in ctx.known}
    seen = collections.Counter()
    for site, info in fails.items():
        r0 = info["ex"][0]
        if r0[1] == "unsupported":
            res.inconclusive.append(f"unsupported ({info['count']} paths): {site[:200]} e.g. `{r0[3][PLEN:]}` [{r0[4]}]")
            continue
        rep = None
        for r in info["ex"]:
            o = native_semantic(r[3])
            if native.failed(o):
                rep = (r[3], str(o)[:160]); break
            if r[1] == "violation" and "open scopes" in site:
                depth = str((o or {}).get("symbols", "")).count("ScopeSymbolTable {")
                if depth != 1:
                    rep = (r[3], f"the native symbol table ends with {depth} open scopes"); break
        if rep is None:
            res.inconclusive.append(f"counterexample does not reproduce natively ({info['count']} paths): {site[:200]} e.g. `{r0[3][PLEN:]}` [{r0[4]}]")
            continue
        res.validated += 1
        kid = None
        for k in ctx.known:
            if re.search(k["site"], site):
                kid = k["id"]; break
        stmt_text = rep[0][len(" ".join(t for _, t in PREAMBLE)) + 1:]
        if kid:
            seen[kid] += info["count"]
            if seen[kid] == info["count"]:
                res.known_hits.append(f"{kid}: {known_by_id[kid].get('what', '')} (e.g. `{stmt_text}`)")
            continue
        what = {"site": site, "paths": info["count"], "skeleton": r0[4], "statement": stmt_text, "program": rep[0], "native": rep[1]}
        rp = os.path.join(ctx.replay_dir, "sem_" + hashlib.sha1(site.encode()).hexdigest()[:10] + ".json")
        json.dump({"property": "C03", "program": rep[0], "what": what}, open(rp, "w"), indent=1)
        res.violations.append({"what": json.dumps(what), "replay": rp})
        res.samples.append(what)
    res.samples.append({"skeleton": "decl_init<atom>", "outcome": "analysis returns for every type keyword, literal class and identifier role"})
    res.functions_encoded += ["oq3_semantics::syntax_to_semantics::* (all)", "oq3_semantics::{context, symbols, asg, types, semantic_error}::*", "oq3_syntax::ast::{generated::nodes, node_ext, expr_ext, type_ext, token_ext, traits}::* (accessors reached)",
                              "oq3_parser (to_input, parse, intersperse_trivia) to build the tree"]
    res.bounds.update({"skeleton_instances": len(tasks), "expression_depth": depth - 1, "statements_after_preamble": 1, "identifier_roles": NAMES, "literal_texts": "one spelling per literal class"})
    res.stubs += ["rowan tree as an abstract ordered tree built by the interpreted parser (vf/treemodel.py)", "hashbrown maps abstract", "String/str/TextRange models", "f64 parsing accepts/rejects by the concrete text, values opaque"]
    res.outside_claim += ["programs with more than one statement after the preamble, deeper nesting", "include of files other than stdgates.inc", "literal texts other than the representatives (C10 covers the accessors)"]
    res.exhaustive = not res.inconclusive
    return res


def replay(ctx, path):
    d = json.load(open(path))
    o = native_semantic(d["program"])
    print(str(o)[:300])
    return 1 if native.failed(o) else 0
