"""Shared pieces of the lexer-level harnesses (C01 lexer part, C10, C11a, C14, C15)."""
import re
import z3
from . import mirdump, strmodel
from .interp import Program, Exec, SV, SB, EnumV, VecV, Ref, UNIT, Panic, Unsupported, Violation, StepLimit
from .models import Models
from .strmodel import SymStr, StrSlice, CharsV, LenV, span_len


class LexerKit:
    def __init__(self, crates=("oq3_lexer",)):
        self.mirfiles = [mirdump.dump(c) for c in crates]
        self.prog = Program(self.mirfiles, mirdump.REPO)
        self.models = Models()
        strmodel.install(self.models)
        strmodel.install_more(self.models)
        self.TK = self.prog.enums["TokenKind"][0]
        self.LK = self.prog.enums["LiteralKind"][0]
        self.f_new = self.prog.methods.get(("Cursor", None, "new"))
        self.f_adv = self.prog.methods.get(("Cursor", None, "advance_token"))
        if self.f_new is None or self.f_adv is None:
            raise RuntimeError("Cursor::new / advance_token not found in the lexer MIR")
        if "SyntaxKind" in self.prog.enums:
            vs, hasf, discs = self.prog.enums["SyntaxKind"]
            self.K = {n: (discs[i] if discs else i) for i, n in enumerate(vs)}
            self.names = {v: k for k, v in self.K.items()}

    def sym_string(self, n, prefix="c", name="S"):
        return SymStr([strmodel.fresh_char(f"{prefix}{i}") for i in range(n)], name)

    def constrain(self, ex, s):
        cache = self.__dict__.setdefault("_dom", {})
        for c in s.chars:
            if isinstance(c, SV):
                k = c.e.get_id()
                d = cache.get(k)
                if d is None:
                    d = (c.e, strmodel.char_domain(c)); cache[k] = d
                ex.add_constraint(d[1])

    def new_cursor(self, ex, s, lo=0):
        return ex.run(self.f_new, [StrSlice(s, lo, len(s.chars))])

    def advance(self, ex, cursor):
        return ex.run(self.f_adv, [Ref([cursor], 0)])

    def cursor_chars(self, cursor):
        for f in cursor:
            if isinstance(f, CharsV):
                return f
        raise Unsupported("cursor layout")

    def kind_name(self, tok):
        k = tok[0]
        return self.TK[k.idx] if isinstance(k, EnumV) else self.TK[self.prog.idx_of_disc("TokenKind", k)]

    def concrete_string(self, s, model):
        out = []
        for i, c in enumerate(s.chars):
            if isinstance(c, int):
                out.append(chr(c))
            else:
                v = model.get(c.e.decl().name(), 0x61)
                if v >= 0x110000 or 0xD800 <= v <= 0xDFFF:
                    v = 0x61
                out.append(chr(v))
        return "".join(out)
