"""Prototype path-enumerating symbolic executor over rustc MIR text (replay-based DFS)."""
import re, sys, os, time, copy
import z3
from .mirparse import parse_file, compile_block, split_top, Place, Operand, parse_operand

# ------------------------------------------------------------------ values

class SV:
    """symbolic bit-vector / bool value"""
    __slots__ = ("e", "w", "signed")
    def __init__(self, e, w, signed=False):
        self.e = e; self.w = w; self.signed = signed
    def __repr__(self):
        return f"SV({self.e})"

class SB:
    __slots__ = ("e",)
    def __init__(self, e):
        self.e = e
    def __repr__(self):
        return f"SB({self.e})"

class EnumV:
    __slots__ = ("ty", "idx", "fields")
    def __init__(self, ty, idx, fields):
        self.ty = ty; self.idx = idx; self.fields = fields
    def __repr__(self):
        return f"{self.ty}#{self.idx}{self.fields}"

class VecV:
    __slots__ = ("items",)
    def __init__(self, items):
        self.items = items
    def __repr__(self):
        return f"Vec{self.items}"

class Ref:
    __slots__ = ("cont", "key")
    def __init__(self, cont, key):
        self.cont = cont; self.key = key
    def get(self):
        return self.cont[self.key]
    def set(self, v):
        self.cont[self.key] = v
    def __repr__(self):
        return f"&{type(self.cont).__name__}[{self.key}]"

class Bomb:
    __slots__ = ("msg", "defused")
    def __init__(self, msg):
        self.msg = msg; self.defused = False

class ClosureV:
    __slots__ = ("ty", "caps", "tysubst")
    def __init__(self, ty, caps, tysubst=None):
        self.ty = ty; self.caps = caps; self.tysubst = tysubst

class FnItem:
    __slots__ = ("name",)
    def __init__(self, name):
        self.name = name

class PyFn:
    """host callback standing for a `dyn FnMut`"""
    def __init__(self, f):
        self.f = f

class Opaque:
    __slots__ = ("what",)
    def __init__(self, what):
        self.what = what
    def __repr__(self):
        return f"<{self.what}>"

MOVED = Opaque("moved")
UNINIT = Opaque("uninit")
UNIT = ()

class Panic(Exception):
    pass
class Unsupported(Exception):
    pass
class StepLimit(Exception):
    pass
class Infeasible(Exception):
    pass
class Cut(Exception):
    """exploration of this path deliberately stopped by a harness hook (state in .info)"""
    def __init__(self, info):
        Exception.__init__(self, "cut"); self.info = info
class Violation(Exception):
    """a property obligation refuted by the solver on this path"""
    def __init__(self, msg, info=None):
        Exception.__init__(self, msg); self.info = info

STD_CONSTS = {"u8::MAX": 255, "u16::MAX": 65535, "u32::MAX": 2**32 - 1, "u64::MAX": 2**64 - 1, "usize::MAX": 2**64 - 1, "u128::MAX": 2**128 - 1,
              "i32::MAX": 2**31 - 1, "i64::MAX": 2**63 - 1, "isize::MAX": 2**63 - 1, "u32::BITS": 32, "u64::BITS": 64, "usize::BITS": 64, "u128::BITS": 128}
INT_RE = re.compile(r"^(-?\d+)_(u8|u16|u32|u64|u128|usize|i8|i16|i32|i64|i128|isize)$")
WIDTH = {"u8": 8, "u16": 16, "u32": 32, "u64": 64, "u128": 128, "usize": 64, "i8": 8, "i16": 16, "i32": 32, "i64": 64, "i128": 128, "isize": 64,
         "char": 32, "bool": 1}

def ty_width(ty):
    ty = ty.strip()
    return WIDTH.get(ty)

def ty_signed(ty):
    return ty.strip().startswith("i") and ty.strip() in WIDTH

# ------------------------------------------------------------------ program

class Program:
    def __init__(self, mirfiles, srcroot):
        self.funcs = {}
        self.static_allocs = {}
        for mf in mirfiles:
            crate = os.path.basename(mf).split(".")[0]
            for k, f in parse_file(mf).items():
                f.crate = crate
                self.funcs.setdefault(k, f)
            for m in re.finditer(r"^(alloc\d+) \(static: ([A-Za-z_0-9:]+)", open(mf, encoding="utf-8").read(), flags=re.M):
                self.static_allocs[(os.path.basename(mf).split(".")[0], m.group(1))] = m.group(2)
                self.static_allocs.setdefault(m.group(1), m.group(2))
        self.srcroot = srcroot
        self.compiled = {}
        self.enums = {}       # name -> (variants list, fieldless?)
        self.enum_alts = {}
        self.structs = {}
        self.methods = {}     # (Type, trait|None, method) -> Func
        self.allocs = {}
        self._sfx = {}
        self._rcache = {}
        self._eicache = {}
        self._scan_sources()
        self._index()

    # --- source scraping for enum discriminants
    def _scan_sources(self):
        self.enum_origin = {}
        for root, _, files in os.walk(self.srcroot):
            if "/target" in root:
                continue
            for fn in files:
                if fn.endswith(".rs"):
                    m = re.search(r"crates/([a-z0-9_]+)/", root + "/")
                    self._cur_origin = (m.group(1) if m else "", fn[:-3])
                    self._scan_enum(open(os.path.join(root, fn), encoding="utf-8").read())
        self.enums.setdefault("Option", (["None", "Some"], [False, True], None))
        self.enums.setdefault("Result", (["Ok", "Err"], [True, True], None))
        self.enums.setdefault("ControlFlow", (["Continue", "Break"], [True, True], None))
        self.enums.setdefault("Ordering", (["Less", "Equal", "Greater"], [False] * 3, [-1, 0, 1]))

    def _scan_enum(self, text):
        # strip comments
        text = re.sub(r"//[^\n]*", "", text)
        text = re.sub(r"/\*.*?\*/", "", text, flags=re.S)
        for m in re.finditer(r"\benum\s+([A-Za-z_][A-Za-z0-9_]*)\s*(<[^>{]*>)?\s*\{", text):
            name = m.group(1)
            i = m.end(); depth = 1; j = i
            while depth:
                c = text[j]
                if c == '{':
                    depth += 1
                elif c == '}':
                    depth -= 1
                j += 1
            body = text[i:j - 1]
            vs, hasf, discs = [], [], []
            cur = 0
            for item in split_top(body):
                item = re.sub(r"#\[[^\]]*\]", "", item).strip()
                if not item:
                    continue
                mm = re.match(r"^([A-Za-z_][A-Za-z0-9_]*)\s*(.*)$", item, flags=re.S)
                if not mm:
                    continue
                rest = mm.group(2).strip()
                d = None
                dm = re.search(r"=\s*(-?\d+)\s*$", rest)
                if dm and not rest.startswith(("(", "{")):
                    d = int(dm.group(1))
                if d is not None:
                    cur = d
                vs.append(mm.group(1)); hasf.append(rest.startswith(("(", "{"))); discs.append(cur)
                cur += 1
            if name not in self.enums:
                self.enums[name] = (vs, hasf, discs)
                self.enum_origin[name] = getattr(self, "_cur_origin", ("", ""))
            elif self.enums[name][0] != vs:
                # several enums share a name across crates (ast::Stmt / asg::Stmt): keep all, pick by variant
                alts = self.enum_alts.setdefault(name, [name])
                if not any(self.enums[k][0] == vs for k in alts):
                    key = f"{name}#{len(alts)}"
                    self.enums[key] = (vs, hasf, discs); alts.append(key)
                    self.enum_origin[key] = getattr(self, "_cur_origin", ("", ""))

    def enum_info(self, path, crate=None):
        c = self._eicache.get((path, crate), 0)
        if c == 0:
            c = self._enum_info(path, crate)
            self._eicache[(path, crate)] = c
        return c

    def _enum_info(self, path, crate=None):
        """path like `syntax_kind_enum::SyntaxKind::SEMICOLON` or `Option::<T>::Some` -> (enumname, variantidx)"""
        p = re.sub(r"::<.*>(?=::|$)", "", strip_generics(path))
        segs = p.split("::")
        if len(segs) >= 2 and segs[-2] in self.enums:
            cands = []
            for key in self.enum_alts.get(segs[-2], [segs[-2]]):
                vs, hasf, discs = self.enums[key]
                if segs[-1] in vs:
                    cands.append(key)
            if len(cands) > 1:
                # same enum name and variant in several crates/modules: choose by the path's module or crate, else by the crate of the code that is running
                def score(key):
                    oc, om = self.enum_origin.get(key, ("", ""))
                    sc = 0
                    if om in segs[:-2]: sc += 4
                    if oc in segs[:-2]: sc += 2
                    if crate and oc == crate and not any(x.startswith("oq3_") for x in segs[:-2]): sc += 1
                    return sc
                cands.sort(key=score, reverse=True)
            if cands:
                key = cands[0]
                return key, self.enums[key][0].index(segs[-1])
        return None

    def fieldless(self, ename):
        return not any(self.enums[ename][1])

    def disc_of(self, ename, idx):
        vs, hasf, discs = self.enums[ename]
        return discs[idx] if discs else idx

    def idx_of_disc(self, ename, d):
        vs, hasf, discs = self.enums[ename]
        if discs:
            return discs.index(d)
        return d

    # --- method index
    def _index(self):
        self._inherent = set()
        self.impl_hdr = {}
        self._fn_generics = None
        self.methods_all = {}
        for raw, f in self.funcs.items():
            m = re.search(r"<impl at ([^:>]+):(\d+):(\d+): (\d+):(\d+)>::([A-Za-z_0-9]+)((?:::\{closure#\d+\})*)$", raw)
            if not m:
                continue
            file, l1, c1, l2, c2, meth, clos = m.groups()
            if clos:
                continue
            hdr = self._src_span(file, int(l1), int(c1), int(l2), int(c2))
            trait = None; selfty = None
            if hdr is None:
                continue
            self.impl_hdr[raw] = (hdr, file, int(l1))
            if hdr.startswith("impl"):
                h = re.sub(r"^impl\s*(<[^>]*>)?\s*", "", hdr)
                if " for " in h:
                    t, s = h.split(" for ", 1)
                    trait = last_seg(t); selfty = last_seg(s)
                else:
                    selfty = last_seg(h)
            else:
                trait = hdr.strip()
                a0 = f.argtypes[0] if f.argtypes else f.ret
                selfty = last_seg(a0.lstrip("&").replace("mut ", ""))
            self.methods_all.setdefault((selfty, trait, meth), []).append((f, file))
            self.methods.setdefault((selfty, trait, meth), f)
            if trait is None:
                self.methods[(selfty, None, meth)] = f          # an inherent method wins over a trait method of the same name
                self._inherent.add((selfty, meth))
            elif (selfty, meth) not in self._inherent:
                self.methods.setdefault((selfty, None, meth), f)
            if not hdr.startswith("impl") and f.ret:
                # derive-generated impl (the span is the derive name): Self may only occur in the return type (`From::from`)
                rs = last_seg(f.ret.lstrip("&").replace("mut ", ""))
                if rs and rs != selfty:
                    self.methods.setdefault((rs, None, meth), f)

    def _src_span(self, file, l1, c1, l2, c2):
        p = os.path.join(self.srcroot, "..", file) if not os.path.exists(os.path.join(self.srcroot, file)) else os.path.join(self.srcroot, file)
        p = os.path.normpath(os.path.join(self.srcroot, file))
        if not os.path.exists(p):
            return None
        lines = open(p, encoding="utf-8").read().split("\n")
        if l1 == l2:
            return lines[l1 - 1][c1 - 1:c2 - 1]
        return lines[l1 - 1][c1 - 1:]

    def resolve(self, callee, crate=None):
        r = self._rcache.get((callee, crate), 0)
        if r == 0:
            r = self._resolve(callee)
            r = self._disambiguate(callee, r, crate)
            self._rcache[(callee, crate)] = r
        return r

    def _disambiguate(self, callee, r, crate):
        """several crates define a type of the same name (ast::Expr / asg::Expr): pick the impl by the type's path"""
        if r is None:
            return r
        m = re.match(r"^<(.*) as (.*)>::([A-Za-z_0-9]+)(::<.*>)?$", callee)
        if m:
            selfpath = strip_generics(m.group(1).lstrip("&").replace("mut ", ""))
            key = (last_seg(selfpath), last_seg(m.group(2)), m.group(3))
            segs = selfpath.split("::")[:-1]
        else:
            m2 = re.match(r"^(.*::)?<impl (.*)>::([A-Za-z_0-9]+)(::<.*>)?$", callee)
            if m2:
                selfpath = strip_generics(m2.group(2))
                key = (last_seg(selfpath), None, m2.group(3))
                segs = [x for x in (m2.group(1) or "").split("::") if x] + selfpath.split("::")[:-1]
            else:
                sg = strip_generics(callee).split("::")
                if len(sg) < 2 or not sg[-2][:1].isupper():
                    return r
                key = (sg[-2], None, sg[-1]); segs = sg[:-2]
        cands = self.methods_all.get(key)
        if key[1] is None and cands:
            inh = [c for c in cands if (key[0], key[2]) in self._inherent and c[0] in [self.methods.get((key[0], None, key[2]))] + [x[0] for x in cands]]
        if not cands or len(cands) < 2:
            return r

        def score(c):
            f, file = c
            base = os.path.basename(file)[:-3]
            sc = 0
            if base in segs: sc += 4
            if getattr(f, "crate", "") in segs: sc += 2
            if crate and getattr(f, "crate", None) == crate and not any(x.startswith("oq3_") for x in segs): sc += 1
            return sc
        best = sorted(cands, key=score, reverse=True)
        return best[0][0]

    def _resolve(self, callee):
        f = self.funcs.get(callee)
        if f is not None:
            return f
        c = callee
        m = re.match(r"^<(.*) as (.*)>::([A-Za-z_0-9]+)(::<.*>)?$", c)
        if m and m.group(1).startswith("&"):
            return None     # std's forwarding impls on references (`impl PartialEq for &A`): handled by a model that unwraps
        if m and strip_generics(m.group(1)).split("::")[0] in EXTERN_CRATES and last_seg(m.group(2)) not in self.repo_traits():
            return None     # `<std::string::String as Clone>::clone` must never hit a repository type that is also called String
        if m and last_seg(m.group(2)) in ("Into", "From") and m.group(3) in ("into", "from"):
            # `<X as Into<Y>>::into` is std's blanket impl over `<Y as From<X>>::from`
            if m.group(3) == "into":
                src = last_seg(m.group(1)); dm = re.search(r"Into<(.*)>$", m.group(2)); dst = last_seg(dm.group(1)) if dm else None
            else:
                dst = last_seg(m.group(1)); dm = re.search(r"From<(.*)>$", m.group(2)); src = last_seg(dm.group(1).lstrip("&")) if dm else None
            cands = [f for raw, f in self.funcs.items() if f.kind == "fn" and raw.split("::")[-1] == "from" and f.nargs == 1
                     and last_seg(f.argtypes[0].lstrip("&")) == src and last_seg(f.ret) == dst]
            return cands[0] if len(cands) == 1 else None
        if m:
            key = (last_seg(m.group(1).lstrip("&").replace("mut ", "")), last_seg(m.group(2)), m.group(3))
            r = self.methods.get(key)
            if r is not None:
                # the trait's own type arguments must agree: `<u32 as TryFrom<u128>>` is not `impl TryFrom<&TExpr> for u32`
                ca = re.search(r"<(.*)>$", m.group(2))
                hdr = self.impl_hdr.get(r.rawname)
                if ca and hdr and hdr[0].startswith("impl") and " for " in hdr[0]:
                    ia = re.search(r"<(.*)>\s*$", re.sub(r"^impl\s*(<[^>]*>)?\s*", "", hdr[0]).split(" for ")[0].strip())
                    if ia:
                        norm = lambda t: [last_seg(x.strip().lstrip("&").replace("mut ", "")) for x in split_top(t) if not x.strip().startswith("'")]
                        if norm(ca.group(1)) != norm(ia.group(1)) and not any(len(x) == 1 and x.isupper() for x in norm(ia.group(1))):
                            r = None
            if r is None and key[1] in ("From", "Into", "Not", "Clone", "PartialEq", "Default"):
                r = self.methods.get((key[0], None, key[2]))
            if r is None and key[0] in ("Result", "Option", "Vec", "Box") and key[1] in self.repo_traits():
                # impl on a type alias (`impl Tr for SymbolRecordResult<'_>` = Result<..>): unique (trait, method) of the repository
                cands = {id(f): f for (sty, tr, me), f in self.methods.items() if tr == key[1] and me == key[2]}
                if len(cands) == 1:
                    r = list(cands.values())[0]
            return r
        m = re.match(r"^(?:.*::)?<impl (.*)>::([A-Za-z_0-9]+)(::<.*>)?$", c)
        if m:
            st = last_seg(m.group(1))
            r = self.methods.get((st, None, m.group(2)))
            if r is None:
                # rustc glues path segments in this position: `<impl cursorCursor<'_>>::bump`
                cands = [f for (sty, tr, me), f in self.methods.items() if tr is None and me == m.group(2) and sty and st.endswith(sty)]
                if len(set(id(x) for x in cands)) == 1:
                    r = cands[0]
            return r
        sg = strip_generics(c)
        segs = sg.split("::")
        if len(segs) >= 2:
            f = self.methods.get((segs[-2], None, segs[-1]))
            if f is not None:
                return f
        # generic free fn: name::<T>
        f = self.funcs.get(sg)
        if f is not None:
            return f
        if len(segs) >= 2 and segs[-2][:1].isupper():
            return None         # a method of a type that has no such method in the repository: an external type
        if segs[0] in EXTERN_CRATES:
            return None
        return self.suffix_match(sg)

    def unit_structs(self):
        t = self.__dict__.get("_unit_structs")
        if t is None:
            t = set()
            for root, _, files in os.walk(self.srcroot):
                if "/target" in root:
                    continue
                for fn in files:
                    if fn.endswith(".rs"):
                        try:
                            t |= set(re.findall(r"\bstruct\s+([A-Z][A-Za-z0-9_]*)\s*;", open(os.path.join(root, fn), encoding="utf-8").read()))
                        except OSError:
                            pass
            self._unit_structs = t
        return t

    def repo_traits(self):
        t = self.__dict__.get("_repo_traits")
        if t is None:
            t = set()
            for root, _, files in os.walk(self.srcroot):
                if "/target" in root:
                    continue
                for fn in files:
                    if fn.endswith(".rs"):
                        try:
                            t |= set(re.findall(r"\btrait\s+([A-Z][A-Za-z0-9_]*)", open(os.path.join(root, fn), encoding="utf-8").read()))
                        except OSError:
                            pass
            self._repo_traits = t
        return t

    # ---- generic instantiation: type-parameter names are read from the source declarations
    def _scan_fn_generics(self):
        idx = {}
        for root, _, files in os.walk(self.srcroot):
            if "/target" in root or "/tests" in root:
                continue
            for fn in files:
                if not fn.endswith(".rs"):
                    continue
                try:
                    text = open(os.path.join(root, fn), encoding="utf-8").read()
                except OSError:
                    continue
                for m in re.finditer(r"\bfn\s+([a-z_][A-Za-z0-9_]*)\s*<", text):
                    i = m.end(); depth = 1
                    while i < len(text) and depth:
                        ch = text[i]
                        if ch == "<":
                            depth += 1
                        elif ch == ">" and text[i - 1] != "-":
                            depth -= 1
                        i += 1
                    inner = text[m.end():i - 1]
                    names = []
                    for part in split_top(inner):
                        part = part.strip()
                        if not part or part.startswith("'") or part.startswith("const "):
                            continue
                        names.append(part.split(":")[0].strip())
                    if names:
                        idx.setdefault(m.group(1), [])
                        if names not in idx[m.group(1)]:
                            idx[m.group(1)].append(names)
        return idx

    @staticmethod
    def _type_args(t):
        """'ast::AstChildren<nodes::Stmt>' -> ('AstChildren', ['nodes::Stmt'])"""
        t = t.strip().lstrip("&").replace("mut ", "")
        m = re.match(r"^([A-Za-z_0-9:]+?)(?:::)?<(.*)>$", t)
        if not m:
            return last_seg(t), []
        return last_seg(m.group(1)), [a for a in split_top(m.group(2)) if not a.startswith("'")]

    def bind_generics(self, callee, f):
        key = ("bind", callee, f.rawname)
        r = self._rcache.get(key, 0)
        if r != 0:
            return r
        r = {}
        hdr = self.impl_hdr.get(f.rawname)
        selfty_call = None
        m = re.match(r"^<(.*) as ([^>]*(?:<.*>)?)>::([A-Za-z_0-9]+)(::<.*>)?$", callee)
        if m:
            selfty_call = m.group(1)
        else:
            m2 = re.match(r"^(.*)::([A-Za-z_0-9]+)(::<.*>)?$", callee)
            if m2 and ("<" in m2.group(1)):
                selfty_call = m2.group(1)
        if hdr is not None and hdr[0].startswith("impl"):
            gm = re.match(r"^impl\s*<([^>]*)>\s*(.*)$", hdr[0])
            if gm:
                names = [p.split(":")[0].strip() for p in split_top(gm.group(1)) if p.strip() and not p.strip().startswith("'")]
                rest = gm.group(2)
                pat = rest.split(" for ", 1)[1] if " for " in rest else rest
                pat = pat.split(" where ")[0].rstrip("{ ").strip()
                if selfty_call is not None and names:
                    pn, pargs = self._type_args(pat)
                    cn, cargs = self._type_args(re.sub(r"::<", "<", selfty_call))
                    if pn == cn and len(pargs) == len(cargs):
                        for pa, ca in zip(pargs, cargs):
                            if pa.strip() in names:
                                r[pa.strip()] = ca.strip()
        # method-level / free-function generics from the trailing ::<..>
        tm = re.search(r"::<(.*)>$", callee)
        if tm:
            if self._fn_generics is None:
                self._fn_generics = self._scan_fn_generics()
            fname = f.rawname.split("::")[-1]
            args = [a.strip() for a in split_top(tm.group(1)) if not a.strip().startswith("'")]
            cands = [n for n in self._fn_generics.get(fname, []) if len(n) == len(args)]
            if len(cands) >= 1:
                for n_, a_ in zip(cands[0], args):
                    if not a_.startswith("{closure") and not a_.startswith("fn("):
                        r[n_] = a_
        r = r or None
        self._rcache[key] = r
        return r

    def trait_default(self, callee):
        """`<T as Trait>::m` with no impl of m for T: the trait's default body (generic over Self), and T"""
        r = self._rcache.get(("default", callee), 0)
        if r != 0:
            return r
        r = None
        m = re.match(r"^<(.*) as ([A-Za-z_0-9:]+)(<.*>)?>::([A-Za-z_0-9]+)(::<.*>)?$", callee)
        if m:
            tr = last_seg(m.group(2)); me = m.group(4)
            cands = [f for raw, f in self.funcs.items() if f.kind == "fn" and "<impl" not in raw and raw.split("::")[-2:] == [tr, me]]
            if len(cands) == 1:
                r = (cands[0], m.group(1))
        self._rcache[("default", callee)] = r
        return r

    def suffix_match(self, t):
        c = self._sfx.get(t, 0)
        if c != 0:
            return c
        last = t.split("::")[-1]
        cands = [f for raw, f in self.funcs.items() if raw.split("::")[-1] == last and "<impl" not in raw and (t.endswith("::" + raw) or raw.endswith("::" + t))]
        r = cands[0] if len(cands) == 1 else None
        self._sfx[t] = r
        return r

    def code(self, f):
        c = self.compiled.get(f.rawname)
        if c is None:
            c = {b: compile_block(raw) for b, raw in f.blocks.items()}
            self.compiled[f.rawname] = c
        return c

EXTERN_CRATES = {"std", "core", "alloc", "hashbrown", "rowan", "triomphe", "text_size", "unicode_xid", "unicode_properties", "drop_bomb",
                 "limit", "ra_ap_limit", "smol_str", "ariadne", "countme", "rustc_hash", "itertools", "boolenum", "foldhash", "memoffset"}


def strip_generics(s):
    out = []; depth = 0; i = 0
    while i < len(s):
        c = s[i]
        if c == '<':
            depth += 1
        elif c == '>' and not (i > 0 and s[i - 1] == '-'):
            depth -= 1
        elif depth == 0:
            out.append(c)
        i += 1
    r = "".join(out)
    r = re.sub(r"::(?=::)", "", r)
    return r.rstrip(":")

def last_seg(t):
    t = strip_generics(t.strip())
    t = t.split("::")[-1]
    return t.strip()

# ------------------------------------------------------------------ executor

class Frame:
    __slots__ = ("f", "locals", "code")

class Glob:
    def __init__(self):
        self.fcache = {}
        self.vcache = {}
        self.keep = []
        self.cache_hits = 0
        self.swcache = {}
        self.solver_time = 0.0
        self.queries = 0
    def vars_of(self, e):
        i = e.get_id()
        r = self.vcache.get(i)
        if r is None:
            r = set()
            if z3.is_const(e):
                if e.decl().kind() == z3.Z3_OP_UNINTERPRETED:
                    r.add(e.decl().name())
            else:
                for ch in e.children():
                    r |= self.vars_of(ch)
            r = frozenset(r)
            self.vcache[i] = r
            self.keep.append(e)
        return r

SLOWQ = float(os.environ.get("VERIF_SLOWQ", 0))
_SLOWN = [0]


def _slow_dump(sol, dt, r, stack):
    _SLOWN[0] += 1
    p = os.path.join(os.environ.get("VERIF_WORK", "/verif/.work"), "dbg", f"slowq_{os.getpid()}_{_SLOWN[0]}.smt2")
    os.makedirs(os.path.dirname(p), exist_ok=True)
    open(p, "w").write(f"; {dt:.1f}s {r} {stack}\n" + sol.to_smt2())
    sys.stderr.write(f"SLOW QUERY {dt:.1f}s {r} -> {p} {stack}\n")


INC_TIMEOUT_MS = int(os.environ.get("VERIF_INC_TIMEOUT_MS", 1500))


def solve(sol, glob=None):
    """check() on a solver that is in incremental mode (push/pop): z3's incremental core has no bit-vector preprocessing and
    can take minutes on arithmetic that the default tactic decides at once.  The core gets a short timeout; on `unknown`
    the same assertions are decided by a fresh, non-incremental solver (full preprocessing, no timeout).
    returns (result, model or None)"""
    r = sol.check()
    if r == z3.unknown:
        s2 = z3.Solver()
        s2.add(sol.assertions())
        r = s2.check()
        if glob is not None:
            glob.fallbacks = getattr(glob, "fallbacks", 0) + 1
        if XCHECK:
            cross_check(s2, r, glob)
        return r, (s2.model() if r == z3.sat else None)
    if XCHECK:
        cross_check(sol, r, glob)
    return r, (sol.model() if r == z3.sat else None)


XCHECK = int(os.environ.get("VERIF_XCHECK", 0))      # 1 of N queries is re-decided by cvc5 (second solver on the same SMT-LIB text)
_XN = [0]


def cross_check(sol, r, glob):
    _XN[0] += 1
    if _XN[0] % XCHECK:
        return
    import subprocess, tempfile
    text = "(set-logic ALL)\n" + sol.to_smt2()
    try:
        with tempfile.NamedTemporaryFile("w", suffix=".smt2", dir=os.path.join(os.environ.get("VERIF_WORK", "/verif/.work")), delete=False) as f:
            f.write(text); path = f.name
        out = subprocess.run(["cvc5", "--lang", "smt2", "--tlimit=20000", path], stdout=subprocess.PIPE, stderr=subprocess.PIPE, timeout=40).stdout.decode(errors="replace")
    except Exception as e:
        out = "error " + repr(e)
    finally:
        try:
            os.unlink(path)
        except Exception:
            pass
    verdict = out.strip().split("\n")[-1].strip() if out.strip() else "none"
    st = glob.__dict__.setdefault("xcheck", {"agree": 0, "unknown": 0, "disagree": []}) if glob is not None else None
    if st is None:
        return
    if "(error" in out or verdict not in ("sat", "unsat"):
        st["unknown"] += 1
    elif verdict == str(r):
        st["agree"] += 1
    else:
        st["disagree"].append((str(r), verdict, text[:2000]))


class Exec:
    def __init__(self, prog, models, max_steps=300000):
        self.glob = Glob()
        self.prog = prog
        self.models = models
        self.max_steps = max_steps
        self.hooks = {}
        self.inc = z3.Solver()
        self.inc.set("timeout", INC_TIMEOUT_MS)
        self.inc_stack = []      # constraints asserted in self.inc, one scope each (kept alive here)
        self.inc_pos = 0
        self.use_inc = True
        self.reset([])

    def reset(self, prefix):
        self.prefix = prefix
        self.decisions = []      # taken decisions this run
        self.pending = []        # alternative prefixes discovered
        self.steps = 0
        self.depth = 0
        self.stack = []
        self.subst_stack = [None]
        self.solver_calls = 0
        self.pinned = []
        self.obligations = 0
        self.inc_pos = 0
        self.pc = []

    # ---- symbolic choice
    def choose(self, options, site=None):
        """options: list of (label, z3 bool constraint), mutually exclusive & exhaustive.  Returns chosen label."""
        i = len(self.decisions)
        if i < len(self.prefix):
            lab = self.prefix[i]
            for l, c in options:
                if l == lab:
                    self.add_constraint(c)
                    self.decisions.append(lab)
                    return lab
            raise RuntimeError(f"replay divergence at {i}: want {lab} have {[l for l, _ in options]} in {self.stack[-2:]}")
        feas = self.feasible(options)
        if not feas:
            raise Infeasible()
        for l, c in feas[1:]:
            self.pending.append(self.decisions + [l])
        l, c = feas[0]
        self.add_constraint(c)
        self.decisions.append(l)
        return l

    def feasible(self, options):
        G = self.glob
        vs = set()
        for _, c in options:
            vs |= G.vars_of(c)
        # closure over constraints sharing variables
        rel = []
        changed = True
        pool = list(self.pc)
        while changed:
            changed = False
            rest = []
            for c, cv in pool:
                if cv & vs:
                    rel.append(c); 
                    if not cv <= vs:
                        vs |= cv; changed = True
                else:
                    rest.append((c, cv))
            pool = rest
        key = (tuple(c.get_id() for _, c in options), frozenset(c.get_id() for c in rel))
        hit = G.fcache.get(key)
        if hit is not None:
            G.cache_hits += 1
            return [options[k] for k in hit]
        if self.use_inc:
            self.inc_sync()
            sol = self.inc
        else:
            sol = z3.Solver()
            sol.set("timeout", INC_TIMEOUT_MS)
            for c in rel:
                sol.add(c)
        remaining = list(range(len(options)))
        feas = []
        while remaining:
            sol.push()
            sol.add(z3.Or([options[k][1] for k in remaining]))
            self.solver_calls += 1
            _t = time.time()
            r, m = solve(sol, G)
            G.solver_time += time.time() - _t; G.queries += 1
            if SLOWQ and time.time() - _t > SLOWQ:
                _slow_dump(sol, time.time() - _t, r, self.stack[-3:])
            if r == z3.unsat:
                sol.pop(); break
            if r != z3.sat:
                sol.pop()
                raise Unsupported("solver unknown")
            hitk = None
            for k in remaining:
                if z3.is_true(m.eval(options[k][1], model_completion=True)):
                    hitk = k; break
            sol.pop()
            if hitk is None:
                raise Unsupported("model does not select an option")
            feas.append(hitk); remaining.remove(hitk)
        feas.sort()
        G.fcache[key] = feas
        G.keep.append([c for _, c in options]); G.keep.append(rel)
        return [options[k] for k in feas]

    def add_constraint(self, c):
        self.pc.append((c, self.glob.vars_of(c)))
        if self.use_inc:
            i = self.inc_pos
            st = self.inc_stack
            if i < len(st) and st[i].get_id() == c.get_id():
                self.inc_pos = i + 1
                return
            if len(st) > i:
                self.inc.pop(len(st) - i)
                del st[i:]
            self.inc.push()
            self.inc.add(c)
            st.append(c)
            self.inc_pos = i + 1

    def inc_sync(self):
        st = self.inc_stack
        if len(st) > self.inc_pos:
            self.inc.pop(len(st) - self.inc_pos)
            del st[self.inc_pos:]

    def simp(self, c):
        return c

    def relevant(self, e):
        """path-condition conjuncts transitively sharing variables with e"""
        G = self.glob
        vs = set(G.vars_of(e))
        rel = []
        pool = list(self.pc)
        changed = True
        while changed:
            changed = False
            rest = []
            for c, cv in pool:
                if cv & vs:
                    rel.append(c)
                    if not cv <= vs:
                        vs |= cv; changed = True
                else:
                    rest.append((c, cv))
            pool = rest
        return rel

    def check_sat(self, extra):
        """is pc /\ extra satisfiable?  returns model or None"""
        if self.use_inc:
            self.inc_sync()
            sol = self.inc
            sol.push()
            sol.add(extra)
            _t = time.time()
            r, m = solve(sol, self.glob)
            self.glob.solver_time += time.time() - _t; self.glob.queries += 1
            if SLOWQ and time.time() - _t > SLOWQ:
                _slow_dump(sol, time.time() - _t, r, self.stack[-3:])
            self.solver_calls += 1
            sol.pop()
            if r == z3.unknown:
                raise Unsupported("solver unknown")
            return m
        sol = z3.Solver()
        for c in self.relevant(extra):
            sol.add(c)
        sol.add(extra)
        _t = time.time()
        r = sol.check()
        self.glob.solver_time += time.time() - _t; self.glob.queries += 1
        self.solver_calls += 1
        if r == z3.unknown:
            raise Unsupported("solver unknown")
        return sol.model() if r == z3.sat else None

    def prove(self, cond, msg, info=None):
        """obligation: cond holds for every value satisfying the path condition"""
        self.obligations += 1
        if isinstance(cond, SB):
            cond = cond.e
        if cond is True:
            return
        if cond is False:
            raise Violation(msg, info)
        if z3.is_true(cond):
            return
        m = self.check_sat(z3.Not(cond))
        if m is not None:
            self.add_constraint(z3.Not(cond))
            raise Violation(msg, info)

    def model(self):
        """a model of the whole path condition (dict name -> int/bool)"""
        sol = z3.Solver()
        for c, _ in self.pc:
            sol.add(c)
        _t = time.time()
        r = sol.check()
        self.glob.solver_time += time.time() - _t; self.glob.queries += 1
        if r != z3.sat:
            return None
        m = sol.model()
        out = {}
        for d in m.decls():
            v = m[d]
            if z3.is_bv_value(v):
                out[d.name()] = v.as_long()
            elif z3.is_true(v) or z3.is_false(v):
                out[d.name()] = z3.is_true(v)
        return out

    def branch_bool(self, b):
        if isinstance(b, SB):
            e = b.e
            if z3.is_true(e):
                return True
            if z3.is_false(e):
                return False
            ck = (e.get_id(), "b")
            opts = self.glob.swcache.get(ck)
            if opts is None:
                opts = [(1, e), (0, z3.Not(e))]
                self.glob.swcache[ck] = opts; self.glob.keep.append(e)
            return self.choose(opts) == 1
        if isinstance(b, SV):
            return self.choose([(1, b.e != 0), (0, b.e == 0)]) == 1
        return bool(b)

    def concretize(self, v, what="value"):
        if isinstance(v, SV):
            e = z3.simplify(v.e)
            if z3.is_bv_value(e):
                return e.as_long()
            # enumerate feasible values (small domains only)
            raise Unsupported("symbolic " + what)
        return v

    # ---- calls
    def call(self, callee, args):
        f = self.prog.resolve(callee, self.cur_crate())
        if f is not None and self.models.skip_re is not None and self.models.skip_re.search(f.rawname):
            f = None
        if f is None or callee in self.models.force:
            h = self.models.lookup(callee)
            if h is None:
                d = self.prog.trait_default(callee)
                if d is not None:
                    return self.run(d[0], args, tysubst={"Self": d[1]})
                raise Unsupported("call " + callee)
            return h(self, callee, args)
        tys = self.prog.bind_generics(callee, f) if ("<" in callee) else None
        return self.run(f, args, tysubst=tys)

    def cur_crate(self):
        if self.stack:
            f = self.prog.funcs.get(self.stack[-1])
            return getattr(f, "crate", None)
        return None

    def subst_types(self, callee, tysubst):
        key = (callee, tuple(sorted(tysubst.items())))
        r = self.prog._rcache.get(("subst", key))
        if r is None:
            r = callee
            for name, ty in tysubst.items():
                if name in r:
                    r = re.sub(r"(?<![A-Za-z0-9_:])%s(?![A-Za-z0-9_])" % re.escape(name), ty, r)
            self.prog._rcache[("subst", key)] = r
        return r

    def call_closure(self, fv, args):
        """fv: ClosureV | FnItem | PyFn ; args: list"""
        if isinstance(fv, Ref):
            inner = fv.get()
            if isinstance(inner, (ClosureV, FnItem, PyFn)):
                return self.call_closure2(inner, fv, args)
        return self.call_closure2(fv, fv, args)

    def call_closure2(self, fv, selfarg, args):
        if isinstance(fv, PyFn):
            return fv.f(*args)
        if isinstance(fv, FnItem):
            return self.call(fv.name, args)
        if isinstance(fv, ClosureV):
            cc = self.prog.__dict__.setdefault("_closure_cache", {})
            hit = cc.get(fv.ty)
            if hit is None:
                hit = [f for raw, f in self.prog.funcs.items() if "{closure#" in raw and f.argtypes and fv.ty in f.argtypes[0]][:1]
                cc[fv.ty] = hit
            for f in hit:
                if True:
                    a0 = selfarg
                    if f.argtypes[0].startswith("&") and not isinstance(a0, Ref):
                        a0 = Ref([fv], 0)
                    if not f.argtypes[0].startswith("&") and isinstance(a0, Ref):
                        a0 = a0.get()
                    return self.run(f, [a0] + list(args), tysubst=fv.tysubst if fv.tysubst is not None else self.subst_stack[-1])
            raise Unsupported("closure body " + fv.ty)
        raise Unsupported("call of " + repr(fv))

    def run(self, f, args, tysubst=None):
        if f.kind == "constval":
            return self.const_value(f.src, f.ret)
        if self.hooks:
            hk = self.hooks.get(f.rawname)
            if hk is not None:
                hk(self, f, args)
        self.depth += 1
        self.subst_stack.append(tysubst)
        if self.depth > 400:
            self.subst_stack.pop(); self.depth -= 1
            raise StepLimit("recursion depth")
        code = self.prog.code(f)
        L = {}
        for i, a in enumerate(args):
            L[i + 1] = a
        self.stack.append(f.rawname)
        bb = 0
        try:
            while True:
                for st in code[bb]:
                    self.steps += 1
                    if self.steps > self.max_steps:
                        raise StepLimit("steps")
                    k = st[0]
                    if k == "assign":
                        v = self.rvalue(st[2], L, f)
                        self.store(st[1], L, v)
                    elif k == "call":
                        argv = [self.operand(a, L) for a in st[3]]
                        callee = st[2]
                        if tysubst:
                            callee = self.subst_types(callee, tysubst)
                        if callee.startswith(("move _", "copy _")):
                            fv = self.operand(Operand(callee[:4], Place(int(callee[6:]), [])), L)
                            r = self.call_closure(fv, argv)
                        else:
                            r = self.call(callee, argv)
                        if st[4] is None:
                            raise Panic("diverging call returned: " + callee)
                        self.store(st[1], L, r)
                        bb = st[4]; break
                    elif k == "goto":
                        bb = st[1]; break
                    elif k == "switch":
                        v = self.operand(st[1], L)
                        bb = self.switch(v, st[2], st[3]); break
                    elif k == "return":
                        return L.get(0, UNIT)
                    elif k == "assert":
                        c = self.operand(st[1], L)
                        ok = self.branch_bool(c) == st[2]
                        if not ok:
                            raise Panic("assert: " + st[3])
                        bb = st[4]; break
                    elif k == "drop":
                        self.drop_value(self.load(st[1], L))
                        bb = st[2]; break
                    elif k == "unreachable":
                        raise Panic("reached MIR `unreachable`")
                    elif k == "resume":
                        raise Panic("resume")
                    elif k == "setdiscr":
                        raise Unsupported("setdiscr")
                    else:
                        raise Unsupported("stmt " + k)
                else:
                    raise Unsupported("fallthrough")
        except (Panic, StepLimit, Unsupported, Violation) as e:
            if getattr(e, "stack", None) is None:
                e.stack = list(self.stack)
            raise
        finally:
            self.depth -= 1
            self.stack.pop()
            self.subst_stack.pop()

    def switch(self, v, targets, other):
        if type(v).__name__ == "LenV":
            v = v.to_sv()
        if isinstance(v, EnumV):
            v = self.prog.disc_of(v.ty, v.idx)
        if isinstance(v, bool):
            v = int(v)
        if isinstance(v, SB):
            v = SV(z3.If(v.e, z3.BitVecVal(1, 8), z3.BitVecVal(0, 8)), 8)
        if isinstance(v, SV):
            e = v.e
            if z3.is_bv_value(e):
                v = e.as_long()
            else:
                ck = (e.get_id(), id(targets))
                opts = self.glob.swcache.get(ck)
                if opts is None:
                    by = {}
                    for val, bbn in targets:
                        by.setdefault(bbn, []).append(val)
                    opts = []
                    for bbn, vals in by.items():
                        cs = [e == z3.BitVecVal(val, v.w) for val in vals]
                        opts.append((bbn, cs[0] if len(cs) == 1 else z3.Or(cs)))
                    if other is not None:
                        opts.append((-1, z3.And([e != z3.BitVecVal(val, v.w) for val, _ in targets])))
                    self.glob.swcache[ck] = opts
                    self.glob.keep.append(e)
                lab = self.choose(opts)
                if lab == -1:
                    return other
                return lab
        if not isinstance(v, int):
            raise Unsupported("switch on " + repr(v))
        for val, bbn in targets:
            if val == v:
                return bbn
        if other is None:
            raise Panic("switch no target")
        return other

    # ---- places
    def resolve_place(self, pl, L):
        cont, key = L, pl.local
        for pr in pl.proj:
            t = pr[0]
            if t == "deref":
                v = cont[key]
                if isinstance(v, Ref):
                    cont, key = v.cont, v.key
                elif getattr(v, "ref_like", False):
                    pass        # &[u8] / &str / &[T] values are represented by the view object itself
                else:
                    raise Unsupported("deref of " + repr(v))
            elif t == "field":
                v = cont[key]
                if isinstance(v, Ref) and ("std::ptr::Unique<" in pr[2] or "NonNull<" in pr[2] or "*const " in pr[2]):
                    continue        # Box<T> = {Unique{NonNull{ptr}}}: a Box value is represented by the reference itself
                if isinstance(v, EnumV):
                    cont, key = v.fields, pr[1]
                elif isinstance(v, list):
                    cont, key = v, pr[1]
                elif isinstance(v, ClosureV):
                    cont, key = v.caps, pr[1]
                else:
                    raise Unsupported(f"field {pr[1]} of {v!r} in {self.stack[-1]}")
            elif t == "downcast":
                pass
            elif t == "index":
                v = cont[key]
                if hasattr(v, "index_sym"):
                    cont, key = v.index_sym(self, L[pr[1]])
                    continue
                idx = self.concretize(L[pr[1]], "index")
                items = v.items if isinstance(v, VecV) else v
                if idx >= len(items):
                    raise Panic("index out of bounds")
                cont, key = items, idx
            elif t == "cindex":
                v = cont[key]
                items = v.items if isinstance(v, VecV) else v
                idx = len(items) - pr[1] if pr[3] else pr[1]
                cont, key = items, idx
            else:
                raise Unsupported("proj " + t)
        return cont, key

    def load(self, pl, L):
        cont, key = self.resolve_place(pl, L)
        try:
            return cont[key]
        except (KeyError, IndexError):
            raise Unsupported(f"load of unset place {pl} in {self.stack[-1]}")

    def store(self, pl, L, v):
        if not pl.proj:
            L[pl.local] = v
            return
        cont, key = self.resolve_place(pl, L)
        if isinstance(cont, list) and key == len(cont):
            cont.append(v)
        else:
            cont[key] = v

    def operand(self, op, L):
        if op.mode == "const":
            ts = self.subst_stack[-1]
            if ts:
                return self.const_value(self.subst_types(op.const, ts), None)
            return self.const_value(op.const, None)
        v = self.load(op.place, L)
        if v is MOVED:
            raise Unsupported(f"use of moved value {op.place} in {self.stack[-1]}")
        if op.mode == "copy":
            if isinstance(v, (list, EnumV, VecV)):
                return copy.deepcopy(v) if not has_ref(v) else shallow_copy(v)
            return v
        # move
        if not op.place.proj and isinstance(v, (list, EnumV, VecV, Bomb)):
            L[op.place.local] = MOVED
        return v

    def const_value(self, text, ty):
        cc = self.prog.__dict__.setdefault("_const_cache", {})
        v = cc.get(text, cc)
        if v is not cc:
            return v
        v = self._const_value(text, ty)
        if isinstance(v, (int, bool, str, float)) or v is UNIT:
            cc[text] = v
        return v

    def _const_value(self, text, ty):
        t = text.strip()
        m = INT_RE.match(t)
        if m:
            return int(m.group(1))
        if t == "true":
            return True
        if t == "false":
            return False
        if t == "()":
            return UNIT
        if t.startswith('"'):
            return unescape_rust(t[1:-1])
        if t.startswith("'"):
            s = unescape_rust(t[1:-1])
            return ord(s)
        if t in STD_CONSTS:
            return STD_CONSTS[t]
        if "SizedTypeProperties>::" in t:
            return {"ALIGN": 1, "SIZE": 8, "IS_ZST": False}.get(t.rsplit("::", 1)[-1], 1)
        cm = re.match(r"^core::num::<impl (\w+)>::(\w+)$", t)
        if cm and (cm.group(1) + "::" + cm.group(2)) in STD_CONSTS:
            return STD_CONSTS[cm.group(1) + "::" + cm.group(2)]
        if t.startswith('b"'):
            return Opaque("bytes:" + " ".join(re.findall(r"[A-Za-z`'][\x20-\x5b\x5d-\x7e]{2,}", re.sub(r"\\(x[0-9a-fA-F]{2}|.)", "\\\\", t[2:-1]))))
        if t.startswith("ZeroSized: "):
            body = t[len("ZeroSized: "):]
            if body.startswith("{closure@"):
                return ClosureV(body, [])
            return self.const_value(body, ty)
        if t.startswith("{alloc"):
            m = re.match(r"\{(alloc\d+): (.*)\}", t)
            sname = self.prog.static_allocs.get(m.group(1))
            if sname is not None:
                key = ("static", sname)
                c = self.models.cache.get(key)
                if c is None:
                    f = self.prog.funcs.get(sname) or self.prog.suffix_match(sname)
                    if f is None:
                        raise Unsupported("static " + sname)
                    c = Ref([self.run(f, [])], 0)
                    self.models.cache[key] = c
                return c
            return self.models.alloc_value(self, m.group(1), m.group(2))
        if re.match(r"^-?\d+(\.\d+)?(f32|f64)$", t):
            return float(re.sub(r"f(32|64)$", "", t))
        # named const / promoted / fn item / unit variant
        f = self.prog.funcs.get(t)
        if f is None and "promoted[" in t:
            # the use names the impl's type (`symbols::SymbolTable::gates::{closure#0}::promoted[0]`), the definition its
            # location (`symbols::<impl at ..>::gates::{closure#0}::promoted[0]`)
            idx = self.prog.__dict__.setdefault("_promoted_idx", None)
            if idx is None:
                idx = {}
                for raw, fn in self.prog.funcs.items():
                    if "promoted[" in raw and "<impl at" in raw:
                        idx.setdefault(re.sub(r"<impl at [^>]*>::", "", raw), []).append(fn)
                self.prog._promoted_idx = idx
            segs = t.split("::")
            cands = []
            for i in range(len(segs)):
                cands += idx.get("::".join(segs[:i] + segs[i + 1:]), [])
            same = [c for c in cands if getattr(c, "crate", None) == self.cur_crate()] or cands
            if len(same) == 1:
                f = same[0]
                t = f.rawname
        if f is not None:
            if f.kind in ("const", "static", "constval") or "promoted[" in t:
                key = ("constcache", t)
                c = self.models.cache.get(key)
                if c is None:
                    c = self.run(f, [])
                    self.models.cache[key] = c
                return copy.deepcopy(c) if not has_ref(c) else c
            return FnItem(t)
        ei = self.prog.enum_info(t, self.cur_crate())
        if ei:
            en, idx = ei
            if self.prog.fieldless(en):
                return self.prog.disc_of(en, idx)
            return EnumV(en, idx, [])
        if re.match(r"^[A-Z][A-Za-z0-9_]*$", t):
            # a variant imported with `use Enum::*` is printed bare (`CONST_KW`)
            hits = [(en, v[0].index(t)) for en, v in self.prog.enums.items() if t in v[0]]
            if not hits and t in self.prog.unit_structs():
                return []          # unit struct value
            if len(hits) == 1:
                en, idx = hits[0]
                if self.prog.fieldless(en):
                    return self.prog.disc_of(en, idx)
                return EnumV(en, idx, [])
        sg = strip_generics(t)
        f = self.prog.funcs.get(sg)
        if f is not None and f.kind != "fn":
            return self.const_value(sg, ty)
        pm = re.match(r"^(.*)(::promoted\[\d+\])$", t)
        if pm:
            base = self.prog.resolve(pm.group(1))
            if base is not None and (base.rawname + pm.group(2)) in self.prog.funcs:
                return self.const_value(base.rawname + pm.group(2), ty)
        f = self.prog.resolve(t)
        if f is not None:
            if f.kind != "fn":
                return self.const_value(f.rawname, ty)
            return FnItem(t)
        if self.models.lookup(t) is not None:
            return FnItem(t)
        if t.split("::")[-1] in ("RangeFull", "PhantomData", "Global") or strip_generics(t).split("::")[-1] in ("RangeFull", "PhantomData", "Global"):
            return Opaque("unit:" + t)      # unit struct value
        raise Unsupported("const " + t)

    # ---- rvalues
    def rvalue(self, rv, L, f):
        k = rv[0]
        if k == "use":
            return self.operand(rv[1], L)
        if k == "ref":
            cont, key = self.resolve_place(rv[1], L)
            return Ref(cont, key)
        if k == "discr":
            v = self.load(rv[1], L)
            if isinstance(v, EnumV):
                return self.prog.disc_of(v.ty, v.idx)
            if isinstance(v, (int, SV)) and not isinstance(v, bool):
                return v
            raise Unsupported("discriminant of " + repr(v))
        if k == "binop":
            return binop(self, rv[1], self.operand(rv[2], L), self.operand(rv[3], L), rv[2], rv[3], L, f)
        if k == "unop":
            a = self.operand(rv[2], L)
            if rv[1] == "Not":
                if isinstance(a, bool):
                    return not a
                if isinstance(a, SB):
                    return SB(z3.Not(a.e))
                if isinstance(a, SV):
                    return SV(~a.e, a.w, a.signed)
                w = self.width_of_operand(rv[2], L, f)
                return (~a) & ((1 << w) - 1)
            if rv[1] == "Neg":
                return -a
            if rv[1] == "PtrMetadata":
                t = a.get() if isinstance(a, Ref) else a
                if hasattr(t, "len_sym"):
                    return t.len_sym()
                if isinstance(t, VecV):
                    return len(t.items)
                if isinstance(t, str):
                    return len(t.encode())
                raise Unsupported("PtrMetadata")
        if k == "cast":
            v = self.operand(rv[1], L)
            return self.cast(v, rv[2], rv[3])
        if k == "tuple":
            return [self.operand(o, L) for o in rv[1]]
        if k == "array":
            return VecV([self.operand(o, L) for o in rv[1]])
        if k == "repeat":
            v = self.operand(rv[1], L)
            n = int(re.match(r"(?:const )?(\d+)", rv[2]).group(1))
            return VecV([copy.deepcopy(v) for _ in range(n)])
        if k == "adt_unit":
            return self.const_value(rv[1], None)
        if k == "adt_tuple":
            ei = self.prog.enum_info(rv[1], getattr(f, "crate", None))
            vals = [self.operand(o, L) for o in rv[2]]
            if ei:
                return EnumV(ei[0], ei[1], vals)
            return vals  # tuple struct
        if k == "adt_struct":
            ei = self.prog.enum_info(rv[1], getattr(f, "crate", None))
            vals = [self.operand(o, L) for _, o in rv[2]]
            if ei:
                return EnumV(ei[0], ei[1], vals)
            return vals
        if k == "closure":
            txt = rv[1]
            m = re.match(r"^(\{closure@[^}]*\})(?: \{ (.*) \})?$", txt)
            if not m:
                m2 = re.match(r"^\{(closure@[^}]*)\}$", txt)
                return ClosureV("{" + m2.group(1) + "}", [], self.subst_stack[-1])
            caps = []
            if m.group(2):
                for fld in split_top(m.group(2)):
                    nm, op = fld.split(": ", 1)
                    caps.append(self.operand(parse_operand(op), L))
            return ClosureV(m.group(1), caps, self.subst_stack[-1])
        if k == "len":
            v = self.load(rv[1], L)
            if hasattr(v, "len_sym"):
                return v.len_sym()
            return len(v.items)
        raise Unsupported("rvalue " + k)

    def width_of_operand(self, op, L, f):
        if op.mode == "const":
            m = INT_RE.match(op.const)
            if m:
                return WIDTH[m.group(2)]
            return 64
        pl = op.place
        if not pl.proj:
            ty = f.locals.get(pl.local) or (f.argtypes[pl.local - 1] if 0 < pl.local <= f.nargs else f.ret)
            return ty_width(ty) or 64
        last = pl.proj[-1]
        if last[0] == "field":
            return ty_width(last[2]) or 64
        return 64

    def signed_of_operand(self, op, L, f):
        if op.mode == "const":
            m = INT_RE.match(op.const)
            return bool(m and m.group(2).startswith("i"))
        pl = op.place
        if not pl.proj:
            ty = f.locals.get(pl.local) or (f.argtypes[pl.local - 1] if 0 < pl.local <= f.nargs else f.ret)
            return ty_signed(ty)
        last = pl.proj[-1]
        if last[0] == "field":
            return ty_signed(last[2])
        return False

    def cast(self, v, ty, kind):
        if kind.startswith("PointerCoercion") or kind in ("Transmute", "PtrToPtr", "FnPtrToPtr"):
            return v
        if kind in ("IntToInt",):
            w = ty_width(ty)
            if type(v).__name__ == "LenV":
                if 0 <= v.minval() and v.maxval() < (1 << w):
                    from .strmodel import LenV
                    return LenV(v.s, v.terms, v.const, w)
                v = v.to_sv()
            if isinstance(v, EnumV):
                v = self.prog.disc_of(v.ty, v.idx)
            if isinstance(v, bool):
                return int(v)
            if isinstance(v, SB):
                return SV(z3.If(v.e, z3.BitVecVal(1, w), z3.BitVecVal(0, w)), w)
            if isinstance(v, SV):
                if w == v.w:
                    return SV(v.e, w, ty_signed(ty))
                if w < v.w:
                    return mk(z3.Extract(w - 1, 0, v.e), w, ty_signed(ty))
                e = z3.SignExt(w - v.w, v.e) if v.signed else z3.ZeroExt(w - v.w, v.e)
                return SV(e, w, ty_signed(ty))
            if ty_signed(ty):
                v &= (1 << w) - 1
                return v - (1 << w) if v >> (w - 1) else v
            return v & ((1 << w) - 1)
        raise Unsupported("cast " + kind)

    def drop_value(self, v):
        if v is MOVED or v is UNINIT:
            return
        if isinstance(v, Bomb):
            if not v.defused:
                raise Panic("DropBomb: " + v.msg)
        elif isinstance(v, list):
            for x in v:
                self.drop_value(x)
        elif isinstance(v, EnumV):
            for x in v.fields:
                self.drop_value(x)
        elif isinstance(v, VecV):
            for x in v.items:
                self.drop_value(x)

def has_ref(v, depth=0):
    if isinstance(v, (Ref, PyFn, Bomb)):
        return True
    if isinstance(v, list):
        return any(has_ref(x) for x in v)
    if isinstance(v, EnumV):
        return any(has_ref(x) for x in v.fields)
    if isinstance(v, VecV):
        return any(has_ref(x) for x in v.items)
    return False

def shallow_copy(v):
    if isinstance(v, list):
        return [shallow_copy(x) for x in v]
    if isinstance(v, EnumV):
        return EnumV(v.ty, v.idx, [shallow_copy(x) for x in v.fields])
    if isinstance(v, VecV):
        return VecV([shallow_copy(x) for x in v.items])
    return v

def unescape_rust(s):
    out = []; i = 0
    while i < len(s):
        c = s[i]
        if c == '\\':
            n = s[i + 1]
            if n == 'n': out.append('\n'); i += 2
            elif n == 't': out.append('\t'); i += 2
            elif n == 'r': out.append('\r'); i += 2
            elif n == '0': out.append('\0'); i += 2
            elif n == '\\': out.append('\\'); i += 2
            elif n == '"': out.append('"'); i += 2
            elif n == "'": out.append("'"); i += 2
            elif n == 'u':
                j = s.index('}', i)
                out.append(chr(int(s[i + 3:j], 16))); i = j + 1
            elif n == 'x':
                out.append(chr(int(s[i + 2:i + 4], 16))); i += 4
            else:
                out.append(n); i += 2
        else:
            out.append(c); i += 1
    return "".join(out)

# ------------------------------------------------------------------ arithmetic

def mk(e, w, signed=False):
    """simplify; fall back to a concrete python int when the term is a value"""
    e = z3.simplify(e)
    if z3.is_bv_value(e):
        v = e.as_long()
        if signed and v >> (w - 1):
            v -= 1 << w
        return v
    return SV(e, w, signed)

def _bv(v, w):
    if isinstance(v, SV):
        return v.e
    if isinstance(v, bool):
        v = int(v)
    return z3.BitVecVal(v, w)

def binop(ex, op, a, b, opa, opb, L, f):
    if isinstance(a, Ref) and isinstance(b, int):
        a = 0x10000          # address of a live allocation in std's inlined alignment / null pre-condition checks: aligned, non-null
    if type(a).__name__ == "LenV" or type(b).__name__ == "LenV":
        from .strmodel import lenv_binop
        r = lenv_binop(ex, op, a, b)
        if r is not None:
            return r
        if type(a).__name__ == "LenV": a = a.to_sv()
        if type(b).__name__ == "LenV": b = b.to_sv()
    sym = isinstance(a, (SV, SB)) or isinstance(b, (SV, SB))
    if isinstance(a, EnumV):
        a = ex.prog.disc_of(a.ty, a.idx)
    if isinstance(b, EnumV):
        b = ex.prog.disc_of(b.ty, b.idx)
    w = ex.width_of_operand(opa, L, f)
    signed = ex.signed_of_operand(opa, L, f)
    if not sym:
        if isinstance(a, bool) and isinstance(b, bool):
            if op == "Eq": return a == b
            if op == "Ne": return a != b
            if op == "BitAnd": return a and b
            if op == "BitOr": return a or b
            if op == "BitXor": return a != b
        mask = (1 << w) - 1
        if op in ("Add", "Sub", "Mul"):
            r = {"Add": a + b, "Sub": a - b, "Mul": a * b}[op]
            return wrap(r, w, signed)
        if op in ("AddWithOverflow", "SubWithOverflow", "MulWithOverflow"):
            r = {"A": a + b, "S": a - b, "M": a * b}[op[0]]
            wr = wrap(r, w, signed)
            return [wr, wr != r]
        if op == "Div":
            if b == 0: raise Panic("div by zero")
            return int(a / b) if signed else a // b
        if op == "Rem":
            if b == 0: raise Panic("rem by zero")
            return a % b if not signed else int(a - b * int(a / b))
        if op == "BitAnd": return a & b
        if op == "BitOr": return a | b
        if op == "BitXor": return a ^ b
        if op in ("Shl", "ShlUnchecked"): return (a << (b % w)) & mask
        if op in ("Shr", "ShrUnchecked"): return a >> (b % w)
        if op == "Eq": return a == b
        if op == "Ne": return a != b
        if op == "Lt": return a < b
        if op == "Le": return a <= b
        if op == "Gt": return a > b
        if op == "Ge": return a >= b
        raise Unsupported("binop " + op)
    # symbolic
    if isinstance(a, (SB, bool)) and isinstance(b, (SB, bool)):
        ea = a.e if isinstance(a, SB) else z3.BoolVal(a)
        eb = b.e if isinstance(b, SB) else z3.BoolVal(b)
        if op == "Eq": return SB(ea == eb)
        if op == "Ne": return SB(ea != eb)
        if op == "BitAnd": return SB(z3.And(ea, eb))
        if op == "BitOr": return SB(z3.Or(ea, eb))
        if op == "BitXor": return SB(z3.Xor(ea, eb))
    if isinstance(a, SV):
        w = a.w
    elif isinstance(b, SV) and op not in ("Shl", "Shr"):
        w = b.w
    ea = _bv(a, w)
    if op in ("Shl", "Shr", "ShlUnchecked", "ShrUnchecked"):
        wb = b.w if isinstance(b, SV) else w
        eb = _bv(b, wb)
        if wb < w: eb = z3.ZeroExt(w - wb, eb)
        elif wb > w: eb = z3.Extract(w - 1, 0, eb)
        eb = eb & z3.BitVecVal(w - 1, w)
        if op.startswith("Shl"): return mk(ea << eb, w, signed)
        return mk(ea >> eb if signed else z3.LShR(ea, eb), w, signed)
    eb = _bv(b, w)
    if op == "Add": return SV(ea + eb, w, signed)
    if op == "Sub": return SV(ea - eb, w, signed)
    if op == "Mul": return SV(ea * eb, w, signed)
    if op == "BitAnd": return mk(ea & eb, w, signed)
    if op == "BitOr": return mk(ea | eb, w, signed)
    if op == "BitXor": return mk(ea ^ eb, w, signed)
    if op == "Eq": return SB(ea == eb)
    if op == "Ne": return SB(ea != eb)
    if op == "Lt": return SB(ea < eb if signed else z3.ULT(ea, eb))
    if op == "Le": return SB(ea <= eb if signed else z3.ULE(ea, eb))
    if op == "Gt": return SB(ea > eb if signed else z3.UGT(ea, eb))
    if op == "Ge": return SB(ea >= eb if signed else z3.UGE(ea, eb))
    if op == "AddWithOverflow":
        r = ea + eb
        ov = z3.Not(z3.BVAddNoOverflow(ea, eb, signed)) if not signed else z3.Or(z3.Not(z3.BVAddNoOverflow(ea, eb, True)), z3.Not(z3.BVAddNoUnderflow(ea, eb)))
        return [SV(r, w, signed), SB(ov)]
    if op == "SubWithOverflow":
        r = ea - eb
        ov = z3.Not(z3.BVSubNoUnderflow(ea, eb, signed)) if not signed else z3.Or(z3.Not(z3.BVSubNoOverflow(ea, eb)), z3.Not(z3.BVSubNoUnderflow(ea, eb, True)))
        return [SV(r, w, signed), SB(ov)]
    if op == "MulWithOverflow":
        r = ea * eb
        ov = z3.Not(z3.BVMulNoOverflow(ea, eb, signed)) if not signed else z3.Or(z3.Not(z3.BVMulNoOverflow(ea, eb, True)), z3.Not(z3.BVMulNoUnderflow(ea, eb)))
        return [SV(r, w, signed), SB(ov)]
    raise Unsupported("sym binop " + op)

def wrap(r, w, signed):
    m = (1 << w) - 1
    r &= m
    if signed and r >> (w - 1):
        r -= (1 << w)
    return r

# ------------------------------------------------------------------ exploration driver

def explore(make_run, ex, max_paths=None, on_path=None, verbose=False):
    """make_run(ex) executes one path (may raise Panic/...)."""
    work = [[]]
    stats = {"paths": 0, "panic": 0, "unsupported": 0, "steplimit": 0, "ok": 0, "solver_calls": 0}
    results = []
    t0 = time.time()
    while work:
        prefix = work.pop()
        ex.reset(prefix)
        outcome = None; detail = None
        try:
            detail = make_run(ex)
            outcome = "ok"
        except Panic as e:
            outcome = "panic"; detail = (str(e), list(ex.stack))
        except Unsupported as e:
            outcome = "unsupported"; detail = (str(e), list(ex.stack))
        except StepLimit as e:
            outcome = "steplimit"; detail = (str(e), list(ex.stack[-3:]))
        except Infeasible:
            outcome = None
        work.extend(ex.pending)
        stats["solver_calls"] += ex.solver_calls
        if outcome is None:
            continue
        stats["paths"] += 1
        stats[outcome] += 1
        if on_path:
            on_path(ex, outcome, detail)
        if max_paths and stats["paths"] >= max_paths:
            break
    stats["wall"] = time.time() - t0
    stats["remaining"] = len(work)
    return stats
