"""Models of the text-size crate (TextSize / TextRange, re-exported by rowan) and of syntax tokens seen through
oq3_syntax::ast::AstToken.  TextSize is a u32 (int / SV / LenV); TextRange is the pair TR(start, end)."""
import re
import z3
from .interp import SV, SB, EnumV, VecV, Ref, Opaque, UNIT, Panic, Unsupported
from . import strmodel
from .strmodel import LenV, StrSlice, SymStr, as_slice, span_len, lenv_binop


class TR:
    __slots__ = ("start", "end")

    def __init__(self, start, end):
        self.start = start; self.end = end

    def __deepcopy__(self, memo):
        return self

    def __repr__(self):
        return f"TR({self.start}..{self.end})"


class TokV:
    """a SyntaxToken as far as the ast layer can see: kind, text, absolute start offset"""
    def __init__(self, kind, text, start=0):
        self.kind = kind; self.text = text; self.start = start

    def __deepcopy__(self, memo):
        return self


def arith(ex, op, a, b):
    """u32 arithmetic on int / LenV / SV with overflow reported as None"""
    if isinstance(a, LenV) or isinstance(b, LenV):
        r = lenv_binop(ex, op + "WithOverflow", a, b)
        if r is not None:
            v, ov = r
            if ov is False:
                return v
            if ov is True:
                return None
            if ex.branch_bool(ov):
                return None
            return v
        a = a.to_sv() if isinstance(a, LenV) else a
        b = b.to_sv() if isinstance(b, LenV) else b
    if isinstance(a, int) and isinstance(b, int):
        r = a + b if op == "Add" else a - b
        return r if 0 <= r < (1 << 32) else None
    ae = a.e if isinstance(a, SV) else z3.BitVecVal(a, 32)
    be = b.e if isinstance(b, SV) else z3.BitVecVal(b, 32)
    if op == "Add":
        ov = z3.Not(z3.BVAddNoOverflow(ae, be, False)); r = ae + be
    else:
        ov = z3.ULT(ae, be); r = ae - be
    if ex.branch_bool(SB(ov)):
        return None
    return SV(z3.simplify(r), 32)


def le(ex, a, b):
    if isinstance(a, LenV) or isinstance(b, LenV):
        r = lenv_binop(ex, "Le", a, b)
        if r is not None:
            return r if isinstance(r, bool) else ex.branch_bool(r)
        a = a.to_sv() if isinstance(a, LenV) else a
        b = b.to_sv() if isinstance(b, LenV) else b
    if isinstance(a, int) and isinstance(b, int):
        return a <= b
    ae = a.e if isinstance(a, SV) else z3.BitVecVal(a, 32)
    be = b.e if isinstance(b, SV) else z3.BitVecVal(b, 32)
    return ex.branch_bool(SB(z3.ULE(ae, be)))


def install(models):
    R = models.reg
    n0 = len(models.table)

    def deref(x):
        while isinstance(x, Ref):
            x = x.get()
        return x

    def opt(x):
        return EnumV("Option", 0, []) if x is None else EnumV("Option", 1, [x])

    @R(r"^<TextSize as From<u32>>::from$|^<u32 as From<TextSize>>::from$|^<u32 as Into<TextSize>>::into$|^<TextSize as Into<u32>>::into$|^TextSize::new$")
    def _ts_from(ex, c, a):
        return a[0]

    @R(r"^<TextSize as From<TextSize>>::from$|^<usize as From<TextSize>>::from$|^<TextSize as Into<usize>>::into$")
    def _ts_usize(ex, c, a):
        v = a[0]
        if isinstance(v, LenV):
            return LenV(v.s, v.terms, v.const, 64)
        if isinstance(v, SV):
            return SV(z3.ZeroExt(32, v.e), 64)
        return v

    @R(r"^<usize as TryInto<TextSize>>::try_into$|^<TextSize as TryFrom<usize>>::try_from$|^<usize as TryInto<u32>>::try_into$|^<u32 as TryFrom<usize>>::try_from$")
    def _ts_try(ex, c, a):
        v = a[0]
        if isinstance(v, LenV):
            if v.maxval() < (1 << 32):
                return EnumV("Result", 0, [LenV(v.s, v.terms, v.const, 32)])
            v = v.to_sv()
        if isinstance(v, int):
            return EnumV("Result", 0 if v < (1 << 32) else 1, [v if v < (1 << 32) else Opaque("TryFromIntError")])
        if ex.branch_bool(SB(z3.ULT(v.e, 1 << 32))):
            return EnumV("Result", 0, [SV(z3.Extract(31, 0, v.e), 32)])
        return EnumV("Result", 1, [Opaque("TryFromIntError")])

    @R(r"^TextRange::new$")
    def _tr_new(ex, c, a):
        if not le(ex, a[0], a[1]):
            raise Panic("assertion failed: start.raw <= end.raw")
        return TR(a[0], a[1])

    @R(r"^TextRange::at$")
    def _tr_at(ex, c, a):
        e = arith(ex, "Add", a[0], a[1])
        if e is None:
            raise Panic("TextRange::at overflow")
        return TR(a[0], e)

    @R(r"^TextRange::empty$")
    def _tr_empty(ex, c, a):
        return TR(a[0], a[0])

    @R(r"^TextRange::up_to$")
    def _tr_up_to(ex, c, a):
        return TR(0, a[0])

    @R(r"^TextRange::start$")
    def _tr_start(ex, c, a):
        return deref(a[0]).start

    @R(r"^TextRange::end$")
    def _tr_end(ex, c, a):
        return deref(a[0]).end

    @R(r"^TextRange::len$")
    def _tr_len(ex, c, a):
        r = deref(a[0])
        return arith(ex, "Sub", r.end, r.start)

    @R(r"^TextRange::is_empty$")
    def _tr_is_empty(ex, c, a):
        r = deref(a[0])
        return le(ex, r.end, r.start)

    @R(r"^TextRange::contains_range$")
    def _tr_contains_range(ex, c, a):
        r, o = deref(a[0]), deref(a[1])
        return le(ex, r.start, o.start) and le(ex, o.end, r.end)

    @R(r"^<TextRange as (std::ops::)?(Add|Sub)<TextSize>>::(add|sub)$")
    def _tr_addsub(ex, c, a):
        r = deref(a[0]); o = a[1]
        op = "Add" if "::add" in c else "Sub"
        s = arith(ex, op, r.start, o); e = arith(ex, op, r.end, o)
        if s is None or e is None:
            raise Panic("TextRange +offset overflowed" if op == "Add" else "TextRange -offset overflowed")
        return TR(s, e)

    @R(r"^<TextSize as (std::ops::)?(Add|Sub)(<TextSize>)?>::(add|sub)$")
    def _ts_addsub(ex, c, a):
        op = "Add" if "::add" in c else "Sub"
        r = arith(ex, op, a[0], a[1])
        if r is None:
            raise Panic("attempt to add/subtract TextSize with overflow")
        return r

    @R(r"^<str as Index<TextRange>>::index$")
    def _idx_tr(ex, c, a):
        sl = as_slice(a[0]); r = deref(a[1])
        j1 = strmodel.char_index(ex, sl, r.start, "&s[range] start")
        j2 = strmodel.char_index(ex, sl, r.end, "&s[range] end")
        if j2 < j1:
            raise Panic("slice index starts after end")
        return StrSlice(sl.s, j1, j2)

    # ---- tokens through AstToken
    @R(r"^<.* as AstToken>::text$|^rowan::SyntaxToken::<.*>::text$|^SyntaxToken::<.*>::text$")
    def _tok_text(ex, c, a):
        t = deref(a[0])
        if isinstance(t, list) and t and isinstance(deref(t[0]), TokV):
            t = deref(t[0])
        if not isinstance(t, TokV):
            raise Unsupported("text() of " + repr(t)[:60])
        return t.text

    @R(r"^<.* as AstToken>::syntax$")
    def _tok_syntax(ex, c, a):
        t = deref(a[0])
        if isinstance(t, list) and t and isinstance(deref(t[0]), TokV):
            return Ref(t, 0) if not isinstance(t[0], Ref) else t[0]
        if isinstance(t, TokV):
            return a[0]
        raise Unsupported("syntax() of " + repr(t)[:60])

    @R(r"^rowan::SyntaxToken::<.*>::text_range$|^SyntaxToken::<.*>::text_range$")
    def _tok_range(ex, c, a):
        t = deref(a[0])
        if not isinstance(t, TokV):
            raise Unsupported("text_range() of " + repr(t)[:60])
        n = span_len(t.text.s, t.text.lo, t.text.hi)
        n32 = LenV(n.s, n.terms, n.const, 32) if isinstance(n, LenV) else n
        e = arith(ex, "Add", t.start, n32)
        if e is None:
            raise Panic("token range overflows u32")
        return TR(t.start, e)

    @R(r"^rowan::SyntaxToken::<.*>::kind$|^SyntaxToken::<.*>::kind$")
    def _tok_kind(ex, c, a):
        return deref(a[0]).kind

    new = models.table[n0:]
    del models.table[n0:]
    models.table[0:0] = new
    models._cache_lookup.clear()
