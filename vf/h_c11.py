"""C11 - malformed lexemes are always diagnosed and errors gate the later stages (DESIGN 6/C11).

(a) lexer: every token whose TokenKind carries a malformation flag gets a LexedStr error entry with its own index
    - per token (advance_token + inner_extend_token, n chars) and on whole strings (LexedStr::new, m chars)
(b) parse_text_check_lex: tree present <=> no lexer error            [gating.py]
(c) analyze_source: syntax errors anywhere in the include tree => empty program, no semantic diagnostics   [gating.py]
"""
import json, os, hashlib
from .main import Result
from . import lexcheck, native


def native_diag_check(text):
    """(violated, msg): some malformed token of `text` has no lexical diagnostic on it (lexer flags), or the text starts
    with a malformed lexeme per the reference lexeme grammar and token 0 has no diagnostic"""
    o = native.run_one("lex " + native.hexs(text), "dev")
    o2 = native.run_one("lexed " + native.hexs(text), "dev")
    if native.failed(o) or native.failed(o2):
        return True, "native failure " + str(o)[:100]
    errtoks = {e[0] for e in o2["errors"]}
    import re, z3
    L = lexcheck.lexeme_spec()
    cs = [ord(c) for c in text]
    specs = L.malformed_specs(cs)
    if text.startswith("OPENQASM") and len(text) > 8 and z3.is_true(z3.simplify(L.is_ws(z3.BitVecVal(cs[8], 32)))):
        specs["malformed_version_header"] = z3.Not(L.version_wellformed(cs[9:]))
    for nm, cond in specs.items():
        if z3.is_true(z3.simplify(cond)) and 0 not in errtoks:
            return True, f"input starts with a malformed lexeme ({nm}) but token 0 {o['tokens'][0][0] if o['tokens'] else None} has no lexical diagnostic"
    for i, (k, ln) in enumerate(o["tokens"]):
        mal = ("terminated: false" in k) or ("empty_int: true" in k) or ("empty_exponent: true" in k) or k == "InvalidIdent" or \
              (k.startswith("OpenQasmVersionStmt") and "false" in k)
        if mal and i not in errtoks:
            return True, f"token {i} {k} has no lexical diagnostic (diagnostics on tokens {sorted(errtoks)})"
    return False, ""


def run(ctx):
    res = Result()
    NT = 4 if ctx.quick() else 6
    MW = 2 if ctx.quick() else 3
    NT = int(os.environ.get("VERIF_C11_NT", NT)); MW = int(os.environ.get("VERIF_C11_MW", MW))
    f1 = lexcheck.run_diag_tokens(ctx, res, NT)
    f1v = lexcheck.run_diag_tokens(ctx, res, 3 if ctx.quick() else 4, prefix="OPENQASM ")
    for k, v in f1v.items():
        f1.setdefault(k, v)
    f2 = lexcheck.run_whole(ctx, res, MW)
    f2 = {k: v for k, v in f2.items() if "without a lexical diagnostic" in k[0] or v["outcome"] in ("panic", "stuck", "unsupported")}
    known_by_id = {k["id"]: k for k in ctx.known}
    seen = set()
    for fails in (f1, f2):
        for (site, kid), info in sorted(fails.items(), key=lambda kv: str(kv[0])):
            if info["outcome"] == "unsupported":
                res.inconclusive.append(f"unsupported ({info['count']} paths): {site}")
                continue
            rep = None
            for text in info["examples"]:
                bad, msg = native_diag_check(text)
                if bad:
                    rep = (text, msg); break
            if rep is None:
                res.inconclusive.append(f"counterexample does not reproduce natively ({info['count']} paths): {site} e.g. {info['examples'][0]!r}")
                continue
            res.validated += 1
            if kid is not None:
                if kid not in seen:
                    seen.add(kid)
                    res.known_hits.append(f"{kid}: {known_by_id[kid].get('what', site)} (e.g. {rep[0]!r}: {rep[1]})")
                continue
            what = {"site": site, "paths": info["count"], "input": rep[0], "native": rep[1], "token": info.get("kind")}
            rp = os.path.join(ctx.replay_dir, "diag_" + hashlib.sha1((site + str(info.get('kind'))).encode()).hexdigest()[:10] + ".json")
            json.dump({"property": "C11", "input": rep[0], "what": what}, open(rp, "w"), indent=1)
            res.violations.append({"what": json.dumps(what), "replay": rp})
            res.samples.append(what)
    try:
        from . import gating
        gating.run(ctx, res)
    except ImportError:
        res.outside_claim.append("(b) and (c) gating harnesses")
    res.functions_encoded += ["oq3_lexer::Cursor::advance_token and all scanners", "oq3_parser::lexed_str::{inner_extend_token, extend_literal_func, Converter::*}", "oq3_parser::LexedStr::new"]
    res.bounds.update({"chars_per_token": NT, "chars_whole_string": MW})
    res.stubs += ["string model vf/strmodel.py; Unicode tables from the locked crate versions"]
    res.outside_claim += ["tokens longer than the bound"]
    res.exhaustive = not res.inconclusive
    return res


def replay(ctx, path):
    d = json.load(open(path))
    bad, msg = native_diag_check(d["input"])
    print("violated: " + msg if bad else "holds")
    return 1 if bad else 0
