"""C06 - the semantic graph preserves the program's structure, order and operators (stage 2, DESIGN 6/C06).

Model programs are generated from a small statement algebra (marker assignments, gate calls with ordered parameters /
operands / modifiers, subroutine calls, if / else with block and single-statement bodies in every combination, while, for,
switch with several cases and default, gate and def bodies, annotations, pragmas, every binary / unary operator, every
literal class).  Every marker is a SYMBOLIC decimal digit, so `statement j of block B carries marker j` is a solver
obligation over the digit characters (a swap, duplication or drop of statements / operands cannot hide behind equal
literals).  The real parser + ALL of syntax_to_semantic run from MIR; the decoded graph is compared node by node with the
skeleton predicted from the model.
"""
import json, os, collections, re, itertools
import z3
from . import explore, semh
from .interp import SV, SB, Panic, Unsupported, Violation
from .main import Result
from .asgview import N

PRE = "int a ; int c ; bit b ; qubit q ; qubit [ 3 ] r ; gate g x { } gate k ( s , t ) x , y { } def f ( int y , int z ) { }"

BINOPS = {"+": ("ArithOp", "Add"), "-": ("ArithOp", "Sub"), "*": ("ArithOp", "Mul"), "/": ("ArithOp", "Div"), "%": ("ArithOp", "Rem"),
          "==": ("CmpOp", "Eq"), "!=": ("CmpOp", "Neq"), "<": ("CmpOp", "Lt"), ">": ("CmpOp", "Gt"), "<=": ("CmpOp", "Lte"), ">=": ("CmpOp", "Gte"),
          "**": ("PowerOp", None), "++": ("ConcatenationOp", None), "&": ("ArithOp", "BitAnd"), "|": ("ArithOp", "BitOr"), "^": ("ArithOp", "BitXOr"),
          "<<": ("ArithOp", "Shl"), ">>": ("ArithOp", "Shr"), "&&": ("CmpOp", "AndAnd"), "||": ("CmpOp", "OrOr")}
SPELL = {"==": "=~ =", "!=": "!~ =", "<=": "<~ =", ">=": ">~ =", "**": "*~ *", "++": "+~ +", "<<": "<~ <", ">>": ">~ >", "&&": "&~ &", "||": "|~ |"}


class Gen:
    """emits the source words and the expected skeleton"""
    def __init__(self, h, ex):
        self.h = h; self.ex = ex; self.words = []; self.sub = {}; self.nm = 0

    def marker(self):
        tag = f"m{self.nm}"; self.nm += 1
        cs, val = self.h.sym_digits(self.ex, tag, 1)
        self.sub[tag] = ("INT_NUMBER", cs)
        return "$" + tag, z3.Extract(63, 0, val)

    def seq(self, items):
        return [self.item(it) for it in items]

    def body(self, form, items):
        if form == "block":
            self.words.append("{"); out = self.seq(items); self.words.append("}")
            return out
        assert len(items) == 1
        return self.seq(items)

    def item(self, it):
        W = self.words
        k = it[0]
        if k == "M":
            w, v = self.marker()
            W += ["a", "=", w, ";"]
            return ("Assignment", v)
        if k == "SCOPE":
            W.append("{"); inner = self.seq(it[1]); W.append("}")
            return ("Scope", inner)
        if k == "DECLD":
            W += ["bit", "d", ";"]
            return ("DeclNoInit", "d")
        if k == "DECLREG":
            W += ["bit", "[", "4", "]", "w", ";"]
            return ("DeclNoInit", "w")
        if k == "ASG":
            # assignment with the target and the value in every identifier / indexed-identifier combination
            _, tform, vform = it
            def side(form, idname):
                if form == "id":
                    W.append(idname); return ("id", idname)
                if form == "idx":
                    w, v = self.marker(); W.extend(["w", "[", w, "]"]); return ("idx", "w", v)
                w, v = self.marker(); W.append(w); return ("lit", v)
            t = side(tform, "b")
            W.append("=")
            v = side(vform, "d")
            W.append(";")
            return ("Asg", t, v)
        if k == "BR":
            W += ["break", ";"]; return ("Break",)
        if k == "CO":
            W += ["continue", ";"]; return ("Continue",)
        if k == "END":
            W += ["end", ";"]; return ("End",)
        if k == "GC":
            w1, v1 = self.marker(); w2, v2 = self.marker()
            W += ["k", "(", w1, ",", w2, ")", "q", ",", "r", "[", "1", "]", ";"]
            return ("GateCall", "k", [v1, v2], [("id", "q"), ("idx", "r", 1)], [])
        if k == "MOD":
            mods = it[1]
            exp = []
            for m in mods:
                if m == "inv":
                    W += ["inv", "@"]; exp.append(("Inv",))
                elif m == "pow":
                    w, v = self.marker(); W += ["pow", "(", w, ")", "@"]; exp.append(("Pow", v))
                elif m == "ctrl":
                    W += ["ctrl", "@"]; exp.append(("Ctrl",))
                elif m == "negctrl":
                    W += ["negctrl", "@"]; exp.append(("NegCtrl",))
            nctrl = sum(1 for m in mods if m in ("ctrl", "negctrl"))
            ops = [("idx", "r", i) for i in range(nctrl)] + [("id", "q")]
            W.append("g")
            for i, o in enumerate(ops):
                if i:
                    W.append(",")
                W += (["r", "[", str(o[2]), "]"] if o[0] == "idx" else ["q"])
            W.append(";")
            return ("GateCall", "g", None, ops, exp)
        if k == "CALL":
            w1, v1 = self.marker(); w2, v2 = self.marker()
            W += ["f", "(", w1, ",", w2, ")", ";"]
            return ("Call", "f", [v1, v2])
        if k == "BAR":
            W += ["barrier", "q", ",", "r", ";"]
            return ("Barrier", [("id", "q"), ("id", "r")])
        if k == "MEAS":
            W += ["b", "=", "measure", "q", ";"]
            return ("MeasureAssign",)
        if k == "RESET":
            W += ["reset", "q", ";"]
            return ("Reset", ("id", "q"))
        if k == "DECL":
            w, v = self.marker()
            nm = f"t{self.nm}"
            W += ["int", nm, "=", w, ";"]
            return ("Decl", nm, v)
        if k == "GPHASE":
            w, v = self.marker()
            W += ["gphase", "(", w, ")", ";"]
            return ("GPhase", v)
        if k == "DELAY":
            w, v = self.marker()
            W += ["delay", "[", w, "ns", "]", "q", ",", "r", "[", "2", "]", ";"]
            return ("Delay", v, [("id", "q"), ("idx", "r", 2)])
        if k == "HWRESET":
            W += ["reset", "$0", ";"]
            return ("HwReset",)
        if k == "IO":
            nm = f"io{self.nm}"; self.nm += 1
            W += [it[1], "int", nm, ";"]
            return ("IO", it[1], nm)
        if k == "IF":
            _, tform, tbody, eform, ebody = it
            w, v = self.marker()
            W += ["if", "(", "a", "=~", "=", w, ")"]
            t = self.body(tform, tbody)
            e = None
            if eform != "none":
                W.append("else")
                e = self.body(eform, ebody)
            return ("If", v, t, e)
        if k == "WH":
            _, form, body = it
            w, v = self.marker()
            W += ["while", "(", "a", "=~", "=", w, ")"]
            return ("While", v, self.body(form, body))
        if k == "FOR":
            _, form, body, itk = it
            W += ["for", "int", "i", "in"]
            if itk == "range":
                w1, v1 = self.marker(); w2, v2 = self.marker()
                W += ["[", w1, ":", w2, "]"]; itx = ("range", v1, None, v2)
            elif itk == "range3":
                w1, v1 = self.marker(); w2, v2 = self.marker(); w3, v3 = self.marker()
                W += ["[", w1, ":", w2, ":", w3, "]"]; itx = ("range", v1, v2, v3)
            else:
                w1, v1 = self.marker(); w2, v2 = self.marker()
                W += ["{", w1, ",", w2, "}"]; itx = ("set", [v1, v2])
            return ("For", itx, self.body(form, body))
        if k == "SW":
            _, cases, default = it
            W += ["switch", "(", "a", ")", "{"]
            ec = []
            for nlab, body in cases:
                W.append("case")
                labs = []
                for j in range(nlab):
                    if j:
                        W.append(",")
                    w, v = self.marker(); W.append(w); labs.append(v)
                ec.append((labs, self.body("block", body)))
            ed = None
            if default is not None:
                W.append("default")
                ed = self.body("block", default)
            W.append("}")
            return ("Switch", ec, ed)
        if k == "GATE":
            _, name, body = it
            W += ["gate", name, "(", "p", ")", "u", ",", "v"]
            return ("GateDef", name, self.body("block", body))
        if k == "DEF":
            _, name, body = it
            W += ["def", name, "(", "int", "u", ")"]
            return ("Def", name, self.body("block", body))
        if k == "ANN":
            _, texts, inner = it
            for t in texts:
                self.sub[f"ann{len(self.sub)}"] = None
                W.append(("ANNOTATION", "@" + t))
            return ("Annotated", ["@" + t for t in texts], self.item(inner))
        if k == "PRAGMA":
            _, text = it
            W.append(("PRAGMA", "pragma " + text))
            return ("Pragma", text)        # PragmaStatement::pragma_text documents that the keyword itself is omitted
        if k == "OP":
            _, op = it
            W += ["a"] + SPELL.get(op, op).split() + ["c", ";"]
            return ("Bin", op)
        if k == "NEST":
            _, shape = it
            W += {"a+c*a": ["a", "+", "c", "*", "a", ";"], "(a+c)*a": ["(", "a", "+", "c", ")", "*", "a", ";"], "a*c+a": ["a", "*", "c", "+", "a", ";"],
                  "a-c-a": ["a", "-", "c", "-", "a", ";"], "-a+c": ["-", "a", "+", "c", ";"], "f(a+c,a)": ["f", "(", "a", "+", "c", ",", "a", ")", ";"],
                  "int(a)-c": ["int", "(", "a", ")", "-", "c", ";"], "int[32](a)-c": ["int", "[", "32", "]", "(", "a", ")", "-", "c", ";"],
                  "int[32](a)+c": ["int", "[", "32", "]", "(", "a", ")", "+", "c", ";"]}[shape]
            return ("Nest", shape)
        if k == "UN":
            _, op = it
            W += [op, "a", ";"]
            return ("Un", op)
        if k == "LIT":
            _, lit = it
            W += {"int": ["7"], "float": ["1.5"], "true": ["true"], "false": ["false"], "bits": ['"0110"'], "timing": ["3", "ns"], "timingf": ["1.5", "us"],
                  "imag": ["2", "im"], "imagf": ["2.5", "im"], "hex": ["0x1F"], "bin": ["0b101"]}[lit] + [";"]
            return ("Lit", lit)
        raise ValueError(k)


class H(semh.Base):
    def label(self):
        return self.task[0]

    def site(self, outcome, detail):
        s = semh.Base.site(self, outcome, detail)
        return re.sub(r" at [\w\[\]./]+", "", s)[:200] + " @" + self.task[0].split(":")[0]

    def program(self, ex):
        pre = self.toks_from(PRE)
        self.npre = len(pre)
        G = Gen(self, ex)
        self.expected = G.seq(self.task[1])
        toks = []
        K = self.fam.kit
        for w in G.words:
            if isinstance(w, tuple):
                toks.append((w[0], w[1] + "\n", False)) if False else toks.append((w[0], w[1], False))
                continue
            joint = w.endswith("~") and len(w) > 1
            if joint:
                w = w[:-1]
            if w.startswith("$") and w[1:] in G.sub:
                kind, txt = G.sub[w[1:]]
                toks.append((kind, txt, joint))
            else:
                toks.append((semh.word_kind(self.fam, w), w, joint))
        return pre + toks

    def render(self, model):
        out = []
        for kn, text, joint in getattr(self, "toks", []):
            t = text if isinstance(text, str) else "".join(chr(c) if isinstance(c, int) else chr(model.get(c.e.decl().name(), ord("1"))) for c in text)
            out.append(t + ("\n" if kn in ("ANNOTATION", "PRAGMA") else ("" if joint else " ")))
        return "".join(out).strip()

    # ---- comparison
    def ident_name(self, R, res):
        if res.v != "Ok":
            return None
        n = R.symbols[res[0][0]]["name"]
        return n

    def lit_val(self, te):
        e = te["expression"]
        while e.v == "Cast":
            e = e[0]["operand"]["expression"]
        if e.v == "Literal" and e[0].v == "Int":
            v = e[0][0]["value"]
            return semh_w(v)
        return None

    def operand(self, R, te, exp, where):
        e = te["expression"]
        if e.v != "GateOperand":
            raise Violation(f"{where}: operand is {e.v}")
        o = e[0]
        if exp[0] == "id":
            if o.v != "Identifier" or self.ident_name(R, o[0]) != exp[1]:
                raise Violation(f"{where}: operand is {o!r}, the source has `{exp[1]}`")
        else:
            if o.v != "IndexedIdentifier" or self.ident_name(R, o[0]["identifier"]) != exp[1]:
                raise Violation(f"{where}: operand is {o!r}, the source has `{exp[1]}[{exp[2]}]`")
            idx = o[0]["indexes"]
            if len(idx) != 1 or idx[0].v != "ExpressionList" or len(idx[0][0]["expressions"]) != 1:
                raise Violation(f"{where}: index list of `{exp[1]}[{exp[2]}]` is {idx!r}")
            v = self.lit_val(idx[0][0]["expressions"][0])
            if v is None or not z3.is_true(z3.simplify(v == exp[2])):
                raise Violation(f"{where}: index of `{exp[1]}[{exp[2]}]` is {idx!r}")

    def val(self, ex, te, want, where):
        v = self.lit_val(te)
        if v is None:
            raise Violation(f"{where}: expected an integer literal, the graph has {te['expression'].v}")
        ex.prove(v == want, f"`{self.label()}`: {where}: the literal in the graph is not the one at this position in the source")

    def cmp_block(self, ex, R, stmts, exp, where):
        if len(stmts) != len(exp):
            raise Violation(f"`{self.label()}`: {where} holds {len(stmts)} statements ({[s.v for s in stmts]}), the source has {len(exp)} ({[e[0] for e in exp]})")
        for i, (s, e) in enumerate(zip(stmts, exp)):
            self.cmp(ex, R, s, e, f"{where}[{i}]")

    def cmp(self, ex, R, s, e, where):
        k = e[0]
        bad = lambda: Violation(f"`{self.label()}`: {where}: the source statement is {k}, the graph has {s.v}")
        if k == "Assignment":
            if s.v != "Assignment":
                raise bad()
            self.val(ex, s[0]["rvalue"], e[1], where)
            lv = s[0]["lvalue"]
            if lv.v != "Identifier" or self.ident_name(R, lv[0]) != "a":
                raise Violation(f"`{self.label()}`: {where}: the assignment target in the graph is {lv!r}, the source assigns to `a`")
        elif k == "Scope":
            if s.v != "Block":
                raise bad()
            self.cmp_block(ex, R, s[0]["statements"], e[1], where + ".scope")
        elif k == "DeclNoInit":
            if s.v != "DeclareClassical" or self.ident_name(R, s[0]["name"]) != e[1] or s[0]["initializer"] is not None:
                raise bad()
        elif k == "Asg":
            if s.v != "Assignment":
                raise bad()
            def side(what, node, exp, is_value):
                # node: LValue (target) or Expr (value)
                if exp[0] == "id":
                    if node.v != "Identifier" or self.ident_name(R, node[0]) != exp[1]:
                        raise Violation(f"`{self.label()}`: {where}: the {what} in the graph is {node!r}, the source has the identifier `{exp[1]}`")
                elif exp[0] == "idx":
                    if node.v != "IndexedIdentifier" or self.ident_name(R, node[0]["identifier"]) != exp[1]:
                        raise Violation(f"`{self.label()}`: {where}: the {what} in the graph is {node!r}, the source has `{exp[1]}[..]`")
                    idx = node[0]["indexes"]
                    if len(idx) != 1 or idx[0].v != "ExpressionList" or len(idx[0][0]["expressions"]) != 1:
                        raise Violation(f"`{self.label()}`: {where}: index list of the {what} is {idx!r}")
                    self.val(ex, idx[0][0]["expressions"][0], exp[2], f"{where} index of the {what}")
            side("target", s[0]["lvalue"], e[1], False)
            rv = s[0]["rvalue"]
            if e[2][0] == "lit":
                self.val(ex, rv, e[2][1], f"{where} value")
            else:
                x = rv["expression"]
                while x.v == "Cast":
                    x = x[0]["operand"]["expression"]
                side("value", x, e[2], True)
        elif k in ("Break", "Continue", "End"):
            if s.v != k:
                raise bad()
        elif k == "GateCall":
            if s.v != "GateCall":
                raise bad()
            g = s[0]
            if self.ident_name(R, g["name"]) != e[1]:
                raise Violation(f"`{self.label()}`: {where}: gate call names {g['name']!r}, the source calls `{e[1]}`")
            ps = g["params"]
            if e[2] is None:
                if ps:
                    raise Violation(f"`{self.label()}`: {where}: {len(ps)} parameters in the graph, none in the source")
            else:
                if ps is None or len(ps) != len(e[2]):
                    raise Violation(f"`{self.label()}`: {where}: {0 if ps is None else len(ps)} parameters in the graph, {len(e[2])} in the source")
                for j, (p, w) in enumerate(zip(ps, e[2])):
                    self.val(ex, p, w, f"{where} parameter {j}")
            if len(g["qubits"]) != len(e[3]):
                raise Violation(f"`{self.label()}`: {where}: {len(g['qubits'])} qubit operands in the graph, {len(e[3])} in the source")
            for j, (o, w) in enumerate(zip(g["qubits"], e[3])):
                self.operand(R, o, w, f"`{self.label()}`: {where} operand {j}")
            ms = g["modifiers"]
            if [m.v for m in ms] != [m[0] for m in e[4]]:
                raise Violation(f"`{self.label()}`: {where}: modifiers {[m.v for m in ms]} in the graph, {[m[0] for m in e[4]]} in the source")
            for m, w in zip(ms, e[4]):
                if w[0] == "Pow":
                    self.val(ex, m[0], w[1], f"{where} pow modifier")
        elif k == "Call":
            if s.v != "ExprStmt" or s[0]["expression"].v != "SubroutineCall":
                raise bad()
            c = s[0]["expression"][0]
            if self.ident_name(R, c["name"]) != e[1]:
                raise Violation(f"`{self.label()}`: {where}: call names {c['name']!r}")
            ps = c["params"] or []
            if len(ps) != len(e[2]):
                raise Violation(f"`{self.label()}`: {where}: {len(ps)} arguments in the graph, {len(e[2])} in the source")
            for j, (p, w) in enumerate(zip(ps, e[2])):
                self.val(ex, p, w, f"{where} argument {j}")
        elif k == "Barrier":
            if s.v != "Barrier":
                raise bad()
            qs = s[0]["qubits"] or []
            if len(qs) != len(e[1]):
                raise Violation(f"`{self.label()}`: {where}: barrier with {len(qs)} operands in the graph")
            for j, (o, w) in enumerate(zip(qs, e[1])):
                self.operand(R, o, w, f"`{self.label()}`: {where} operand {j}")
        elif k == "MeasureAssign":
            if s.v != "Assignment" or s[0]["rvalue"]["expression"].v != "MeasureExpression":
                raise bad()
        elif k == "Reset":
            if s.v != "Reset":
                raise bad()
            self.operand(R, s[0]["gate_operand"], e[1], f"`{self.label()}`: {where}")
        elif k == "Decl":
            if s.v != "DeclareClassical":
                raise bad()
            if self.ident_name(R, s[0]["name"]) != e[1]:
                raise Violation(f"`{self.label()}`: {where}: declaration names {s[0]['name']!r}, the source declares `{e[1]}`")
            if s[0]["initializer"] is None:
                raise Violation(f"`{self.label()}`: {where}: the initializer is missing in the graph")
            self.val(ex, s[0]["initializer"], e[2], where + " initializer")
        elif k == "GPhase":
            if s.v != "GPhaseCall":
                raise bad()
            self.val(ex, s[0]["arg"], e[1], where + " gphase argument")
        elif k == "Delay":
            if s.v != "Delay":
                raise bad()
            d = s[0]["duration"]["expression"]
            if d.v != "Literal" or d[0].v != "TimingIntLiteral":
                raise Violation(f"`{self.label()}`: {where}: delay duration is {d.v}")
            ex.prove(semh_w(d[0][0]["value"]) == e[1], f"`{self.label()}`: {where}: the delay duration in the graph is not the one written")
            if d[0][0]["time_unit"].v != "NanoSecond":
                raise Violation(f"`{self.label()}`: {where}: delay unit {d[0][0]['time_unit'].v}")
            if len(s[0]["qubits"]) != len(e[2]):
                raise Violation(f"`{self.label()}`: {where}: delay with {len(s[0]['qubits'])} operands in the graph")
            for j, (o, w) in enumerate(zip(s[0]["qubits"], e[2])):
                self.operand(R, o, w, f"`{self.label()}`: {where} operand {j}")
        elif k == "HwReset":
            if s.v != "Reset":
                raise bad()
            o = s[0]["gate_operand"]["expression"]
            if o.v != "GateOperand" or o[0].v != "HardwareQubit":
                raise Violation(f"`{self.label()}`: {where}: reset operand is {o!r}, the source has a hardware qubit")
        elif k == "IO":
            want = "InputDeclaration" if e[1] == "input" else "OutputDeclaration"
            if s.v != want:
                raise bad()
            if self.ident_name(R, s[0]["name"]) != e[2]:
                raise Violation(f"`{self.label()}`: {where}: {e[1]} declaration names {s[0]['name']!r}")
        elif k == "If":
            if s.v != "If":
                raise bad()
            n = s[0]
            self.cond(ex, n["condition"], e[1], where)
            self.cmp_block(ex, R, n["then_branch"]["statements"], e[2], where + ".then")
            if e[3] is None:
                if n["else_branch"] is not None and n["else_branch"]["statements"]:
                    raise Violation(f"`{self.label()}`: {where}: an else branch with {len(n['else_branch']['statements'])} statements in the graph, none in the source")
            else:
                if n["else_branch"] is None:
                    raise Violation(f"`{self.label()}`: {where}: the else branch is missing in the graph")
                self.cmp_block(ex, R, n["else_branch"]["statements"], e[3], where + ".else")
        elif k == "While":
            if s.v != "While":
                raise bad()
            self.cond(ex, s[0]["condition"], e[1], where)
            self.cmp_block(ex, R, s[0]["loop_body"]["statements"], e[2], where + ".body")
        elif k == "For":
            if s.v != "ForStmt":
                raise bad()
            n = s[0]; it = n["iterable"]; w = e[1]
            if w[0] == "range":
                if it.v != "RangeExpression":
                    raise Violation(f"`{self.label()}`: {where}: iterable is {it.v}, the source has a range")
                r = it[0]
                self.val(ex, r["start"], w[1], where + " range start")
                self.val(ex, r["stop"], w[3], where + " range stop")
                if w[2] is None:
                    if r["step"] is not None:
                        raise Violation(f"`{self.label()}`: {where}: a step in the graph, none in the source")
                else:
                    if r["step"] is None:
                        raise Violation(f"`{self.label()}`: {where}: the step is missing in the graph")
                    self.val(ex, r["step"], w[2], where + " range step")
            else:
                if it.v != "SetExpression":
                    raise Violation(f"`{self.label()}`: {where}: iterable is {it.v}, the source has a set")
                xs = it[0]["expressions"] if "expressions" in it[0].f else it[0][0]
                xs = xs if isinstance(xs, list) else xs["expressions"]
                if len(xs) != len(w[1]):
                    raise Violation(f"`{self.label()}`: {where}: set of {len(xs)} in the graph")
                for j, (x, ww) in enumerate(zip(xs, w[1])):
                    self.val(ex, x, ww, f"{where} set element {j}")
            self.cmp_block(ex, R, n["loop_body"]["statements"], e[2], where + ".body")
        elif k == "Switch":
            if s.v != "SwitchCaseStmt":
                raise bad()
            n = s[0]
            if len(n["cases"]) != len(e[1]):
                raise Violation(f"`{self.label()}`: {where}: {len(n['cases'])} cases in the graph, {len(e[1])} in the source")
            for j, (c, (labs, body)) in enumerate(zip(n["cases"], e[1])):
                if len(c["control_values"]) != len(labs):
                    raise Violation(f"`{self.label()}`: {where} case {j}: {len(c['control_values'])} labels in the graph, {len(labs)} in the source")
                for jj, (x, ww) in enumerate(zip(c["control_values"], labs)):
                    self.val(ex, x, ww, f"{where} case {j} label {jj}")
                self.cmp_block(ex, R, c["statements"], body, f"{where}.case{j}")
            if e[2] is None:
                if n["default_block"]:
                    raise Violation(f"`{self.label()}`: {where}: a default block in the graph, none in the source")
            else:
                if n["default_block"] is None:
                    raise Violation(f"`{self.label()}`: {where}: the default block is missing in the graph")
                self.cmp_block(ex, R, n["default_block"], e[2], where + ".default")
        elif k == "GateDef":
            if s.v != "GateDefinition":
                raise bad()
            n = s[0]
            if self.ident_name(R, n["name"]) != e[1]:
                raise Violation(f"`{self.label()}`: {where}: gate definition names {n['name']!r}")
            if [self.ident_name(R, x) for x in (n["params"] or [])] != ["p"] or [self.ident_name(R, x) for x in n["qubits"]] != ["u", "v"]:
                raise Violation(f"`{self.label()}`: {where}: parameters / qubits of the gate definition are out of order")
            self.cmp_block(ex, R, n["block"]["statements"], e[2], where + ".body")
        elif k == "Def":
            if s.v != "DefStmt":
                raise bad()
            n = s[0]
            if self.ident_name(R, n["name"]) != e[1]:
                raise Violation(f"`{self.label()}`: {where}: def names {n['name']!r}")
            self.cmp_block(ex, R, n["block"]["statements"], e[2], where + ".body")
        elif k == "Annotated":
            if s.v != "AnnotatedStmt":
                raise Violation(f"`{self.label()}`: {where}: the statement after {len(e[1])} annotation(s) is a bare {s.v} in the graph")
            n = s[0]
            got = [a if isinstance(a, str) else a.f.get("annotation_text", a.f.get(0)) for a in n["annotations"]]
            got = [g if isinstance(g, str) else repr(g) for g in got]
            if [g.strip() for g in got] != [t.strip() for t in e[1]]:
                raise Violation(f"`{self.label()}`: {where}: annotations {got} in the graph, {e[1]} in the source")
            self.cmp(ex, R, n["stmt"], e[2], where + ".stmt")
        elif k == "Pragma":
            if s.v != "Pragma":
                raise bad()
            t = s[0]["pragma_text"]
            if t.strip() != e[1].strip():
                raise Violation(f"`{self.label()}`: {where}: pragma text {t!r} in the graph, {e[1]!r} in the source")
        elif k == "Bin":
            if s.v != "ExprStmt" or s[0]["expression"].v != "BinaryExpr":
                raise bad()
            b = s[0]["expression"][0]
            want = BINOPS[e[1]]
            got = (b["op"].v, b["op"][0].v if b["op"].f else None)
            if got != want:
                raise Violation(f"`{self.label()}`: {where}: operator `{e[1]}` is stored as {got[0]}{'(' + got[1] + ')' if got[1] else ''}, expected {want[0]}{'(' + want[1] + ')' if want[1] else ''}")
            for side, nm in (("left", "a"), ("right", "c")):
                x = b[side]["expression"]
                while x.v == "Cast":
                    x = x[0]["operand"]["expression"]
                if x.v != "Identifier" or self.ident_name(R, x[0]) != nm:
                    raise Violation(f"`{self.label()}`: {where}: {side} operand of `{e[1]}` is not `{nm}`")
        elif k == "Nest":
            if s.v != "ExprStmt":
                raise bad()

            def shape_of(te):
                x = te["expression"]
                while x.v == "Cast":
                    x = x[0]["operand"]["expression"]
                if x.v == "Identifier":
                    return self.ident_name(R, x[0])
                if x.v == "BinaryExpr":
                    op = x[0]["op"]
                    return (op[0].v if op.f else op.v, shape_of(x[0]["left"]), shape_of(x[0]["right"]))
                if x.v == "UnaryExpr":
                    return (x[0]["op"].v, shape_of(x[0]["operand"]))
                if x.v == "SubroutineCall":
                    return ("call", self.ident_name(R, x[0]["name"])) + tuple(shape_of(p) for p in (x[0]["params"] or []))
                return x.v
            want = {"a+c*a": ("Add", "a", ("Mul", "c", "a")), "(a+c)*a": ("Mul", ("Add", "a", "c"), "a"), "a*c+a": ("Add", ("Mul", "a", "c"), "a"),
                    "a-c-a": ("Sub", ("Sub", "a", "c"), "a"), "-a+c": ("Add", ("Minus", "a"), "c"), "f(a+c,a)": ("call", "f", ("Add", "a", "c"), "a"),
                    "int(a)-c": ("Sub", "a", "c"), "int[32](a)-c": ("Sub", "a", "c"), "int[32](a)+c": ("Add", "a", "c")}[e[1]]
            got = shape_of(s[0])
            if got != want:
                raise Violation(f"`{self.label()}`: {where}: `{e[1]}` is stored as {got}, the source nests as {want}")
        elif k == "Un":
            if s.v != "ExprStmt":
                raise bad()
            x = s[0]["expression"]
            want = {"-": "Minus", "!": "Not", "~": "BitNot"}[e[1]]
            if x.v != "UnaryExpr" or x[0]["op"].v != want:
                raise Violation(f"`{self.label()}`: {where}: unary `{e[1]}` is stored as {x.v}{'/' + x[0]['op'].v if x.v == 'UnaryExpr' else ''}")
        elif k == "Lit":
            if s.v != "ExprStmt" or s[0]["expression"].v != "Literal":
                raise bad()
            l = s[0]["expression"][0]
            want = {"int": "Int", "hex": "Int", "bin": "Int", "float": "Float", "true": "Bool", "false": "Bool", "bits": "BitString", "timing": "TimingIntLiteral",
                    "timingf": "TimingFloatLiteral", "imag": "ImaginaryInt", "imagf": "ImaginaryFloat"}[e[1]]
            if l.v != want:
                raise Violation(f"`{self.label()}`: {where}: a {e[1]} literal is stored as {l.v}")
            if e[1] in ("true", "false") and l[0]["value"] != (e[1] == "true"):
                raise Violation(f"`{self.label()}`: {where}: `{e[1]}` stored as {l[0]['value']}")
            if e[1] in ("hex", "bin", "int") and l[0]["value"] != {"hex": 31, "bin": 5, "int": 7}[e[1]]:
                raise Violation(f"`{self.label()}`: {where}: integer literal stored as {l[0]['value']}")
            if e[1] == "bits" and l[0]["value"] != "0110":
                raise Violation(f"`{self.label()}`: {where}: bit string stored as {l[0]['value']!r}")
        else:
            raise ValueError(k)

    def cond(self, ex, te, want, where):
        e = te["expression"]
        if e.v != "BinaryExpr" or e[0]["op"].v != "CmpOp":
            raise Violation(f"`{self.label()}`: {where}: condition is {e.v}")
        self.val(ex, e[0]["right"], want, where + " condition")

    def check(self, ex, R):
        body_start = self.starts[self.npre]
        nstmt_pre = 8
        stmts = R.stmts[nstmt_pre:]
        self.cmp_block(ex, R, stmts, self.expected, "program")
        ex.obligations += 1
        return "compared"


def semh_w(v):
    if isinstance(v, SV):
        return z3.ZeroExt(64 - v.w, v.e) if v.w < 64 else z3.Extract(63, 0, v.e)
    return z3.BitVecVal(int(v), 64)


M = ("M",)


def build_tasks(quick):
    T = []
    add = lambda name, items: T.append((name, tuple(items)))
    bodies = {"0": [], "1": [M], "2": [M, M], "3": [M, ("BR",), M]}
    # if / else: every combination of block and single-statement bodies
    for tform in ("block", "single"):
        for eform in ("none", "block", "single"):
            for tb in (["1"] if tform == "single" else ["0", "1", "2"]):
                for eb in (["-"] if eform == "none" else (["1"] if eform == "single" else ["0", "1", "2"])):
                    add(f"if:{tform}{tb}/{eform}{eb}", [M, ("IF", tform, bodies[tb], eform, bodies.get(eb, [])), M])
    # single-statement bodies of other kinds
    for inner in (("GC",), ("BR",), ("CALL",), ("IF", "block", [M], "block", [M, M]), ("IF", "single", [M], "single", [M]), ("WH", "single", [M])):
        add(f"if:single-{inner[0]}", [("IF", "single", [inner], "single", [M]), M])
        add(f"else:single-{inner[0]}", [("IF", "single", [M], "single", [inner]), M])
        add(f"while:single-{inner[0]}", [("WH", "single", [inner]), M])
        add(f"for:single-{inner[0]}", [("FOR", "single", [inner], "range"), M])
    for b in ("0", "1", "2", "3"):
        add(f"while:block{b}", [("WH", "block", bodies[b]), M])
        for itk in ("range", "range3", "set"):
            add(f"for:{itk}/block{b}", [M, ("FOR", "block", bodies[b], itk)])
        add(f"gate:body{b}", [("GATE", "h", [("GC",)] * len(bodies[b])), M])
        add(f"def:body{b}", [("DEF", "e", bodies[b]), M])
    # switch
    for ncase in (1, 2, 3):
        for dflt in (None, "0", "2"):
            cases = [((j % 2) + 1, bodies[str((j + 1) % 3)]) for j in range(ncase)]
            add(f"switch:{ncase}cases/default{dflt}", [M, ("SW", cases, None if dflt is None else bodies[dflt]), M])
    # nesting to depth 3
    deep = ("IF", "block", [M, ("WH", "block", [("IF", "single", [M], "block", [M, M]), M]), M], "block", [("FOR", "block", [M, ("SW", [(1, [M]), (2, [M, M])], [M])], "range")])
    add("nest:if-while-if-for-switch", [M, deep, M])
    add("nest:def-if-for", [("DEF", "e", [M, ("IF", "single", [("FOR", "block", [M, M], "set")], "single", [M]), M]), M])
    if not quick:
        for a_, b_ in itertools.product(["IF", "WH", "FOR", "SW", "DEF"], repeat=2):
            def mk(kind, inner):
                return {"IF": ("IF", "block", [M] + inner, "block", inner + [M]), "WH": ("WH", "block", [M] + inner + [M]), "FOR": ("FOR", "block", inner + [M], "range3"),
                        "SW": ("SW", [(1, inner), (2, [M] + inner)], inner + [M]), "DEF": ("DEF", "e", [M] + inner)}[kind]
            if b_ == "DEF":
                continue
            add(f"nest2:{a_}-{b_}", [M, mk(a_, [mk(b_, [M])]), M])
    # statement order at top level and kinds
    leaves = [M, ("GC",), ("CALL",), ("BAR",), ("MEAS",), ("RESET",), ("BR",), ("CO",), ("END",), ("DECL",), ("GPHASE",), ("DELAY",), ("HWRESET",), ("IO", "input"), ("IO", "output")]
    add("block:all-leaves", [("WH", "block", leaves), M])
    add("gate:leaves", [("GATE", "h", [("GC",), ("GPHASE",), ("MOD", ("inv",)), ("BAR",), ("DELAY",)]), M])
    for i, x in enumerate(leaves):
        for j, y in enumerate(leaves):
            if quick and (i + j) % 3:
                continue
            add(f"order:{x[0]}-{y[0]}", [x, M, y])
    # assignment: target and value in their roles
    for tform in ("id", "idx"):
        for vform in ("id", "idx", "lit"):
            add(f"asg:{tform}={vform}", [("DECLREG",), ("IO", "input") if False else ("DECLD",), ("ASG", tform, vform), M])
    # gate call: modifiers in order
    for mods in [("inv",), ("pow",), ("ctrl",), ("negctrl",), ("inv", "pow"), ("pow", "inv"), ("ctrl", "inv"), ("inv", "ctrl", "pow"), ("negctrl", "ctrl"), ("pow", "pow")]:
        add("mods:" + "-".join(mods), [("MOD", mods), M])
    # annotations and pragmas
    add("ann:1", [M, ("ANN", ["ann x y"], M), M])
    add("ann:2", [M, ("ANN", ["first 1", "second 2"], ("GC",)), M])
    add("ann:if", [("ANN", ["cond"], ("IF", "block", [M], "none", [])), M])
    add("ann:two-statements", [("ANN", ["one"], M), ("ANN", ["two"], M)])
    # annotations inside blocks belong to the statement that follows them in the block, not to the enclosing statement
    add("ann:inside-while", [("WH", "block", [M, ("ANN", ["inner 1"], M)]), M])
    add("ann:inside-if", [("IF", "block", [("ANN", ["inner"], M), M], "block", [M, ("ANN", ["inner2"], M)]), M])
    add("ann:inside-def", [("DEF", "e", [("ANN", ["inner"], M)]), M])
    add("ann:inside-for", [("FOR", "block", [("ANN", ["inner"], M), M], "range"), M])
    add("ann:outer-and-inner", [("ANN", ["outer"], ("WH", "block", [("ANN", ["inner"], M), M])), M])
    # a nested scope `{ ... }` as the last statement of a block is a statement of that block like any other
    add("scope:last-in-while", [("WH", "block", [M, ("SCOPE", [M])]), M])
    add("scope:last-in-if", [("IF", "block", [("SCOPE", [M, M])], "none", []), M])
    add("pragma:1", [M, ("PRAGMA", "some text here 1 2"), M])
    add("pragma:ann", [("PRAGMA", "p q"), ("ANN", ["after pragma"], M)])
    for op in BINOPS:
        add(f"op:{op}", [("OP", op), M])
    for op in "-!":
        add(f"unop:{op}", [("UN", op), M])
    for shape in ("a+c*a", "(a+c)*a", "a*c+a", "a-c-a", "-a+c", "f(a+c,a)", "int(a)-c", "int[32](a)-c"):
        add(f"nest-expr:{shape}", [("NEST", shape), M])
    for lit in ("int", "float", "true", "false", "bits", "timing", "timingf", "imag", "imagf", "hex", "bin"):
        add(f"lit:{lit}", [("LIT", lit), M])
    return T


def run(ctx):
    res = Result()
    tasks = build_tasks(ctx.quick())
    if os.environ.get("VERIF_C06_ONLY"):
        tasks = [t for t in tasks if os.environ["VERIF_C06_ONLY"] in t[0]]
    ctx.log(f"{len(tasks)} model programs after the preamble `{PRE}`")
    fails, counts, on_result = semh.collector(res, label_of=lambda t: t[0])
    st, errs = explore.explore_many(semh.famfactory(ctx.known, ctx.seed, H), tasks, workers=ctx.workers, max_paths=5000, on_result=on_result, log=ctx.log)
    res.merge_stats(st)
    ctx.log(f"{st.get('paths', 0)} paths: {dict(counts)} panic={st.get('panic', 0)} violation={st.get('violation', 0)} unsupported={st.get('unsupported', 0)} wall={st.get('wall', 0):.1f}s")
    semh.triage(ctx, res, "C06", fails)
    res.samples.append({"template": "if (a == m0) m1; else m2;", "outcome": "then-branch holds exactly the statement with marker m1, else-branch m2, for all digit values"})
    res.functions_encoded += ["oq3_semantics::syntax_to_semantics::{syntax_to_semantic, stmt_to_asg_stmt, expr_stmt_to_asg_stmt, block_or_stmt_to_asg_type, block_expr_to_asg_stmt_list, expr_to_asg_texpr, binary_op_to_asg_type, gate_call_expr_to_asg_stmt, modified_gate_call..., literal_to_asg_texpr}",
                              "oq3_syntax::ast::{node_ext, expr_ext}::{true_body_block_or_stmt, false_body_block_or_stmt, block_or_stmt, case_exprs, default_block, op_kind, ...}", "oq3_semantics::context::Context (pending annotations)"]
    res.bounds.update({"model_programs": len(tasks), "nesting": "<= 3 (one depth-4 program)", "markers": "one symbolic decimal digit per statement / operand position"})
    res.stubs += ["rowan tree model", "hashbrown map model", "string models", "float values opaque"]
    res.outside_claim += ["include expansion in place (C18 part c)", "nesting depth 5 of the property's quantifier: depth <= 3/4 here", "array / alias statements (unsupported by the analyser, C03)"]
    res.exhaustive = not res.inconclusive
    return res


replay = semh.replay
