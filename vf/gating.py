"""C11 (b) and (c): errors gate the later stages.

(b) oq3_syntax::parsing::parse_text_check_lex and SourceFile::parse_check_lex are executed from MIR with the lexer result
    (LexedStr with e lexical errors on symbolic token indices), the parser, the tree builder and the validator replaced
    by recording stubs.  Proved: tree present <=> e == 0; with e > 0 nothing downstream runs and the returned diagnostics
    are exactly the lexer's, located on their tokens.
(c) oq3_semantics::analyze_source::<SourceFile> and SourceTrait::have_syntax_errors are executed from MIR on an abstract
    include tree (shapes enumerated, each file's syntax-error list empty / non-empty); syntax_to_semantic is a recording
    stub.  Proved: the analysis runs <=> no file of the tree has a syntax diagnostic; otherwise the result carries an empty
    program, no semantic diagnostics and the syntax-error flag.
"""
import collections, itertools, json, os
import z3
from . import explore, mirdump, stdmodels, strmodel, textmodels
from .interp import Program, Exec, SV, SB, EnumV, VecV, Ref, Opaque, UNIT, Panic, Unsupported, Violation, StepLimit
from .models import Models
from .textmodels import TR


class FamilyB:
    def __init__(self, seed):
        self.prog = Program([mirdump.dump("oq3_parser"), mirdump.dump("oq3_syntax")], mirdump.REPO)
        self.models = Models()
        stdmodels.install(self.models, front=True)
        strmodel.install(self.models); strmodel.install_more(self.models)
        textmodels.install(self.models)
        self.calls = collections.Counter()
        self.cfg = {}
        R = self.models.reg
        n0 = len(self.models.table)
        fam = self

        @R(r"^LexedStr::<'_>::new$")
        def _lexed_new(ex, c, a):
            fam.calls["lex"] += 1
            # C02: what is lexed (and therefore what the tree spells) is the whole input text, not a part or a copy of it
            want = fam.cfg.get("input")
            if want is not None:
                sl = strmodel.as_slice(a[0])
                if not (sl.s is want.s and sl.lo == want.lo and sl.hi == want.hi):
                    raise Violation(f"the text handed to the lexer is not the input text (chars {sl.lo}..{sl.hi} of {want.hi}): the tree cannot spell the input")
            return fam.cfg["lexed"]

        @R(r"^oq3_parser::shortcuts::<impl LexedStr<'_>>::to_input$|^LexedStr::<'_>::to_input$")
        def _to_input(ex, c, a):
            fam.calls["to_input"] += 1
            return Opaque("Input")

        @R(r"^TopEntryPoint::parse$")
        def _parse(ex, c, a):
            fam.calls["parse"] += 1
            return Opaque("Output")

        @R(r"^build_tree$|^parsing::build_tree$")
        def _build(ex, c, a):
            fam.calls["build_tree"] += 1
            return [Opaque("Green"), VecV([Opaque(f"parse-error{i}") for i in range(fam.cfg["p"])]), True]

        @R(r"^validate$|^validation::validate$")
        def _validate(ex, c, a):
            fam.calls["validate"] += 1
            return VecV([Opaque(f"validation-error{i}") for i in range(fam.cfg["v"])])

        @R(r"^rowan::SyntaxNode::<.*>::new_root$")
        def _new_root(ex, c, a):
            return Opaque("RootNode")

        @R(r"^rowan::SyntaxNode::<.*>::kind$")
        def _kind(ex, c, a):
            return fam.K["SOURCE_FILE"]

        @R(r"^triomphe::Arc::<.*>::new$|^Arc::<.*>::new$|^<GreenNode as Clone>::clone$|^<triomphe::Arc<.*> as Deref>::deref$")
        def _arc(ex, c, a):
            return a[0]

        @R(r"^<Vec<.*> as Extend<.*>>::extend::<.*>$")
        def _extend(ex, c, a):
            v = a[0]
            while isinstance(v, Ref):
                v = v.get()
            v.items.extend(a[1].items)
            return UNIT
        new = self.models.table[n0:]
        del self.models.table[n0:]
        self.models.table[0:0] = new
        self.models._cache_lookup.clear()
        for nm in ("LexedStr::<'_>::new", "TopEntryPoint::parse", "build_tree", "validate", "oq3_parser::shortcuts::<impl LexedStr<'_>>::to_input"):
            self.models.force.add(nm)
        vs, hasf, discs = self.prog.enums["SyntaxKind"]
        self.K = {n: (discs[i] if discs else i) for i, n in enumerate(vs)}
        self.ex = Exec(self.prog, self.models, max_steps=200000)
        c = [f for raw, f in self.prog.funcs.items() if raw.split("::")[-1] == "parse_text_check_lex" and f.kind == "fn"]
        self.f_ptcl = c[0]
        self.f_pcl = self.prog.methods.get(("SourceFile", None, "parse_check_lex"))
        if self.f_pcl is None:
            raise RuntimeError("SourceFile::parse_check_lex not found")

    def harness(self, task):
        return GateBHarness(self, task)

    def exec_for(self, h):
        return self.ex


class GateBHarness:
    def __init__(self, fam, task):
        self.fam = fam; self.task = task

    def run(self, ex):
        fam = self.fam
        which, e, p, v = self.task
        ntok = 3
        K = fam.K
        toks = []
        errs = []
        prev = None
        for i in range(e):
            t = SV(z3.BitVec(f"errtok{i}", 32), 32)
            ex.add_constraint(z3.ULT(t.e, ntok))
            if prev is not None:
                ex.add_constraint(z3.UGT(t.e, prev.e))
            prev = t
            # the token index is concretised by forking: it only selects a start offset
            k = ex.choose([(j, t.e == j) for j in range(ntok)])
            errs.append([f"lexical error {i}", k])
            toks.append(k)
        lexed = ["abc", VecV([K["IDENT"]] * ntok + [K["EOF"]]), VecV(list(range(ntok + 1))), VecV(errs)]
        # the input: three symbolic code points (any Unicode scalar value, e.g. a byte order mark)
        chars = [strmodel.fresh_char(f"in{i}") for i in range(3)]
        for ch in chars:
            ex.add_constraint(strmodel.char_domain(ch))
        text = strmodel.StrSlice(strmodel.SymStr(chars, "INPUT"), 0, 3)
        fam.cfg.update({"lexed": lexed, "p": p, "v": v, "input": text})
        fam.calls.clear()
        if which == "text":
            r = ex.run(fam.f_ptcl, [text])
            green, errors = r[0], r[1]
        else:
            r = ex.run(fam.f_pcl, [text])
            green, errors = r[0], r[1]
        while isinstance(errors, Ref):
            errors = errors.get()
        ex.obligations += 3
        has_tree = green.idx == 1
        if has_tree != (e == 0):
            raise Violation(f"tree {'present' if has_tree else 'absent'} with {e} lexical errors")
        if e > 0:
            if fam.calls["parse"] or fam.calls["build_tree"] or fam.calls["to_input"] or fam.calls["validate"]:
                raise Violation("parser / tree builder / validator ran although the lexer reported errors: " + str(dict(fam.calls)))
            if len(errors.items) != e:
                raise Violation(f"{len(errors.items)} diagnostics returned for {e} lexical errors")
            for se, tk in zip(errors.items, toks):
                rng = [x for x in se if isinstance(x, TR)]
                if not rng or (rng[0].start, rng[0].end) != (tk, tk + 1):
                    raise Violation(f"lexical diagnostic not located on its token {tk}: {rng}")
        else:
            want = p + (v if which == "file" else 0)
            if fam.calls["parse"] != 1 or fam.calls["build_tree"] != 1 or (which == "file" and fam.calls["validate"] != 1):
                raise Violation("clean lexing but the parser / builder / validator did not run exactly once: " + str(dict(fam.calls)))
            if len(errors.items) != want:
                raise Violation(f"{len(errors.items)} diagnostics returned, expected the {want} syntactic ones")
        return "b"

    def describe(self, ex, outcome, detail):
        if outcome == "ok":
            return ("ok", detail, ex.obligations)
        return ("fail", outcome, f"{outcome}|gating(b) {self.task}|{detail['msg']}", list(self.task))


# ---------------------------------------------------------------------------------------------------------- (c)
class FamilyC:
    def __init__(self, seed):
        self.prog = Program([mirdump.dump("oq3_syntax"), mirdump.dump("oq3_source_file"), mirdump.dump("oq3_semantics")], mirdump.REPO)
        self.models = Models()
        stdmodels.install(self.models, front=True)
        strmodel.install(self.models); strmodel.install_more(self.models)
        from .h_c19 import install_map_models
        from .h_c20 import install_box_models
        from .h_c18 import install_path_models
        install_box_models(self.models)
        install_map_models(self.models)
        install_path_models(self.models, {"env": None, "env_consulted": 0, "is_file_queries": []})
        self.calls = collections.Counter()
        R = self.models.reg
        n0 = len(self.models.table)
        fam = self

        @R(r"^syntax_to_semantic::<.*>$")
        def _sts(ex, c, a):
            fam.calls["syntax_to_semantic"] += 1
            return [a[1], a[2]]

        @R(r"^<triomphe::Arc<.*> as Deref>::deref$|^<Arc<.*> as Deref>::deref$")
        def _arc(ex, c, a):
            return a[0]

        @R(r"^std::mem::replace::<.*>$")
        def _replace(ex, c, a):
            r = a[0]; old = r.get(); r.set(a[1]); return old
        new = self.models.table[n0:]
        del self.models.table[n0:]
        self.models.table[0:0] = new
        self.models._cache_lookup.clear()
        self.models.force.add("syntax_to_semantic::<SourceFile>")
        self.ex = Exec(self.prog, self.models, max_steps=400000)
        c = [f for raw, f in self.prog.funcs.items() if raw.split("::")[-1] == "analyze_source" and f.kind == "fn"]
        if len(c) != 1:
            raise RuntimeError("analyze_source not found")
        self.f = c[0]

    def harness(self, task):
        return GateCHarness(self, task)

    def exec_for(self, h):
        return self.ex


def tree_shapes(max_files, max_depth):
    """include trees as nested tuples (children...), up to max_files files in total and max_depth levels"""
    def gen(n, d):
        # trees with exactly n nodes and depth <= d
        if n == 1:
            yield ()
            return
        if d <= 1:
            return
        def forests(m, dd):
            # ordered forests with m nodes
            if m == 0:
                yield ()
                return
            for k in range(1, m + 1):
                for t in gen(k, dd):
                    for rest in forests(m - k, dd):
                        yield (t,) + rest
        for f in forests(n - 1, d - 1):
            yield f
    for n in range(1, max_files + 1):
        for t in gen(n, max_depth):
            yield t


class GateCHarness:
    def __init__(self, fam, task):
        self.fam = fam; self.task = task

    def build(self, ex, shape, counter, any_err):
        """SourceFile struct [file_path, syntax_ast: Option<ParseOrErrors>, included: Vec<SourceFile>, include_error]"""
        i = counter[0]; counter[0] += 1
        st = ex.choose([(k, z3.Int(f"file{i}") == k) for k in range(3)])     # 0: parsed clean, 1: parsed with diagnostics, 2: not read (no tree)
        from .h_c18 import PathV
        if st == 2:
            ast = EnumV("Option", 0, [])
        else:
            errs = VecV([Opaque("SyntaxError")] * (1 if st == 1 else 0))
            ast = EnumV("Option", 1, [[EnumV("Option", 1, [Opaque("Green")]), errs, UNIT]])
            if st == 1:
                any_err[0] = True
        kids = VecV([self.build(ex, s, counter, any_err) for s in shape])
        return [PathV((f"file{i}",)), ast, kids, EnumV("Option", 0 if st != 2 else 1, [] if st != 2 else [Opaque("IncludeError")])]

    def run(self, ex):
        fam = self.fam
        any_err = [False]
        src = self.build(ex, self.task, [0], any_err)
        fam.calls.clear()
        r = ex.run(fam.f, [src], tysubst={"T": "SourceFile"})
        # ParseResult { syntax_result, context, have_syntax_errors }
        ctxv = r[1]; flag = r[2]
        ex.obligations += 2
        ran = fam.calls["syntax_to_semantic"] > 0
        if ran == any_err[0]:
            raise Violation("semantic analysis " + ("ran although a file of the include tree has a syntax diagnostic" if ran else "did not run although no file has a syntax diagnostic"))
        if bool(flag) != any_err[0]:
            raise Violation("have_syntax_errors flag disagrees with the include tree")
        if any_err[0]:
            prog = ctxv[0]; errs = ctxv[1]
            stmts = prog[1]
            if len(stmts.items) != 0:
                raise Violation("program not empty although analysis was gated")
            if len(errs[1].items) != 0 or len(errs[2].items) != 0:
                raise Violation("semantic diagnostics present although analysis was gated")
        return "c"

    def describe(self, ex, outcome, detail):
        if outcome == "ok":
            return ("ok", detail, ex.obligations)
        return ("fail", outcome, f"{outcome}|gating(c)|{detail['msg']}", str(self.task))


def famB(seed):
    def f():
        return FamilyB(seed)
    return f


def famC(seed):
    def f():
        return FamilyC(seed)
    return f


def run(ctx, res):
    tasksB = [(w, e, p, v) for w in ("text", "file") for e in (0, 1, 2) for p in (0, 1) for v in (0, 1)]
    tasksC = list(tree_shapes(3 if ctx.quick() else 4, 3))
    fails = collections.OrderedDict()

    def on_result(idx, task, recs, left, stats, err):
        if err:
            res.inconclusive.append(err[:600])
        if left:
            res.inconclusive.append(f"{task} not exhausted")
        if not err and not stats.get("paths"):
            res.inconclusive.append(f"vacuous task {task}")
        for r in recs:
            if r[0] == "ok":
                res.obligations += r[2]
            else:
                fails.setdefault(r[2], r)
    for fam, tasks, label in ((famB(ctx.seed), tasksB, "gating of the parser (b)"), (famC(ctx.seed), tasksC, "gating of the analysis (c)")):
        st, errs = explore.explore_many(fam, tasks, workers=min(ctx.workers, 8), on_result=on_result, log=ctx.log)
        res.merge_stats(st)
        ctx.log(f"{label}: {st.get('paths', 0)} paths over {len(tasks)} tasks ok={st.get('ok', 0)} violation={st.get('violation', 0)} panic={st.get('panic', 0)} unsupported={st.get('unsupported', 0)}")
    for site, r in fails.items():
        if r[1] == "unsupported":
            res.inconclusive.append("unsupported: " + site[:300])
            continue
        rp = os.path.join(ctx.replay_dir, "gate_" + __import__("hashlib").sha1(site.encode()).hexdigest()[:10] + ".json")
        json.dump({"property": "C11", "what": site, "task": r[3]}, open(rp, "w"), indent=1)
        res.violations.append({"what": site, "replay": rp})
    res.functions_encoded += ["oq3_syntax::parsing::{parse_text_check_lex, lexer_errors_to_syntax_errors}", "oq3_syntax::SourceFile::parse_check_lex",
                              "oq3_semantics::syntax_to_semantics::analyze_source::<SourceFile>", "oq3_source_file::SourceTrait::have_syntax_errors (default method, recursive)"]
    res.bounds.update({"lexical_errors": "0-2 on symbolic token indices", "include_tree": f"<= {3 if ctx.quick() else 4} files, depth <= 3, every file clean / with diagnostics / unread"})
    res.stubs += ["LexedStr::new, to_input, TopEntryPoint::parse, build_tree, validate, syntax_to_semantic: recording stubs", "rowan SyntaxNode::new_root/kind, triomphe::Arc"]
