"""Models (stubs with documented contracts) for std / external-crate primitives."""
import re, copy
import z3
from .interp import *

class Models:
    def __init__(self):
        self.table = []
        self.cache = {}
        self.force = set()
        self.skip_re = None       # repository functions that are modelled instead of interpreted (regex over the MIR name)
        self.allocs = {}
        self._cache_lookup = {}
        self.install()
        from . import stdmodels
        stdmodels.install(self, front=False)      # generic combinators fill the gaps

    def reg(self, pat):
        def deco(fn):
            self.table.append((re.compile(pat), fn))
            return fn
        return deco

    def lookup(self, callee):
        h = self._cache_lookup.get(callee, 0)
        if h == 0:
            h = None
            for rx, fn in self.table:
                if rx.search(callee):
                    h = fn; break
            self._cache_lookup[callee] = h
        return h

    def alloc_value(self, ex, name, ty):
        v = self.allocs.get(name)
        if v is None:
            raise Unsupported("alloc " + name + ": " + ty)
        return v

    def install(self):
        R = self.reg

        def deref(x):
            while isinstance(x, Ref):
                x = x.get()
            return x

        # ---- panics
        @R(r"^panic$|^panic_fmt$|^core::panicking::panic(_fmt|_nounwind|_explicit)?$|^std::rt::panic_fmt$|^core::panicking::panic_const|^core::panicking::assert_failed|^std::rt::begin_panic|^core::panicking::unreachable_display|^core::option::unwrap_failed|^core::result::unwrap_failed|^core::option::expect_failed")
        def _panic(ex, c, a):
            msg = a[0] if a and isinstance(a[0], str) else (a[0].what if a and isinstance(a[0], Opaque) else c)
            raise Panic(f"{msg}")

        @R(r"^<(u8|u16|u32|u64|u128|usize|i8|i16|i32|i64|i128|isize) as From<bool>>::from$|^<bool as Into<(u8|u16|u32|u64|u128|usize|i32|i64)>>::into$")
        def _from_bool(ex, c, a):
            b = a[0]
            w = {"u8": 8, "u16": 16, "u32": 32, "u64": 64, "u128": 128, "usize": 64, "i8": 8, "i16": 16, "i32": 32, "i64": 64, "i128": 128, "isize": 64}[re.search(r"(usize|isize|[ui]\d+)", c).group(1)]
            if isinstance(b, SB):
                return SV(z3.If(b.e, z3.BitVecVal(1, w), z3.BitVecVal(0, w)), w)
            if isinstance(b, SV):
                return SV(z3.ZeroExt(w - b.w, b.e) if b.w < w else b.e, w)
            return 1 if b else 0

        # ---- fmt (opaque)
        @R(r"^Arguments::<'_>::(new|from_str|new_const|new_v1)|^core::fmt::rt::Argument::<'_>::new_|^format$|^std::fmt::format|^must_use::<.*>$|^alloc::fmt::format")
        def _fmt(ex, c, a):
            if c.startswith("must_use"):
                return a[0]
            if "from_str" in c and a and isinstance(a[0], str):
                return Opaque("fmt:" + a[0])
            if "Arguments" in c and a:
                t = deref(a[0])
                raw = None
                if isinstance(t, (bytes, bytearray)):
                    raw = bytes(t)
                elif isinstance(t, str):
                    raw = t.encode("latin1", "replace")
                elif hasattr(t, "items") and all(isinstance(x, int) for x in t.items):
                    raw = bytes(x & 255 for x in t.items)
                elif hasattr(t, "data") and isinstance(getattr(t, "data"), (bytes, list)):
                    raw = bytes(t.data)
                if isinstance(t, Opaque) and str(t.what).startswith("bytes:"):
                    return Opaque("fmt:" + str(t.what)[6:])
                if raw is not None:
                    import re as _re
                    return Opaque("fmt:" + " ".join(w.decode() for w in _re.findall(rb"[\x20-\x7e]{3,}", raw)))
                return Opaque("fmt:" + type(t).__name__)
            return Opaque("fmt")

        @R(r"^<T as Into<String>>::into$|^<&str as Into<String>>::into$|^<str as ToString>::to_string$|^<&str as ToString>::to_string$|^<String as From<&str>>::from$|^<T as Into<U>>::into$|^<str as ToOwned>::to_owned$|^String::as_str$|^<String as Deref>::deref$")
        def _str_id(ex, c, a):
            v = deref(a[0])
            return v

        @R(r"^<str as PartialEq>::eq$|^<&str as PartialEq>::eq$|^<String as PartialEq")
        def _str_eq(ex, c, a):
            x, y = deref(a[0]), deref(a[1])
            if isinstance(x, str) and isinstance(y, str):
                return x == y
            raise Unsupported("str eq on opaque")

        @R(r"^core::str::<impl str>::len$")
        def _str_len(ex, c, a):
            return len(deref(a[0]).encode())

        @R(r"^core::str::<impl str>::is_empty$")
        def _str_empty(ex, c, a):
            return len(deref(a[0])) == 0

        @R(r"^core::str::<impl str>::starts_with::<&str>$")
        def _str_sw(ex, c, a):
            return deref(a[0]).startswith(deref(a[1]))

        @R(r"^core::str::<impl str>::ends_with::<char>$")
        def _str_ew(ex, c, a):
            return deref(a[0]).endswith(chr(a[1]))

        @R(r"^core::str::<impl str>::contains::<&str>$")
        def _str_ct(ex, c, a):
            return deref(a[1]) in deref(a[0])

        # ---- Vec
        @R(r"^Vec::<.*>::new$|^<Vec<.*> as Default>::default$")
        def _vec_new(ex, c, a):
            return VecV([])

        @R(r"^Vec::<.*>::push$")
        def _vec_push(ex, c, a):
            deref(a[0]).items.append(a[1]); return UNIT

        @R(r"^Vec::<.*>::pop$")
        def _vec_pop(ex, c, a):
            v = deref(a[0])
            if v.items:
                return EnumV("Option", 1, [v.items.pop()])
            return EnumV("Option", 0, [])

        @R(r"^Vec::<.*>::len$|^core::slice::<impl \[.*\]>::len$")
        def _vec_len(ex, c, a):
            return len(deref(a[0]).items)

        @R(r"^Vec::<.*>::is_empty$")
        def _vec_is_empty(ex, c, a):
            return len(deref(a[0]).items) == 0

        @R(r"^<Vec<.*> as Index(Mut)?<usize>>::index(_mut)?$")
        def _vec_index(ex, c, a):
            v = deref(a[0]); i = ex.concretize(a[1], "vec index")
            if i >= len(v.items):
                raise Panic(f"index out of bounds: the len is {len(v.items)} but the index is {i}")
            return Ref(v.items, i)

        @R(r"^<Vec<.*> as Deref(Mut)?>::deref(_mut)?$")
        def _vec_deref(ex, c, a):
            return a[0]

        @R(r"^core::slice::<impl \[.*\]>::get::<usize>$")
        def _slice_get(ex, c, a):
            v = deref(a[0]); i = ex.concretize(a[1], "slice index")
            if i < len(v.items):
                return EnumV("Option", 1, [Ref(v.items, i)])
            return EnumV("Option", 0, [])

        @R(r"^Vec::<.*>::drain::<RangeFull>$")
        def _vec_drain(ex, c, a):
            v = deref(a[0]); items = list(v.items); v.items.clear()
            return ["iter", items, 0]

        @R(r"^<std::vec::Drain<.*> as Iterator>::rev$")
        def _drain_rev(ex, c, a):
            a[0][1].reverse(); return a[0]

        @R(r"^<.* as IntoIterator>::into_iter$")
        def _into_iter(ex, c, a):
            return a[0]

        @R(r"^<Rev<std::vec::Drain<.*>> as Iterator>::next$")
        def _iter_next(ex, c, a):
            it = deref(a[0])
            if it[2] < len(it[1]):
                x = it[1][it[2]]; it[2] += 1
                return EnumV("Option", 1, [x])
            return EnumV("Option", 0, [])

        # ---- generic iterator protocol
        class SliceIter:
            def __init__(self, items): self.items = items; self.i = 0
            def next(self, ex):
                if self.i < len(self.items):
                    r = Ref(self.items, self.i); self.i += 1
                    return r
                return None
        class MapIter:
            def __init__(self, inner, f): self.inner = inner; self.f = f
            def next(self, ex):
                x = self.inner.next(ex)
                if x is None: return None
                return ex.call_closure(self.f, [x])
        self.SliceIter = SliceIter; self.MapIter = MapIter

        class RangeIter:
            def __init__(self, lo, hi, rev=False): self.lo = lo; self.hi = hi; self.rev = rev
            def next(self, ex):
                if self.lo < self.hi:
                    if self.rev:
                        self.hi -= 1; return self.hi
                    v = self.lo; self.lo += 1; return v
                return None
        class TakeWhile:
            def __init__(self, inner, f): self.inner = inner; self.f = f; self.done = False
            def next(self, ex):
                if self.done: return None
                x = self.inner.next(ex)
                if x is None: return None
                if ex.branch_bool(ex.call_closure(self.f, [Ref([x], 0)])):
                    return x
                self.done = True; return None
        class Enumerate:
            def __init__(self, inner): self.inner = inner; self.i = 0
            def next(self, ex):
                x = self.inner.next(ex)
                if x is None: return None
                r = [self.i, x]; self.i += 1; return r
        class Peekable:
            def __init__(self, inner): self.inner = inner; self.buf = []
            def next(self, ex):
                if self.buf: return self.buf.pop(0)
                return self.inner.next(ex)
            def peek(self, ex):
                if not self.buf:
                    x = self.inner.next(ex)
                    if x is None: return None
                    self.buf.append(x)
                return Ref(self.buf, 0)
        def as_iter(v):
            v = deref(v)
            if isinstance(v, list) and len(v) == 2 and all(isinstance(x, int) for x in v):
                return RangeIter(v[0], v[1])
            if isinstance(v, list):
                raise Unsupported("as_iter of " + repr(v))
            return v
        def opt(x):
            return EnumV("Option", 0, []) if x is None else EnumV("Option", 1, [x])

        @R(r"^<std::ops::Range<usize> as Iterator>::take_while::<")
        def _tw(ex, c, a): return TakeWhile(as_iter(a[0]), a[1])
        @R(r"^<std::ops::Range<usize> as Iterator>::rev$")
        def _rrev(ex, c, a):
            r = as_iter(a[0]); return RangeIter(r.lo, r.hi, True)
        @R(r"^<.* as Iterator>::count$")
        def _count(ex, c, a):
            it = as_iter(a[0]); n = 0
            while it.next(ex) is not None: n += 1
            return n
        @R(r"^<.* as Iterator>::enumerate$")
        def _enum(ex, c, a): return Enumerate(as_iter(a[0]))
        @R(r"^<.* as Iterator>::peekable$")
        def _peekable(ex, c, a): return Peekable(as_iter(a[0]))
        @R(r"^Peekable::<.*>::peek$")
        def _peek(ex, c, a):
            return opt(deref(a[0]).peek(ex))
        @R(r"^<(Peekable|Enumerate|Rev|TakeWhile)<.*> as Iterator>::next$")
        def _gnext2(ex, c, a):
            return opt(deref(a[0]).next(ex))

        @R(r"^core::slice::<impl \[.*\]>::iter$")
        def _slice_iter(ex, c, a):
            return SliceIter(deref(a[0]).items)

        @R(r"^<.* as Iterator>::map::<")
        def _iter_map(ex, c, a):
            return MapIter(as_iter(a[0]), a[1])

        @R(r"^<(Map|std::slice::Iter)<.*> as Iterator>::next$")
        def _gen_next(ex, c, a):
            it = deref(a[0])
            x = it.next(ex)
            if x is None:
                return EnumV("Option", 0, [])
            return EnumV("Option", 1, [x])

        # ---- ranges
        @R(r"^<std::ops::Range<usize> as Iterator>::next$")
        def _range_next(ex, c, a):
            r = deref(a[0])   # struct [start, end]  (or ["range", ...])
            s, e = r[-2], r[-1]
            if isinstance(r[0], str):
                s, e = r[1], r[2]
                if s < e:
                    r[1] = s + 1
                    return EnumV("Option", 1, [s])
                return EnumV("Option", 0, [])
            if s < e:
                r[0] = s + 1
                return EnumV("Option", 1, [s])
            return EnumV("Option", 0, [])

        # ---- Option / Result combinators
        @R(r"^Option::<.*>::unwrap_or$")
        def _opt_unwrap_or(ex, c, a):
            o = a[0]
            return o.fields[0] if o.idx == 1 else a[1]

        @R(r"^Option::<.*>::unwrap_or_else::<")
        def _opt_unwrap_or_else(ex, c, a):
            o = a[0]
            if o.idx == 1:
                return o.fields[0]
            return ex.call_closure(a[1], [])

        @R(r"^Option::<.*>::copied$|^Option::<.*>::cloned$")
        def _opt_copied(ex, c, a):
            o = a[0]
            if o.idx == 1:
                return EnumV("Option", 1, [deref(o.fields[0])])
            return o

        @R(r"^Option::<.*>::is_some$")
        def _opt_is_some(ex, c, a):
            return deref(a[0]).idx == 1

        @R(r"^Option::<.*>::is_none$")
        def _opt_is_none(ex, c, a):
            return deref(a[0]).idx == 0

        @R(r"^Option::<.*>::map::<")
        def _opt_map(ex, c, a):
            o = a[0]
            if o.idx == 1:
                return EnumV("Option", 1, [ex.call_closure(a[1], [o.fields[0]])])
            return o

        @R(r"^Option::<.*>::unwrap$|^Option::<.*>::expect$")
        def _opt_unwrap(ex, c, a):
            o = a[0]
            if o.idx == 1:
                return o.fields[0]
            raise Panic("called `Option::unwrap()` on a `None` value")

        @R(r"^Result::<.*>::is_ok$")
        def _res_is_ok(ex, c, a):
            return deref(a[0]).idx == 0

        @R(r"^Result::<.*>::is_err$")
        def _res_is_err(ex, c, a):
            return deref(a[0]).idx == 1

        @R(r"^<Option<.*> as Try>::branch$")
        def _opt_branch(ex, c, a):
            o = a[0]
            if o.idx == 1:
                return EnumV("ControlFlow", 0, [o.fields[0]])
            return EnumV("ControlFlow", 1, [EnumV("Option", 0, [])])

        @R(r"^<Option<.*> as FromResidual<Option<Infallible>>>::from_residual$")
        def _opt_from_res(ex, c, a):
            return EnumV("Option", 0, [])

        # ---- mem
        @R(r"^std::mem::replace::<")
        def _replace(ex, c, a):
            r = a[0]; old = r.get(); r.set(a[1]); return old

        @R(r"^std::mem::forget::<|^std::mem::drop::<|^drop::<")
        def _forget(ex, c, a):
            if "forget" not in c:
                ex.drop_value(a[0])
            return UNIT

        # ---- Cell
        @R(r"^Cell::<.*>::new$")
        def _cell_new(ex, c, a):
            return [a[0]]

        @R(r"^Cell::<.*>::get$")
        def _cell_get(ex, c, a):
            return deref(a[0])[0]

        @R(r"^Cell::<.*>::set$")
        def _cell_set(ex, c, a):
            deref(a[0])[0] = a[1]; return UNIT

        # ---- ra_ap_limit::Limit, drop_bomb::DropBomb
        @R(r"^Limit::check$")
        def _limit_check(ex, c, a):
            lim = deref(a[0])
            n = ex.concretize(a[1], "limit")
            return EnumV("Result", 0 if n <= lim[0] else 1, [UNIT])

        @R(r"^Limit::new$")
        def _limit_new(ex, c, a):
            return [a[0]]

        @R(r"^DropBomb::new::<")
        def _bomb_new(ex, c, a):
            return Bomb(a[0] if isinstance(a[0], str) else "bomb")

        @R(r"^DropBomb::defuse$")
        def _bomb_defuse(ex, c, a):
            deref(a[0]).defused = True; return UNIT

        # ---- derived / trivial traits on plain data
        def real_eq(ex, c, a):
            """`&A == &B` / `ne` forward to the type's own (derived, in-crate) eq when the MIR has it"""
            m = re.match(r"^<&*(.*) as PartialEq(<.*>)?>::(eq|ne)$", c)
            if m:
                inner = "<%s as PartialEq>::eq" % m.group(1)
                if inner != c:
                    f = ex.prog.resolve(inner)
                    if f is not None and f.kind == "fn":
                        x, y = a[0], a[1]
                        while isinstance(x, Ref) and isinstance(x.get(), Ref):
                            x = x.get()
                        while isinstance(y, Ref) and isinstance(y.get(), Ref):
                            y = y.get()
                        if not isinstance(x, Ref):
                            x = Ref([x], 0)
                        if not isinstance(y, Ref):
                            y = Ref([y], 0)
                        return ex.run(f, [x, y])
            return None

        @R(r"^<.* as PartialEq>::eq$|^<.* as PartialEq<.*>>::eq$")
        def _eq(ex, c, a):
            r = real_eq(ex, c, a)
            if r is not None:
                return r
            return struct_eq(ex, deref(a[0]), deref(a[1]))

        @R(r"^<.* as PartialEq>::ne$|^<.* as PartialEq<.*>>::ne$")
        def _ne(ex, c, a):
            r = real_eq(ex, c, a)
            if r is None:
                r = struct_eq(ex, deref(a[0]), deref(a[1]))
            if isinstance(r, SB):
                return SB(z3.Not(r.e))
            return not r

        @R(r"^std::cmp::(max|min)::<[ui]\d+>$|^std::cmp::(max|min)::<usize>$")
        def _maxmin(ex, c, a):
            x, y = a[0], a[1]
            ismax = "max" in c
            if isinstance(x, int) and isinstance(y, int):
                return max(x, y) if ismax else min(x, y)
            w = x.w if isinstance(x, SV) else y.w
            xe = x.e if isinstance(x, SV) else z3.BitVecVal(x, w)
            ye = y.e if isinstance(y, SV) else z3.BitVecVal(y, w)
            signed = "<i" in c
            gt = (xe > ye) if signed else z3.UGT(xe, ye)
            # std::cmp::max returns the second argument when equal; values are equal then, so either is fine
            return SV(z3.If(gt, xe, ye) if ismax else z3.If(gt, ye, xe), w, signed)

        @R(r"^<.* as Clone>::clone$")
        def _clone(ex, c, a):
            v = deref(a[0])
            return shallow_copy(v)

        @R(r"^<&bool as Not>::not$")
        def _not(ex, c, a):
            v = deref(a[0])
            return SB(z3.Not(v.e)) if isinstance(v, SB) else (not v)

        @R(r"^core::num::<impl u32>::trailing_zeros$")
        def _tz(ex, c, a):
            v = a[0]
            return 32 if v == 0 else (v & -v).bit_length() - 1

        @R(r"^core::num::<impl u32>::trailing_ones$")
        def _to(ex, c, a):
            v = a[0]; n = 0
            while v & 1:
                n += 1; v >>= 1
            return n

        @R(r"^<u16 as Into<.*SyntaxKind>>::into$")
        def _u16_into(ex, c, a):
            return ex.call("<syntax_kind_enum::SyntaxKind as From<u16>>::from", a)

        @R(r"FnMut<.*>>::call_mut$|FnOnce<.*>>::call_once$|Fn<.*>>::call$")
        def _call_mut(ex, c, a):
            args = a[1] if isinstance(a[1], list) else [a[1]]
            f0 = a[0]
            if isinstance(f0, Ref):
                try:
                    f0.get()
                except (KeyError, IndexError):
                    # a capture-less closure is a zero-sized value that the MIR never materialises
                    m = re.match(r"^<(\{closure@[^}]*\}) as ", c)
                    if not m:
                        raise Unsupported("call through an uninitialised closure local: " + c)
                    f0 = ClosureV(m.group(1), [])
            return ex.call_closure(f0, args)

def struct_eq(ex, x, y):
    if isinstance(x, (SV, SB)) or isinstance(y, (SV, SB)):
        if isinstance(x, (SB, bool)) and isinstance(y, (SB, bool)):
            ex_ = x.e if isinstance(x, SB) else z3.BoolVal(x)
            ey_ = y.e if isinstance(y, SB) else z3.BoolVal(y)
            return SB(ex_ == ey_)
        w = x.w if isinstance(x, SV) else y.w
        ea = x.e if isinstance(x, SV) else z3.BitVecVal(x, w)
        eb = y.e if isinstance(y, SV) else z3.BitVecVal(y, w)
        return SB(ea == eb)
    if isinstance(x, EnumV) and isinstance(y, EnumV):
        if x.idx != y.idx:
            return False
        return all_eq(ex, x.fields, y.fields)
    if isinstance(x, list) and isinstance(y, list):
        return all_eq(ex, x, y)
    if isinstance(x, VecV) and isinstance(y, VecV):
        if len(x.items) != len(y.items):
            return False
        return all_eq(ex, x.items, y.items)
    return x == y

def all_eq(ex, xs, ys):
    acc = True
    for p, q in zip(xs, ys):
        r = struct_eq(ex, deref_all(p), deref_all(q))
        if r is False:
            return False
        if isinstance(r, SB):
            acc = r if acc is True else SB(z3.And(acc.e, r.e))
    return acc

def deref_all(x):
    while isinstance(x, Ref):
        x = x.get()
    return x
