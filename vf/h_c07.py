"""C07 - names resolve by lexical scoping; undeclared and duplicate names are diagnosed (stage 2, DESIGN 6/C07).

Programs are scope TEMPLATES (declarations, uses, if/else, while, for, gate, def, switch nested to a bound) whose
identifier names are single symbolic characters from a small pool that contains built-in names (`U`, `π`).  The real
parser builds the tree, ALL of syntax_to_semantic runs from MIR.  The oracle is a symbolic stack-of-scopes model written
from the property text: for every binding `success` and `id` and for every use the expected symbol are z3 terms over the
name characters; on every path the engine's concrete answers (Ok(id) / Err, diagnostics, symbol names) are PROVED equal
to those terms under the path condition, i.e. for every naming the path stands for.
"""
import json, os, hashlib, collections, re, itertools
import z3
from . import explore, native, asgview
from .interp import Exec, SV, SB, EnumV, VecV, Ref, Panic, Unsupported, Violation, StepLimit
from .main import Result
from .sem_kit import SemKit
from .treemodel import NodeV, LeafV

BUILTINS = ["pi", "π", "euler", "ℇ", "tau", "τ", "U"]     # ids 0..6, global scope (symbols.rs)


# ------------------------------------------------------------------------------------------------ templates
# item = (kind, bodies...) ; kinds: D, UL, UE, IF, IFE, WH, FOR, GATE, DEF, SW
LEAVES = ["D", "DI", "UL", "UE"]
BLOCKS = {"IF": 1, "IFE": 2, "WH": 1, "FOR": 1, "GATE": 1, "DEF": 1, "SW": 2}


def seqs(budget, depth, blocks):
    """all item sequences with exactly `budget` items in total (nested items count)"""
    if budget == 0:
        yield ()
        return
    for first_size in range(1, budget + 1):
        for first in items(first_size, depth, blocks):
            for rest in seqs(budget - first_size, depth, blocks):
                yield (first,) + rest


def items(size, depth, blocks):
    if size == 1:
        for k in LEAVES:
            yield (k,)
    if depth > 0 and size >= 1:
        for k in blocks:
            nb = BLOCKS[k]
            inner = size - 1
            if nb == 1:
                for b in seqs(inner, depth - 1, blocks):
                    yield (k, b)
            else:
                for n1 in range(0, inner + 1):
                    for b1 in seqs(n1, depth - 1, blocks):
                        for b2 in seqs(inner - n1, depth - 1, blocks):
                            yield (k, b1, b2)


def templates(budget, depth, blocks):
    out = []
    for n in range(1, budget + 1):
        for s in seqs(n, depth, blocks):
            # a template without any use or with no declaration-like item is uninteresting but cheap; keep all
            out.append(s)
    return out


ALT_USES = ["UG", "UM", "UI", "UX", "UC", "UW", "UD"]


def with_alt_uses(tpls, max_items):
    """every template with at most max_items items that contains the expression-statement use UE, with its LAST such use replaced
    by each other use position (gate operand, measure operand, indexed target, binary operand, if / while condition, designator)"""
    def count(seq):
        return sum(1 + sum(count(b) for b in it[1:]) for it in seq)

    def replace_last(seq, new):
        seq = list(seq)
        for i in range(len(seq) - 1, -1, -1):
            it = seq[i]
            if it == ("UE",):
                seq[i] = (new,)
                return tuple(seq), True
            if len(it) > 1:
                bodies = list(it[1:])
                for j in range(len(bodies) - 1, -1, -1):
                    nb, ok = replace_last(bodies[j], new)
                    if ok:
                        bodies[j] = nb
                        seq[i] = (it[0],) + tuple(bodies)
                        return tuple(seq), True
        return tuple(seq), False
    out = []
    for t in tpls:
        if count(t) > max_items:
            continue
        for a in ALT_USES:
            nt, ok = replace_last(t, a)
            if ok:
                out.append(nt)
    return out


def tname(seq):
    def one(it):
        if len(it) == 1:
            return it[0]
        return it[0] + "(" + "|".join(",".join(one(x) for x in b) for b in it[1:]) + ")"
    return ",".join(one(x) for x in seq)


# ------------------------------------------------------------------------------------------------ program + oracle
class Prog:
    """emits tokens and the oracle event list (in the analyser's binding order)"""
    def __init__(self, pool):
        self.toks = []        # (kind_name, text or slot index)
        self.slots = []       # slot -> token index
        self.events = []      # ("bind", slot, scope, role, path) / ("use", slot, chain, form, path) / ...
        self.scope_n = 0
        self.pool = pool

    def t(self, kn, text):
        self.toks.append((kn, text)); return len(self.toks) - 1

    def name(self):
        s = len(self.slots)
        self.slots.append(self.t("IDENT", ("slot", s)))
        return s

    def new_scope(self):
        self.scope_n += 1
        return self.scope_n

    def emit_seq(self, seq, chain, path):
        for i, it in enumerate(seq):
            self.emit(it, chain, path + (i,))

    def block(self, body, chain, path):
        self.t("L_CURLY", "{"); self.emit_seq(body, chain, path); self.t("R_CURLY", "}")

    def emit(self, it, chain, path):
        k = it[0]
        start = len(self.toks)
        if k == "D":
            self.t("INT_TY", "int"); s = self.name(); self.t("SEMICOLON", ";")
            self.events.append(("bind", s, chain[-1], "decl", path, start))
        elif k == "DI":
            # `int x = y;` : the initializer is a use that precedes the binding of x (a declaration is not visible in its own initializer)
            self.t("INT_TY", "int"); s = self.name(); self.t("EQ", "="); u = self.name(); self.t("SEMICOLON", ";")
            self.events.append(("use", u, tuple(chain), "init", path, start))
            self.events.append(("bind", s, chain[-1], "decl", path, start))
        elif k == "UL":
            s = self.name(); self.t("EQ", "="); self.t("INT_NUMBER", "1"); self.t("SEMICOLON", ";")
            self.events.append(("use", s, tuple(chain), "lvalue", path, start))
        elif k == "UE":
            s = self.name(); self.t("SEMICOLON", ";")
            self.events.append(("use", s, tuple(chain), "expr", path, start))
        elif k == "UG":       # gate operand
            for w_, kn_ in (("U", "IDENT"), ("(", "L_PAREN"), ("0", "INT_NUMBER"), (",", "COMMA"), ("0", "INT_NUMBER"), (",", "COMMA"), ("0", "INT_NUMBER"), (")", "R_PAREN")):
                self.t(kn_, w_)
            s = self.name(); self.t("SEMICOLON", ";")
            self.events.append(("use", s, tuple(chain), "gate-operand", path, start))
        elif k == "UM":       # measure operand
            self.t("MEASURE_KW", "measure"); s = self.name(); self.t("SEMICOLON", ";")
            self.events.append(("use", s, tuple(chain), "measure-operand", path, start))
        elif k == "UI":       # indexed assignment target
            s = self.name(); self.t("L_BRACK", "["); self.t("INT_NUMBER", "0"); self.t("R_BRACK", "]"); self.t("EQ", "="); self.t("INT_NUMBER", "1"); self.t("SEMICOLON", ";")
            self.events.append(("use", s, tuple(chain), "indexed-lvalue", path, start))
        elif k == "UX":       # operand of a binary expression
            self.t("INT_NUMBER", "1"); self.t("PLUS", "+"); s = self.name(); self.t("SEMICOLON", ";")
            self.events.append(("use", s, tuple(chain), "operand", path, start))
        elif k == "UC":       # if condition (evaluated in the enclosing scope)
            self.t("IF_KW", "if"); self.t("L_PAREN", "("); s = self.name(); self.t("R_PAREN", ")")
            self.events.append(("use", s, tuple(chain), "condition", path, start))
            self.new_scope(); self.t("L_CURLY", "{"); self.t("R_CURLY", "}")
        elif k == "UW":       # while condition
            self.t("WHILE_KW", "while"); self.t("L_PAREN", "("); s = self.name(); self.t("R_PAREN", ")")
            self.events.append(("use", s, tuple(chain), "loop-condition", path, start))
            self.new_scope(); self.t("L_CURLY", "{"); self.t("R_CURLY", "}")
        elif k == "UD":       # width designator of a declaration
            self.t("INT_TY", "int"); self.t("L_BRACK", "["); u = self.name(); self.t("R_BRACK", "]"); s = self.name(); self.t("SEMICOLON", ";")
            self.events.append(("use", u, tuple(chain), "designator", path, start))
            self.events.append(("bind", s, chain[-1], "decl", path, start))
        elif k in ("IF", "IFE"):
            self.t("IF_KW", "if"); self.t("L_PAREN", "("); self.t("TRUE_KW", "true"); self.t("R_PAREN", ")")
            self.block(it[1], chain + [self.new_scope()], path + ("then",))
            if k == "IFE":
                self.t("ELSE_KW", "else")
                self.block(it[2], chain + [self.new_scope()], path + ("else",))
        elif k == "WH":
            self.t("WHILE_KW", "while"); self.t("L_PAREN", "("); self.t("TRUE_KW", "true"); self.t("R_PAREN", ")")
            self.block(it[1], chain + [self.new_scope()], path + ("body",))
        elif k == "FOR":
            self.t("FOR_KW", "for"); self.t("INT_TY", "int"); s = self.name(); self.t("IN_KW", "in")
            self.t("L_BRACK", "["); self.t("INT_NUMBER", "0"); self.t("COLON", ":"); self.t("INT_NUMBER", "1"); self.t("R_BRACK", "]")
            sc = self.new_scope()
            self.events.append(("bind", s, sc, "loopvar", path, start))
            self.block(it[1], chain + [sc], path + ("body",))
        elif k == "GATE":
            self.t("GATE_KW", "gate"); g = self.name(); self.t("L_PAREN", "("); p = self.name(); self.t("R_PAREN", ")"); q = self.name()
            sc = self.new_scope()
            self.events.append(("bind", p, sc, "gparam", path, start))
            self.events.append(("bind", q, sc, "gqubit", path, start))
            self.block(it[1], chain + [sc], path + ("body",))
            self.events.append(("bind", g, chain[-1], "gname", path, start))
        elif k == "DEF":
            self.t("DEF_KW", "def"); f = self.name(); self.t("L_PAREN", "("); self.t("INT_TY", "int"); x = self.name(); self.t("R_PAREN", ")")
            sc = self.new_scope()
            self.events.append(("bind", x, sc, "dparam", path, start))
            self.block(it[1], chain + [sc], path + ("body",))
            self.events.append(("bind", f, chain[-1], "dname", path, start))
        elif k == "SW":
            self.t("SWITCH_KW", "switch"); self.t("L_PAREN", "("); self.t("INT_NUMBER", "1"); self.t("R_PAREN", ")"); self.t("L_CURLY", "{")
            self.t("CASE_KW", "case"); self.t("INT_NUMBER", "1")
            self.block(it[1], chain + [self.new_scope()], path + ("case",))
            self.t("DEFAULT_KW", "default")
            self.block(it[2], chain + [self.new_scope()], path + ("default",))
            self.t("R_CURLY", "}")
        else:
            raise ValueError(k)


class Oracle:
    """symbolic stack-of-scopes model"""
    def __init__(self, prog, names):
        self.names = names      # slot -> z3 BV32 term
        self.binds = []         # (slot, scope, success, id)
        self.expect = {}        # event index -> ("bind", success, id) / ("use", found(bool), id)
        count = z3.BitVecVal(len(BUILTINS), 32)
        gl = [(ord(b), i) for i, b in enumerate(BUILTINS) if len(b) == 1]       # multi-char built-ins cannot equal a one-char slot
        for ei, ev in enumerate(prog.events):
            if ev[0] == "bind":
                _, s, sc, role, path, start = ev
                nm = names[s]
                clash = [nm == names[b[0]] for b in self.binds if b[1] == sc]
                if sc == 0:
                    clash += [nm == z3.BitVecVal(c, 32) for c, _ in gl]
                success = z3.Not(z3.Or(clash)) if clash else z3.BoolVal(True)
                bid = count
                count = z3.If(success, count + 1, count)
                self.binds.append((s, sc, success, bid))
                self.expect[ei] = ("bind", success, bid)
            else:
                _, s, chain, form, path, start = ev
                nm = names[s]
                found = z3.BoolVal(False); res = z3.BitVecVal(0xFFFFFFFF, 32)
                # outermost first, so that inner scopes override: built-ins, then scopes of the chain from the outside in
                for c, i in gl:
                    hit = nm == z3.BitVecVal(c, 32)
                    found = z3.Or(hit, found); res = z3.If(hit, z3.BitVecVal(i, 32), res)
                for sc in chain:
                    for b in self.binds:
                        if b[1] == sc:
                            hit = z3.And(b[2], nm == names[b[0]])
                            found = z3.Or(hit, found); res = z3.If(hit, b[3], res)
                self.expect[ei] = ("use", found, res)
        self.final_count = count


class Family:
    def __init__(self, known, seed, pool):
        self.kit = SemKit()
        self.dec = asgview.Decoder(self.kit)
        self.known = known; self.seed = seed; self.pool = pool
        self.ex = self.kit.new_exec(max_steps=4000000)

    def harness(self, task):
        return ScopeHarness(self, task)

    def exec_for(self, h):
        return self.ex


def res_of(n):
    """SymbolIdResult record -> ("ok", id) / ("err", kind)"""
    if n.v == "Ok":
        return ("ok", n[0][0])
    return ("err", n[0].v)


class ScopeHarness:
    def __init__(self, fam, task):
        self.fam = fam; self.seq = task
        self.cache = None

    def run(self, ex):
        fam = self.fam; kit = fam.kit
        P = Prog(fam.pool)
        P.emit_seq(self.seq, [0], ())
        names = []
        for s in range(len(P.slots)):
            c = SV(z3.BitVec(f"name{s}", 32), 32)
            ex.add_constraint(z3.Or([c.e == ord(x) for x in fam.pool]))
            names.append(c)
        self.P = P; self.names = names
        src = kit.source()
        starts = []; pos = 0
        for kn, text in P.toks:
            starts.append(pos)
            if isinstance(text, tuple):
                src.tok("IDENT", [names[text[1]]]); pos += 2
            else:
                src.tok(kn, text); pos += len(text) + 1
        self.starts = starts
        if self.cache is None:
            root = src.build(ex)
            if src.errors or kit.validate(ex, root):
                raise Unsupported("template does not parse: " + tname(self.seq))
            self.cache = root
        root = self.cache
        ctx, errs = kit.analyze(ex, root)
        c = fam.dec.decode(ctx, "Context")
        el = fam.dec.decode(errs, "SemanticErrorList")
        orc = Oracle(P, [n.e for n in names])
        # ---- engine answers, walked in template order
        got = {}
        self.walk(self.seq, c["program"]["stmts"], (), got)
        nb = 0
        for ei, ev in enumerate(P.events):
            key = (ev[0], ev[1])
            if key not in got:
                raise Violation(f"the graph has no node for the {ev[3]} of name slot {ev[1]} ({tname(self.seq)})")
            g = got[key]
            exp = orc.expect[ei]
            if g[0] == "skip":
                continue
            what = f"{ev[3]} `{self.slot_text(ev[1])}` at {ev[4]}"
            if ev[0] == "bind":
                if g[0] == "ok":
                    ex.prove(z3.And(exp[1], exp[2] == g[1]), f"{what}: bound as SymbolId({g[1]}) where lexical scoping gives another outcome (duplicate in the same scope, or another id)", {"event": ei})
                else:
                    if g[1] != "AlreadyBound":
                        raise Violation(f"{what}: binding failed with {g[1]}")
                    ex.prove(z3.Not(exp[1]), f"{what}: reported as already bound although no earlier declaration of that name is in the same scope", {"event": ei})
            else:
                if g[0] == "ok":
                    ex.prove(z3.And(exp[1], exp[2] == g[1]), f"{what}: resolved to SymbolId({g[1]}), not to the innermost enclosing preceding declaration", {"event": ei})
                else:
                    if g[1] != "MissingBinding":
                        raise Violation(f"{what}: look-up failed with {g[1]}")
                    ex.prove(z3.Not(exp[1]), f"{what}: unresolved although a declaration of that name is visible", {"event": ei})
                    if ev[3] == "expr" and g[2] != "Undefined":
                        raise Violation(f"{what}: unresolved use is typed {g[2]}, not Undefined")
        # ---- diagnostics: exactly one UndefVarError per unresolved use, one RedeclarationError per failed binding
        errpos = collections.Counter()
        for e in el["list"]:
            k = e["error_kind"].v
            if k in ("UndefVarError", "RedeclarationError"):
                node = e["node"]
                errpos[(k, node.clo, node.chi)] += 1
        used = set()
        for ei, ev in enumerate(P.events):
            g = got[(ev[0], ev[1])]
            if g[0] == "skip":
                # the look-up result of a designator is not stored in the graph; its UndefVarError is the observable
                exp = orc.expect[ei]
                tokpos = self.starts[P.slots[ev[1]]]
                cands = [k for k in errpos if k[0] == "UndefVarError" and k[1] <= tokpos < k[2] and k not in used]
                n = errpos[cands[0]] if cands else 0
                if cands:
                    used.add(cands[0])
                ex.prove(z3.BoolVal(n == 1) == z3.Not(exp[1]), f"{ev[3]} `{self.slot_text(ev[1])}` at {ev[4]}: UndefVarError reported {n} times, which is wrong for the declarations visible there")
                continue
            tokpos = self.starts[P.slots[ev[1]]]
            kind = "RedeclarationError" if ev[0] == "bind" else "UndefVarError"
            # the diagnostic is attached to the identifier or to a node that starts with / contains it
            cands = [k for k in errpos if k[0] == kind and k[1] <= tokpos < k[2] and k not in used]
            cands.sort(key=lambda k: k[2] - k[1])
            n = 0
            if cands:
                n = errpos[cands[0]]; used.add(cands[0])
            if g[0] == "err" and n != 1:
                raise Violation(f"{ev[3]} `{self.slot_text(ev[1])}` at {ev[4]}: {kind} reported {n} times (expected exactly once)")
            if g[0] == "ok" and n != 0:
                raise Violation(f"{ev[3]} `{self.slot_text(ev[1])}` at {ev[4]}: {kind} reported although the name {'was bound' if ev[0] == 'bind' else 'resolved'}")
        extra = [k for k in errpos if k not in used]
        if extra:
            raise Violation(f"{extra[0][0]} reported at chars {extra[0][1]}..{extra[0][2]} where no name of the template is undeclared / duplicated")
        # ---- the symbol table: ids index symbols named as written; out-of-scope names are gone
        syms = c["symbol_table"]["all_symbols"]
        for ei, ev in enumerate(P.events):
            g = got[(ev[0], ev[1])]
            if g[0] != "ok":
                continue
            if not (0 <= g[1] < len(syms)):
                raise Violation(f"SymbolId({g[1]}) is not an index of the final symbol table ({len(syms)} symbols)")
            raw = g[3] if ev[0] == "use" else None
            nm = syms[g[1]]["name"]
            chars = nm if isinstance(nm, list) else [ord(ch) for ch in nm]
            if len(chars) != 1:
                raise Violation(f"symbol {g[1]} is named {nm!r}, the identifier as written has one character")
            ce = chars[0].e if isinstance(chars[0], SV) else z3.BitVecVal(chars[0], 32)
            ex.prove(ce == names[ev[1]].e, f"symbol {g[1]} is not named like the identifier `{self.slot_text(ev[1])}` that refers to it")
        st = c["symbol_table"]["scope_symbol_table_stack"]
        if len(st) != 1:
            raise Violation(f"{len(st)} scopes open at the end")
        ex.obligations += 2
        return "checked"

    def slot_text(self, s):
        return f"#{s}"

    # the graph walk mirrors the template
    def walk(self, seq, stmts, path, got):
        P = self.P
        if len(stmts) != len(seq):
            raise Violation(f"block at {path} holds {len(stmts)} statements, the source has {len(seq)}")
        for i, (it, st) in enumerate(zip(seq, stmts)):
            self.walk_item(it, st, path + (i,), got)

    def slot_of(self, path, role):
        for ev in self.P.events:
            if ev[4] == path and ev[3] == role:
                return ev[1]
        raise KeyError((path, role))

    def walk_item(self, it, st, path, got):
        k = it[0]
        want = {"UG": "GateCall", "UM": "ExprStmt", "UI": "Assignment", "UX": "ExprStmt", "UC": "If", "UW": "While", "UD": "DeclareClassical",
                "D": "DeclareClassical", "DI": "DeclareClassical", "UL": "Assignment", "UE": "ExprStmt", "IF": "If", "IFE": "If", "WH": "While", "FOR": "ForStmt",
                "GATE": "GateDefinition", "DEF": "DefStmt", "SW": "SwitchCaseStmt"}[k]
        if st.v != want:
            raise Violation(f"statement at {path} is {st.v} in the graph, {want} in the source")
        n = st[0]
        if k == "D":
            got[("bind", self.slot_of(path, "decl"))] = res_of(n["name"])
        elif k == "DI":
            got[("bind", self.slot_of(path, "decl"))] = res_of(n["name"])
            init = n["initializer"]
            if init is None:
                raise Violation(f"declaration at {path} lost its initializer in the graph")
            e = init["expression"]
            while e.v == "Cast":
                e = e[0]["operand"]["expression"]
            if e.v != "Identifier":
                raise Violation(f"initializer at {path} is {e.v}")
            got[("use", self.slot_of(path, "init"))] = res_of(e[0]) + (None, None)
        elif k in ("UG", "UM", "UI", "UX", "UC", "UW", "UD"):
            def unwrap(te):
                e = te["expression"]
                while e.v == "Cast":
                    e = e[0]["operand"]["expression"]
                return e

            def ident(e, what):
                if e.v == "GateOperand":
                    e = e[0]
                if e.v != "Identifier":
                    raise Violation(f"{what} at {path} is {e.v} in the graph")
                return res_of(e[0]) + (None, None)
            if k == "UG":
                if len(n["qubits"]) != 1:
                    raise Violation(f"gate call at {path} has {len(n['qubits'])} operands")
                got[("use", self.slot_of(path, "gate-operand"))] = ident(unwrap(n["qubits"][0]), "gate operand")
            elif k == "UM":
                e = unwrap(n)
                if e.v != "MeasureExpression":
                    raise Violation(f"measure statement at {path} is {e.v}")
                got[("use", self.slot_of(path, "measure-operand"))] = ident(unwrap(e[0]["operand"]), "measure operand")
            elif k == "UI":
                lv = n["lvalue"]
                if lv.v != "IndexedIdentifier":
                    raise Violation(f"indexed assignment target at {path} is {lv.v}")
                got[("use", self.slot_of(path, "indexed-lvalue"))] = res_of(lv[0]["identifier"]) + (None, None)
            elif k == "UX":
                e = unwrap(n)
                if e.v != "BinaryExpr":
                    raise Violation(f"binary expression statement at {path} is {e.v}")
                got[("use", self.slot_of(path, "operand"))] = ident(unwrap(e[0]["right"]), "right operand")
            elif k == "UC":
                got[("use", self.slot_of(path, "condition"))] = ident(unwrap(n["condition"]), "if condition")
            elif k == "UW":
                got[("use", self.slot_of(path, "loop-condition"))] = ident(unwrap(n["condition"]), "while condition")
            elif k == "UD":
                got[("bind", self.slot_of(path, "decl"))] = res_of(n["name"])
                got[("use", self.slot_of(path, "designator"))] = ("skip",)
        elif k == "UL":
            lv = n["lvalue"]
            if lv.v != "Identifier":
                raise Violation(f"lvalue at {path} is {lv.v}")
            got[("use", self.slot_of(path, "lvalue"))] = res_of(lv[0]) + (None, None)
        elif k == "UE":
            e = n["expression"]
            if e.v != "Identifier":
                raise Violation(f"expression statement at {path} is {e.v}")
            got[("use", self.slot_of(path, "expr"))] = res_of(e[0]) + (n["ty"].v, None)
        elif k in ("IF", "IFE"):
            self.walk(it[1], n["then_branch"]["statements"], path + ("then",), got)
            if k == "IFE":
                if n["else_branch"] is None:
                    raise Violation(f"else branch at {path} missing in the graph")
                self.walk(it[2], n["else_branch"]["statements"], path + ("else",), got)
            elif n["else_branch"] is not None and n["else_branch"]["statements"]:
                raise Violation(f"if without else at {path} has an else branch in the graph")
        elif k == "WH":
            self.walk(it[1], n["loop_body"]["statements"], path + ("body",), got)
        elif k == "FOR":
            got[("bind", self.slot_of(path, "loopvar"))] = res_of(n["loop_var"])
            self.walk(it[1], n["loop_body"]["statements"], path + ("body",), got)
        elif k == "GATE":
            got[("bind", self.slot_of(path, "gname"))] = res_of(n["name"])
            ps = n["params"] or []
            if len(ps) != 1 or len(n["qubits"]) != 1:
                raise Violation(f"gate at {path}: {len(ps)} params / {len(n['qubits'])} qubits in the graph, 1 / 1 in the source")
            got[("bind", self.slot_of(path, "gparam"))] = res_of(ps[0])
            got[("bind", self.slot_of(path, "gqubit"))] = res_of(n["qubits"][0])
            self.walk(it[1], n["block"]["statements"], path + ("body",), got)
        elif k == "DEF":
            got[("bind", self.slot_of(path, "dname"))] = res_of(n["name"])
            if len(n["params"]) != 1:
                raise Violation(f"def at {path}: {len(n['params'])} params in the graph")
            got[("bind", self.slot_of(path, "dparam"))] = res_of(n["params"][0])
            self.walk(it[1], n["block"]["statements"], path + ("body",), got)
        elif k == "SW":
            if len(n["cases"]) != 1 or n["default_block"] is None:
                raise Violation(f"switch at {path}: {len(n['cases'])} cases, default {'present' if n['default_block'] is not None else 'absent'}")
            self.walk(it[1], n["cases"][0]["statements"], path + ("case",), got)
            self.walk(it[2], n["default_block"], path + ("default",), got)

    def render(self, model):
        out = []
        for kn, text in self.P.toks:
            if isinstance(text, tuple):
                out.append(chr(model.get(f"name{text[1]}", ord(self.fam.pool[0]))))
            else:
                out.append(text)
        return " ".join(out)

    def describe(self, ex, outcome, detail):
        if outcome == "ok":
            import zlib
            text = None
            if zlib.crc32(repr((list(ex.decisions), tname(self.seq), self.fam.seed)).encode()) % 400 == 0:
                text = self.render(ex.model() or {})       # a seed-chosen sample of passing paths for the engine-vs-native comparison
            return ("ok", detail, ex.obligations, text)
        model = ex.model() or {}
        text = self.render(model) if hasattr(self, "P") else ""
        stack = detail.get("stack") or []
        fn = stack[-1].split("::")[-1] if stack else "?"
        msg = re.sub(r"`#\d+`", "`_`", detail["msg"])
        msg = re.sub(r" at \([^)]*\)", "", msg)
        msg = re.sub(r"SymbolId\(\d+\)|symbol \d+", "SymbolId(_)", msg)
        site = f"{outcome}|{fn if outcome != 'violation' else ''}|{msg[:160]}"
        return ("fail", outcome, site, text, tname(self.seq), detail["msg"])


def famfactory(known, seed, pool):
    def f():
        return Family(known, seed, pool)
    return f


def native_check(text):
    return native.run_one("semantic " + native.hexs(text), "dev", timeout=20)


_CONF = {}


def engine_agrees_with_native(text):
    """the violating naming is concrete: the engine's graph / diagnostics for that text must be what the native pipeline
    produces (then the refuted obligation is a fact about the real code).  Returns None if they agree, else the difference."""
    from . import s2validate
    if "kit" not in _CONF:
        _CONF["kit"] = SemKit(); _CONF["ex"] = _CONF["kit"].new_exec(max_steps=5000000)
        _CONF["sn"] = s2validate.structs(_CONF["kit"].prog)
    kit, ex = _CONF["kit"], _CONF["ex"]
    toks = s2validate.tokens_of(text)
    if toks is None:
        return "the text has lexical errors"
    nat = native_check(text)
    if native.failed(nat):
        return "native run failed: " + str(nat)[:200]
    ex.reset([])
    try:
        r = s2validate.engine_run(kit, ex, toks)
    except (Panic, Unsupported, StepLimit) as e:
        return "engine: " + repr(e)[:200]
    return s2validate.compare(kit, _CONF["sn"], r, nat)


def run(ctx):
    res = Result()
    budget = int(os.environ.get("VERIF_C07_ITEMS", 3 if ctx.quick() else 4))
    depth = int(os.environ.get("VERIF_C07_DEPTH", 2 if ctx.quick() else 3))
    pool = os.environ.get("VERIF_C07_POOL", "abU")
    blocks = list(BLOCKS)
    if ctx.quick() or os.environ.get("VERIF_C07_ITEMS"):
        tasks = templates(budget, depth, blocks)
    else:
        # thorough: 3 items nested to depth 3, plus every 4-item program with nesting 1 (the full 4 x 3 product is ~180 k templates,
        # about 9 hours on 16 cores - measured - and is left outside the claim)
        tasks = templates(3, 3, blocks)
        seen = set(tasks)
        tasks += [t for t in templates(4, 1, blocks) if t not in seen]
    tasks += with_alt_uses(tasks, 2 if ctx.quick() else 3)
    if os.environ.get("VERIF_C07_ONLY"):
        tasks = [t for t in tasks if tname(t) == os.environ["VERIF_C07_ONLY"]]
    ctx.log(f"{len(tasks)} scope templates (<= {budget} items, nesting <= {depth}), names from `{pool}`")
    pool2_tasks = []
    if not ctx.quick() and not os.environ.get("VERIF_C07_ONLY"):
        # the second built-in one-character name (the pi sign) collides on the small templates only: 4^k namings
        pool2_tasks = templates(2, 2, blocks)
    fails = collections.OrderedDict(); counts = collections.Counter()

    def on_result(idx, task, recs, left, stats, err):
        if err:
            res.inconclusive.append(err[:500])
        if left:
            res.inconclusive.append(f"{tname(task)} not exhausted")
        for r in recs:
            if r[0] == "ok":
                counts[r[1]] += 1; res.obligations += r[2]
                if len(r) > 3 and r[3] and len(res.extra.setdefault("_ok_samples", [])) < 400:
                    res.extra["_ok_samples"].append(r[3])
            else:
                d = fails.setdefault(r[2], {"count": 0, "ex": []})
                d["count"] += 1
                if len(d["ex"]) < 3:
                    d["ex"].append(r)
    st, errs = explore.explore_many(famfactory(ctx.known, ctx.seed, pool), tasks, workers=ctx.workers, max_paths=50000, on_result=on_result, log=ctx.log)
    res.merge_stats(st)
    if pool2_tasks:
        st2, errs2 = explore.explore_many(famfactory(ctx.known, ctx.seed, "abUπ"), pool2_tasks, workers=ctx.workers, max_paths=50000, on_result=on_result, log=ctx.log)
        res.merge_stats(st2)
        ctx.log(f"pool `abUπ` on {len(pool2_tasks)} templates of <= 2 items: {st2.get('paths', 0)} paths")
    ctx.log(f"{st.get('paths', 0)} paths: {dict(counts)} panic={st.get('panic', 0)} violation={st.get('violation', 0)} unsupported={st.get('unsupported', 0)} wall={st.get('wall', 0):.1f}s")
    from . import semh
    semh.validate_samples(ctx, res)
    known_by_id = {k["id"]: k for k in ctx.known}
    seen = collections.Counter()
    for site, info in fails.items():
        r0 = info["ex"][0]
        if r0[1] in ("unsupported", "stuck"):
            res.inconclusive.append(f"{r0[1]} ({info['count']} paths): {site[:200]} e.g. `{r0[3]}` [{r0[4]}]")
            continue
        if r0[1] == "panic":
            # analysis panics are C03's subject; here they only mean that the scoping outcome cannot be observed
            o = native_check(r0[3])
            if native.failed(o):
                res.extra.setdefault("skipped_because_analysis_panics", []).append({"site": site[:160], "paths": info["count"], "example": r0[3]})
                continue
            res.inconclusive.append(f"engine panic does not reproduce natively ({info['count']} paths): {site[:200]} e.g. `{r0[3]}`")
            continue
        o = native_check(r0[3])
        diff = engine_agrees_with_native(r0[3])
        if diff is not None:
            res.inconclusive.append(f"counterexample not confirmed: engine and native differ on `{r0[3]}`: {diff}")
            continue
        res.validated += 1
        kid = None
        for k in ctx.known:
            if re.search(k["site"], site):
                kid = k["id"]; break
        if kid:
            seen[kid] += info["count"]
            if seen[kid] == info["count"]:
                res.known_hits.append(f"{kid}: {known_by_id[kid].get('what', '')} (e.g. `{r0[3]}`)")
            continue
        what = {"site": site, "paths": info["count"], "template": r0[4], "program": r0[3], "detail": r0[5],
                "native": {"errors": (o or {}).get("semantic_errors"), "program": str((o or {}).get("program"))[:600]}}
        rp = os.path.join(ctx.replay_dir, "scope_" + hashlib.sha1(site.encode()).hexdigest()[:10] + ".json")
        json.dump({"property": "C07", "program": r0[3], "what": what}, open(rp, "w"), indent=1)
        res.violations.append({"what": json.dumps(what), "replay": rp})
        res.samples.append(what)
    res.samples.append({"template": "D,IF(D,UL)", "outcome": "for every naming: the use binds to the inner declaration iff the names are equal, else to the outer one, else it is undefined"})
    res.functions_encoded += ["oq3_semantics::syntax_to_semantics::* (reached)", "oq3_semantics::symbols::* (SymbolTable, ScopeSymbolTable)", "oq3_semantics::context::*", "oq3_parser (tree construction)"]
    res.bounds.update({"items_per_program": budget if ctx.quick() else "3 (nesting 3) and 4 (nesting 1)", "nesting": depth, "name_pool": pool, "templates": len(tasks)})
    res.stubs += ["rowan tree model", "hashbrown map model (HashMap contract)", "string models"]
    res.assumptions += ["a gate / subroutine name becomes visible after its definition (C09: bound after the body), a for-loop variable shares the scope of the loop body"]
    res.outside_claim += ["names longer than one character (only single-character built-ins U and π collide)", "programs with more items / deeper nesting", "use positions beyond: assignment target, expression statement, initializer, gate / measure operand, indexed target, binary operand, if / while condition, width designator"]
    res.exhaustive = not res.inconclusive
    return res


def replay(ctx, path):
    d = json.load(open(path))
    o = native_check(d["program"])
    print(json.dumps(o)[:1500])
    print("expected:", d["what"].get("detail"))
    return 1
