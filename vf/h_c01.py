"""C01 - lexing and parsing return normally on every input (no panic, no hang).

Parser part: every token-kind sequence of length <= N over the full token alphabet with every joint-bit
word, executed symbolically through TopEntryPoint::parse (MIR of oq3_parser, dev profile: debug
assertions and overflow checks are explicit).  Lexer part: see lexer_kit / run_lexer below.
"""
import json, os, random, time, collections, hashlib
import z3
from . import explore, native, findings
from .interp import Exec, SV, SB, Panic, Unsupported, Violation, StepLimit
from .main import Result
from .parser_kit import ParserKit
from .seg import SegRunner

STEP_BASE = 40000          # MIR statements allowed per path: STEP_BASE * (n + 2)
EVENTS_PER_TOKEN = 64


class PEnv:
    """pattern environment for known-finding patterns: t(i) = kind of token i (EOF past the end), K.NAME"""
    def __init__(self, kit, toks):
        self.kit = kit; self.toks = toks

    def env(self):
        kit = self.kit
        n = len(self.toks)

        class KK:
            pass
        for nm, v in kit.K.items():
            setattr(KK, nm, z3.BitVecVal(v, 16))

        def t(i):
            if 0 <= i < n:
                x = self.toks[i]
                return x.e if isinstance(x, SV) else z3.BitVecVal(x, 16)
            return z3.BitVecVal(kit.K["EOF"], 16)

        def exists(f, lo=0, hi=None):
            return z3.Or([f(i) for i in range(lo, (n if hi is None else hi))] or [z3.BoolVal(False)])
        def anyof(x, names):
            return z3.Or([x == getattr(KK, nm) for nm in names.split()])
        return {"t": t, "K": KK, "n": n, "exists": exists, "anyof": anyof}


class ParserHarness:
    """mode None: uncut, whole TopEntryPoint::parse.  mode 'A'/'B': one construct from a top-level loop head
    (seg.SegRunner) with the parser positioned at token index P."""
    def __init__(self, n, known, seed, sample_rate=0.02, mode=None, P=0):
        self.n = n; self.known = known; self.seed = seed; self.sample_rate = sample_rate
        self.mode = mode; self.P = P
        self.kit = None

    def make_exec(self):
        self.kit = ParserKit()
        if self.mode:
            self.seg = SegRunner(self.kit)
        return Exec(self.kit.prog, self.kit.models, max_steps=STEP_BASE * (self.n + 2))

    def run(self, ex):
        kit = self.kit
        self.toks = kit.sym_tokens(self.n)
        kit.constrain_alphabet(ex, self.toks)
        nw = (self.P + self.n) // 64 + 1
        self.jws = [SV(z3.BitVec(f"joint{w}", 64), 64) for w in range(nw)]
        if self.mode is None:
            out = kit.parse(ex, self.toks, self.jws[0])
            steps = kit.decode(out)
            self.last = {"kind": "full", "consumed": self.n}
        else:
            r = self.seg.run(ex, self.toks, self.jws, self.mode, self.P)
            steps = r["steps"]; self.last = r
        if len(steps) > EVENTS_PER_TOKEN * (self.n + 1):
            raise StepLimit(f"event list grew to {len(steps)} entries for {self.n} tokens")
        return steps

    def concrete(self, ex, model):
        ks = self.kit.model_tokens(model, self.n)
        js = []
        for i in range(self.n):
            g = self.P + i
            js.append((model.get(f"joint{g // 64}", 0) >> (g % 64)) & 1)
        return ks, js

    def describe(self, ex, outcome, detail):
        kit = self.kit
        if outcome == "ok":
            h = hashlib.sha256((str(self.seed) + ":" + ",".join(map(str, ex.decisions))).encode()).digest()
            if h[0] / 256.0 >= self.sample_rate or self.mode is not None:
                return ("ok", len(detail), ex.steps, self.last["kind"], self.last["consumed"])
            model = ex.model() or {}
            ks, js = self.concrete(ex, model)
            steps = []
            for s in detail:
                if s[0] in ("token", "enter") and isinstance(s[1], SV):
                    v = z3.simplify(z3.substitute(s[1].e, *[(z3.BitVec(f"k{i}", 16), z3.BitVecVal(ks[i], 16)) for i in range(self.n)]))
                    s = (s[0], v.as_long()) + tuple(s[2:])
                if s[0] == "error":
                    s = ("error",)
                steps.append(list(s))
            return ("sample", len(detail), ex.steps, ks, js, steps)
        model = ex.model() or {}
        ks, js = self.concrete(ex, model)
        fn = detail["stack"][-1] if detail.get("stack") else "?"
        site = f"{outcome}|{fn}|{detail['msg']}"
        kid = None
        if outcome in ("panic", "stuck", "violation"):
            kid = findings.match_known(ex, self.known, site, PEnv(kit, self.toks).env())
        return ("fail", outcome, site, ks, js, kid, detail.get("stack", [])[-5:])


def _hfactory(n, known, seed, rate, mode=None, P=0):
    def f():
        return ParserHarness(n, known, seed, rate, mode, P)
    return f


def names_of(kit, ks):
    return [kit.names.get(k, str(k)) for k in ks]


def native_parse_kinds(ks, js, profile="dev", timeout=10):
    line = "parse_kinds " + (",".join(map(str, ks)) or "-") + " " + (",".join(map(str, js)) or "-")
    return native.run_one(line, profile, timeout=timeout, mem_gb=2), line


def run_parser(ctx, res, N, NC, POFF=()):
    kit = ParserKit()
    res.functions_encoded += ["oq3_parser::TopEntryPoint::parse", "oq3_parser::grammar::* (all)", "oq3_parser::parser::* (all)",
                              "oq3_parser::event::process", "oq3_parser::token_set::*", "oq3_parser::input::*", "oq3_parser::output::*"]
    res.bounds["parser_tokens_uncut"] = N
    res.bounds["parser_tokens_one_construct_from_loop_head"] = NC
    res.bounds["parser_start_offsets"] = [0] + list(POFF)
    res.bounds["parser_alphabet"] = len(kit.alphabet)
    res.bounds["joint_bits"] = "all 2^64 words"
    res.bounds["steps_per_path"] = f"{STEP_BASE}*(n+2) MIR statements; events <= {EVENTS_PER_TOKEN}*(n+1)"
    fails = {}
    samples = []
    maxsteps = collections.Counter()
    plan = [(n, None, 0) for n in range(0, N + 1)]
    for n in range(1, NC + 1):
        plan += [(n, "A", 0), (n, "B", 0)]
    for P in POFF:
        plan += [(n, "A", P) for n in range(1, min(NC, 3) + 1)]
    segstats = {}
    for (n, mode, P) in plan:
        rate = 1.0 if n <= 1 else (0.05 if n == 2 else 0.003)
        tag = f"{'uncut' if mode is None else 'cut-' + mode}{'' if not P else '@' + str(P)} n={n}"

        def on_records(recs):
            for r in recs:
                if r[0] == "ok":
                    maxsteps[n] = max(maxsteps[n], r[2])
                    if mode:
                        segstats[(mode, r[3], r[4])] = segstats.get((mode, r[3], r[4]), 0) + 1
                elif r[0] == "sample":
                    maxsteps[n] = max(maxsteps[n], r[2])
                    samples.append(r)
                else:
                    key = (r[2], r[5])
                    if key not in fails:
                        fails[key] = {"count": 0, "examples": [], "where": set()}
                    fails[key]["count"] += 1
                    fails[key]["where"].add("uncut" if mode is None else "cut")
                    if len(fails[key]["examples"]) < 3:
                        fails[key]["examples"].append(r)
        st, exhaustive, err = explore.explore(_hfactory(n, ctx.known, ctx.seed, rate, mode, P), workers=ctx.workers, seed=ctx.seed,
                                              time_budget=None, on_records=on_records, log=ctx.log)
        res.merge_stats(st)
        ctx.log(f"parser {tag}: {st.get('paths', 0)} paths ok={st.get('ok', 0)} panic={st.get('panic', 0)} stuck={st.get('stuck', 0)} "
                f"unsupported={st.get('unsupported', 0)} wall={st.get('wall', 0):.1f}s")
        if err:
            res.inconclusive.append(err[:500])
        if not exhaustive:
            res.inconclusive.append(f"parser exploration {tag} not exhausted")
    res.extra["cut_segments"] = {f"{k[0]}:{k[1]}:consumed{k[2]}": v for k, v in sorted(segstats.items())}
    # the cut is validated, not assumed: every failure class seen by the uncut exploration must also be seen
    # by the cut exploration of the same length and vice versa (for sites reachable within N tokens)
    if NC >= N:
        for (site, kid), info in fails.items():
            if info["where"] == {"uncut"}:
                res.inconclusive.append("cut exploration missed a failure class the uncut exploration found: " + site)
    res.extra["max_mir_statements_per_path_by_n"] = dict(maxsteps)
    # ---- engine validation: sampled passing paths must give the same step list natively
    lines = []
    for s in samples:
        lines.append("parse_kinds " + (",".join(map(str, s[3])) or "-") + " " + (",".join(map(str, s[4])) or "-"))
    outs = native.run_lines(lines, "dev")
    bad = 0
    for s, o in zip(samples, outs):
        if native.failed(o):
            bad += 1
            res.inconclusive.append(f"engine predicted normal return but native run failed: {names_of(kit, s[3])} {o}")
            continue
        nat = [[x[0]] if x[0] == "error" else x for x in o["steps"]]
        if nat != s[5]:
            bad += 1
            res.inconclusive.append(f"engine/native step lists differ for {names_of(kit, s[3])}: {s[5]} vs {nat}")
    res.validated += len(samples) - bad
    for s in samples[:4]:
        res.samples.append({"tokens": names_of(kit, s[3]), "joint": s[4], "outcome": "returns", "events": len(s[5])})
    # ---- failures: replay natively, classify
    triage_failures(ctx, res, kit, fails)
    return kit


def triage_failures(ctx, res, kit, fails):
    known_by_id = {k["id"]: k for k in ctx.known}
    seen_known = set()
    for (site, kid), info in sorted(fails.items(), key=lambda kv: kv[0][0]):
        ex0 = info["examples"][0]
        outcome = ex0[1]
        if outcome == "unsupported":
            res.inconclusive.append(f"unsupported construct ({info['count']} paths): {site} e.g. {names_of(kit, ex0[3])}")
            continue
        reproduced = None
        for exm in info["examples"]:
            ks, js = exm[3], exm[4]
            o_dev, line = native_parse_kinds(ks, js, "dev")
            o_rel, _ = native_parse_kinds(ks, js, "release")
            if native.failed(o_dev) or native.failed(o_rel):
                reproduced = (ks, js, o_dev, o_rel, line)
                break
            if outcome == "violation" and "without any syntax diagnostic" in site:
                st = o_dev.get("steps", [])
                E = kit.K["ERROR"]
                if not any(x[0] == "error" for x in st) and any(x[0] in ("enter", "token") and x[1] == E for x in st):
                    reproduced = (ks, js, {"panic": "tree contains an ERROR node/token and no diagnostic"}, o_rel, line)
                    break
        toks = names_of(kit, ex0[3])
        if reproduced is None:
            res.inconclusive.append(f"counterexample does not reproduce natively ({info['count']} paths): {site} e.g. {toks} joint={ex0[4]}")
            continue
        ks, js, o_dev, o_rel, line = reproduced
        res.validated += 1
        text = kit.render(ks, js)
        text_res = None
        if text is not None:
            lx = native.run_one("lexed " + native.hexs(text), "dev")
            if lx.get("kinds") is not None and [k for k in lx["kinds"] if k not in kit.trivia] == list(ks):
                text_res = native.run_one("parse " + native.hexs(text), "dev")
        what = {"site": site, "paths": info["count"], "tokens": names_of(kit, ks), "joint": js,
                "native_dev": _short(o_dev), "native_release": _short(o_rel),
                "source_text": text if (text_res is not None and native.failed(text_res)) else None,
                "profile": "dev+release" if native.failed(o_rel) else "dev only (debug assertion / overflow check)"}
        if kid is not None:
            if kid not in seen_known:
                seen_known.add(kid)
                res.known_hits.append(f"{kid}: {known_by_id[kid].get('what', site)} (e.g. {' '.join(names_of(kit, ks))}; {info['count']} paths)")
            continue
        rp = os.path.join(ctx.replay_dir, "parser_" + hashlib.sha1(site.encode()).hexdigest()[:10] + ".json")
        with open(rp, "w") as f:
            json.dump({"property": ctx.pid, "kind": "parse_kinds", "line": line, "source_text": what["source_text"], "what": what}, f, indent=1)
        res.violations.append({"what": json.dumps(what), "replay": rp})
        res.samples.append(what)


def _short(o):
    for k in ("panic", "hang", "oom", "crash"):
        if k in o:
            return {k: o[k] if not isinstance(o[k], str) else o[k][:160]}
    return "returns"


# ---------------------------------------------------------------------------------------------------------------
# prefix deepening: every prefix of every statement skeleton of the reference grammar, followed by k symbolic tokens
class PrefixFamily:
    def __init__(self, known, seed, k):
        self.kit = ParserKit()
        self.known = known; self.seed = seed; self.k = k
        self.ex = Exec(self.kit.prog, self.kit.models, max_steps=STEP_BASE * 40)

    def harness(self, task):
        return PrefixHarness(self, task)

    def exec_for(self, h):
        return self.ex


class PrefixHarness:
    """task = (tokens, i, mode): mode 'trunc' = tokens[:i] alone; 'subst' = token i replaced by a symbolic token;
    'insert' = k symbolic tokens inserted before token i"""
    def __init__(self, fam, task):
        self.fam = fam; self.base, self.i, self.mode = list(task[0]), task[1], task[2]

    def run(self, ex):
        kit = self.fam.kit
        k = 0 if self.mode == "trunc" else (1 if self.mode == "subst" else self.fam.k)
        self.sym = kit.sym_tokens(k, "s")
        kit.constrain_alphabet(ex, self.sym)
        if self.mode == "trunc":
            toks = self.base[:self.i]
        elif self.mode == "subst":
            toks = self.base[:self.i] + list(self.sym) + self.base[self.i + 1:]
        else:
            toks = self.base[:self.i] + list(self.sym) + self.base[self.i:]
        self.toks = toks
        nw = len(toks) // 64 + 1
        jws = [SV(z3.BitVec(f"joint{w}", 64), 64) for w in range(nw)]
        from .interp import VecV, Ref
        out = ex.call("TopEntryPoint::parse", [Ref([0], 0), Ref([[VecV(list(toks)), VecV(jws)]], 0)])
        steps = kit.decode(out)
        if len(steps) > EVENTS_PER_TOKEN * (len(toks) + 1):
            raise StepLimit(f"event list grew to {len(steps)} entries for {len(toks)} tokens")
        # C12(b) on the same path: a tree without diagnostics has no ERROR node and provably no ERROR token
        if not any(s[0] == "error" for s in steps):
            K = kit.K
            conds = []
            for s in steps:
                if s[0] == "enter" and s[1] == K["ERROR"]:
                    raise Violation("ERROR node in a tree without any syntax diagnostic")
                if s[0] == "token":
                    kk = s[1]
                    if isinstance(kk, SV):
                        conds.append(kk.e == K["ERROR"])
                    elif kk == K["ERROR"]:
                        raise Violation("ERROR token in a tree without any syntax diagnostic")
            if conds:
                ex.prove(z3.Not(z3.Or(conds)), "ERROR token in a tree without any syntax diagnostic")
        return len(steps)

    def describe(self, ex, outcome, detail):
        if outcome == "ok":
            return ("ok", detail, ex.steps)
        kit = self.fam.kit
        model = ex.model() or {}
        ks = [t if isinstance(t, int) else model.get(t.e.decl().name(), kit.K["IDENT"]) for t in self.toks]
        js = [(model.get(f"joint{i // 64}", 0) >> (i % 64)) & 1 for i in range(len(ks))]
        fn = detail["stack"][-1] if detail.get("stack") else "?"
        site = f"{outcome}|{fn.split('::')[-1]}|{detail['msg']}"
        kid = None
        if outcome in ("panic", "stuck", "violation"):
            kid = findings.match_known(ex, self.fam.known, site, PEnv(kit, self.toks).env())
        return ("fail", outcome, site, ks, js, kid, detail.get("stack", [])[-5:])


def skeleton_variants(kit, depth, modes):
    """(tokens, i, mode) for every statement skeleton (first member of each class) and every position i"""
    from . import skel
    G = skel.spec()
    seen = set(); out = []
    for name, sk in G.statements(depth):
        toks = []
        for it in sk:
            if isinstance(it, str):
                toks.append(kit.K[it])
            elif it[0] == "slot":
                toks.append(kit.K[G.CLASSES[it[1]][0]])
            elif it[0] == "joint":
                toks += [kit.K[x] for x in it[1]]
            elif it[0] == "binop":
                toks.append(kit.K["PLUS"])
            elif it[0] == "cmpassign":
                toks += [kit.K["PLUS"], kit.K["EQ"]]
        if len(toks) > 20:
            continue
        for mode in modes:
            for i in range(0, len(toks) + (1 if mode != "subst" else 0)):
                key = (tuple(toks[:i]),) if mode == "trunc" else (tuple(toks), i, mode)
                if key not in seen:
                    seen.add(key); out.append((tuple(toks), i, mode))
    return out


def run_prefixes(ctx, res, k, which=("panic", "stuck"), modes=None, depth=None):
    """returns fails dict like run_parser's; `which` selects the outcomes that belong to the calling property.
    k = number of symbolic tokens an `insert` variant inserts; depth = nesting depth of the statement skeletons"""
    kit = ParserKit()
    if modes is None:
        modes = ("trunc", "subst") if k <= 1 else ("trunc", "subst", "insert")
    if depth is None:
        depth = 1 if k <= 1 else 2
    prefixes = skeleton_variants(kit, depth, modes)
    fails = {}
    maxsteps = [0]

    def on_result(idx, task, recs, left, stats, err):
        if err:
            res.inconclusive.append(err[:400])
        if left:
            res.inconclusive.append("prefix exploration not exhausted")
        for r in recs:
            if r[0] == "ok":
                maxsteps[0] = max(maxsteps[0], r[2])
            elif r[1] in which or r[1] == "unsupported":
                d = fails.setdefault((r[2], r[5]), {"count": 0, "examples": [], "where": {"prefix"}})
                d["count"] += 1
                if len(d["examples"]) < 3:
                    d["examples"].append(r)

    def fam():
        return PrefixFamily(ctx.known, ctx.seed, k)
    st, errs = explore.explore_many(fam, prefixes, workers=ctx.workers, on_result=on_result, log=ctx.log)
    res.merge_stats(st)
    ctx.log(f"skeleton variants {modes}: {len(prefixes)} variants: {st.get('paths', 0)} paths ok={st.get('ok', 0)} panic={st.get('panic', 0)} "
            f"stuck={st.get('stuck', 0)} violation={st.get('violation', 0)} unsupported={st.get('unsupported', 0)} wall={st.get('wall', 0):.1f}s")
    res.bounds["skeleton_variants"] = res.bounds.get("skeleton_variants", 0) + len(prefixes)
    res.bounds.setdefault("skeleton_variant_plan", []).append({"modes": list(modes), "skeleton_depth": depth, "inserted_symbolic_tokens": k if "insert" in modes else 0, "variants": len(prefixes)})
    return kit, fails


def run_lexer(ctx, res):
    """lexer part: no panic (incl. debug assertions, u32/usize arithmetic, slicing) and every advance_token consumes
    at least one char (termination), on one token step from an arbitrary string and on whole strings via LexedStr::new"""
    from . import lexcheck
    from .h_c14 import native_partition_check
    NT = int(os.environ.get("VERIF_C01_NT", 3 if ctx.quick() else 6))
    MW = int(os.environ.get("VERIF_C01_MW", 2 if ctx.quick() else 3))
    f1 = lexcheck.run_tokens(ctx, res, NT)
    f2 = lexcheck.run_whole(ctx, res, MW)
    res.bounds["lexer_chars_per_token_step"] = NT
    res.bounds["lexer_chars_whole_string"] = MW
    res.functions_encoded += ["oq3_lexer::Cursor::advance_token and all scanners", "oq3_lexer::tokenize", "oq3_parser::LexedStr::new"]
    allf = {}
    for k, v in f1.items():
        allf[k] = v
    for (site, kid), v in f2.items():
        allf[site] = v
    for site, info in sorted(allf.items()):
        if info["outcome"] == "unsupported":
            res.inconclusive.append(f"lexer: unsupported ({info['count']} paths): {site}")
            continue
        if info["outcome"] not in ("panic", "stuck") and "consumed no character" not in site and "stops before the end" not in site:
            continue      # structural obligations belong to C14 / C11
        rep = None
        for text in info["examples"]:
            o1 = native.run_one("parse " + native.hexs(text), "dev")
            o2 = native.run_one("parse " + native.hexs(text), "release")
            o3 = native.run_one("parse_check_lex " + native.hexs(text), "dev")
            if native.failed(o1) or native.failed(o2) or native.failed(o3):
                rep = (text, [_short(o1), _short(o2), _short(o3)]); break
        if rep is None:
            res.inconclusive.append(f"lexer counterexample does not reproduce natively ({info['count']} paths): {site} e.g. {info['examples'][0]!r}")
            continue
        what = {"site": site, "paths": info["count"], "input": rep[0], "native(dev,release,check_lex)": str(rep[1])}
        rp = os.path.join(ctx.replay_dir, "lexer_" + hashlib.sha1(site.encode()).hexdigest()[:10] + ".json")
        with open(rp, "w") as f:
            json.dump({"property": ctx.pid, "kind": "parse_text", "line": "parse " + native.hexs(rep[0]), "source_text": rep[0], "what": what}, f, indent=1)
        res.violations.append({"what": json.dumps(what), "replay": rp})


def run(ctx):
    res = Result()
    N = 2 if ctx.quick() else 3
    NC = 3 if ctx.quick() else 4
    N = int(os.environ.get("VERIF_C01_N", N))
    NC = int(os.environ.get("VERIF_C01_NC", NC))
    run_parser(ctx, res, N, NC, POFF=() if ctx.quick() else (62, 63))
    if ctx.quick():
        plans = [(1, ("trunc",), 1)]
    else:
        # thorough: every prefix and every one-token substitution of the depth-2 skeletons, one arbitrary token inserted at every
        # position of the depth-1 skeletons (two inserted tokens at depth 2 were measured at about 7 h and dropped)
        plans = [(1, ("trunc", "subst"), 2), (int(os.environ.get("VERIF_C01_K", 1)), ("insert",), 1)]
    for k, modes, depth in plans:
        kitp, pf = run_prefixes(ctx, res, k, modes=modes, depth=depth)
        triage_failures(ctx, res, kitp, pf)
    run_lexer(ctx, res)
    from . import c12_escape
    c12_escape.run_validate(ctx, res, "C01")
    res.exhaustive = not res.inconclusive
    res.stubs += ["Vec/slice/Option/Result/iterators/Cell/mem::replace (vf/models.py)", "format!/fmt::Arguments opaque",
                  "ra_ap_limit::Limit::check", "drop_bomb::DropBomb (panics on drop unless defused)"]
    res.outside_claim += ["token sequences longer than the bound", "rowan tree building", "TopEntryPoint::Expr (dead code)"]
    return res


def replay(ctx, path):
    d = json.load(open(path))
    ok = True
    for prof in ("dev", "release"):
        o = native.run_one(d["line"], prof)
        print(prof, _short(o))
        if native.failed(o):
            ok = False
    return 1 if not ok else 0
