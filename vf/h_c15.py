"""C15 - well-formed lexemes are classified correctly regardless of neighbours and layout (DESIGN 6/C15).

Pairs of lexemes drawn from the reference lexeme grammar (/verif/spec/lexemes.py; each lexeme is a list of symbolic
code points constrained by its regex, keywords and punctuation verbatim) are written with every separator the rules
allow and run through the REAL LexedStr::new (MIR of oq3_lexer + oq3_parser).  Obligations on every path: the
non-trivia tokens are exactly the lexemes, in order, with the expected kinds and exact texts; everything between them
is trivia; no lexical error.  Keywords are additionally checked against one fully symbolic neighbour character.
"""
import json, os, hashlib, collections, re
import z3
from . import explore, native, strmodel, rx
from .interp import Exec, SV, SB, EnumV, VecV, Ref, Panic, Unsupported, Violation, StepLimit
from .main import Result
from .lexer_kit import LexerKit
from .lexcheck import lexeme_spec
from .strmodel import SymStr, StrSlice

SAFE_PUNCT = set("!%&()*+,-:;<=>?[]^{|}~")
NEIGHBOURS_QUICK = ["identifier", "int_decimal", "float", "punct_SEMICOLON", "punct_L_PAREN", "punct_SLASH", "punct_DOT", "string", "kw_if", "punct_MINUS", "punct_EQ", "punct_AT"]


def word_like(name):
    return not name.startswith("punct_")


def punct_char(L, name):
    if not name.startswith("punct_"):
        return None
    k = name[len("punct_"):]
    for c, kk in L.PUNCT.items():
        if kk == k:
            return c
    return None


def separators(L, a, b):
    pa, pb = punct_char(L, a), punct_char(L, b)
    seps = [" ", "\n", "\t ", "\r\n", "\r"]          # OpenQASM 3 whitespace: blank, tab, CR, LF (vertical tab / form feed / Unicode spaces are not in its grammar)
    if pa != "/":
        seps.append("/**/")
    seps.append(" //c\n")
    can_abut = (pa in SAFE_PUNCT) or (pb in SAFE_PUNCT)
    if pa == "/" and pb in ("/", "*"):
        can_abut = False
    if can_abut:
        seps.append("")
    return seps


DOMAIN_MAX = 0x400      # C15 bounds symbolic characters to U+0000..U+03FF (ASCII, Latin-1, Latin Extended, Greek)


class Family:
    def __init__(self, seed):
        strmodel.DOMAIN_MAX = DOMAIN_MAX
        self.kit = LexerKit(("oq3_lexer", "oq3_parser"))
        self.seed = seed
        self.L = lexeme_spec()
        self.classes = dict(self.L.lexeme_classes())
        self.classes.update(self.L.line_classes())
        self.classes.update(self.L.other_classes())
        self.f_lexed_new = self.kit.prog.methods.get(("LexedStr", None, "new"))
        self.ex = Exec(self.kit.prog, self.kit.models, max_steps=2000000)
        self._cons = {}

    def harness(self, task):
        return PairHarness(self, task)

    def exec_for(self, h):
        return self.ex


class PairHarness:
    def __init__(self, fam, task):
        self.fam = fam; self.kit = fam.kit; self.task = task

    def lexeme(self, ex, cname, shape_idx, prefix):
        fam = self.fam
        kinds, shapes = fam.classes[cname]
        n, rgx = shapes[shape_idx]
        chars = [strmodel.fresh_char(f"{prefix}{i}") for i in range(n)]
        key = (cname, shape_idx, prefix)
        c = fam._cons.get(key)
        if c is None:
            conds = [rx.matches(rgx, chars)] + [strmodel.char_domain(ch) for ch in chars]
            if cname == "identifier":
                conds.append(z3.Not(fam.L.is_keyword_text(chars)))
            c = z3.simplify(z3.And(conds))
            fam._cons[key] = c
        ex.add_constraint(c)
        return chars, kinds

    def run(self, ex):
        kit = self.kit; fam = self.fam; K = kit.K
        mode = self.task[0]
        if mode == "pair":
            _, a, ia, b, ib, sep = self.task
            ca, ka = self.lexeme(ex, a, ia, "a")
            cb, kb = self.lexeme(ex, b, ib, "b")
            chars = ca + [ord(c) for c in sep] + cb
            spans = self.spans(a, ca, ka, 0) + self.spans(b, cb, kb, len(ca) + len(sep))
        elif mode == "single":
            _, a, ia = self.task
            ca, ka = self.lexeme(ex, a, ia, "a")
            chars = ca
            spans = self.spans(a, ca, ka, 0)
        else:   # keyword with one fully symbolic neighbour: ("kwn", word, side)
            _, w, side = self.task
            x = strmodel.fresh_char("x")
            ex.add_constraint(strmodel.char_domain(x))
            wc = [ord(c) for c in w]
            chars = wc + [x] if side == "after" else [x] + wc
            spans = None
        s = SymStr(chars, "S")
        self.s = s
        lexed = ex.run(fam.f_lexed_new, [StrSlice(s, 0, len(chars))])
        kinds, starts, errors = lexed[1].items, lexed[2].items, lexed[3].items
        idx = [strmodel.char_index(ex, StrSlice(s, 0, len(chars)), st, "start") for st in starts]
        toks = [(kinds[i], idx[i], idx[i + 1]) for i in range(len(kinds) - 1)]
        self.toks = toks
        if mode == "kwn":
            return self.keyword_neighbour(ex, w, side, x, toks)
        ex.obligations += 1
        if errors:
            raise Violation("lexical error reported on well-formed lexemes")
        nontrivia = [t for t in toks if t[0] not in (K["WHITESPACE"], K["COMMENT"])]
        want = [(K[k], lo, hi) for (k, lo, hi) in spans]
        ex.obligations += 1
        if nontrivia != want:
            def show(ts):
                return [(kit.names.get(k, k), lo, hi) for k, lo, hi in ts]
            raise Violation(f"token table differs from the lexemes written: got {show(nontrivia)}, expected {show(want)}")
        return len(toks)

    def spans(self, cname, chars, kinds, off):
        if len(kinds) == 0:
            return []           # a comment: trivia, not in the token table compared
        if len(kinds) == 1:
            return [(kinds[0], off, off + len(chars))]
        # number + unit: the unit is the trailing identifier part
        m = re.match(r"(int|float)_(.+)$", cname)
        ulen = len(m.group(2))
        return [(kinds[0], off, off + len(chars) - ulen), (kinds[1], off + len(chars) - ulen, off + len(chars))]

    def keyword_neighbour(self, ex, w, side, x, toks):
        """`w` next to one arbitrary character: the keyword kind appears as its own token iff the char cannot continue
        (or, before it, start) an identifier containing it"""
        kit = self.kit; K = kit.K; L = self.fam.L
        kwkind = K[L.KEYWORDS[w]]
        n = len(w)
        lo, hi = (0, n) if side == "after" else (1, n + 1)
        has_kw = (kwkind, lo, hi) in toks
        ex.obligations += 1
        if side == "after":
            glue = L.is_xid_continue(x.e)
            # exceptions that are lexer rules of their own: none start after a keyword
            if has_kw:
                ex.prove(z3.Not(glue), f"keyword `{w}` recognised although the next character continues the identifier")
            else:
                # a non-ASCII emoji character directly after a word makes the whole run an invalid identifier (diagnosed)
                emoji = z3.And(z3.UGE(x.e, 128), L._in(x.e, "Emoji_Char"))
                ex.prove(z3.Or(glue, emoji), f"keyword `{w}` followed by a non-identifier character is not classified as {L.KEYWORDS[w]}")
        else:
            # a preceding identifier-start/continue char (or digit: literal suffix; '$', '#', '@' ... are rules of their own) glues
            if has_kw:
                ex.prove(z3.Not(z3.Or(L._in(x.e, "XID_Start"), x.e == ord("_"))), f"keyword `{w}` recognised although the previous character starts an identifier that contains it")
        return len(toks)

    def describe(self, ex, outcome, detail):
        if outcome == "ok":
            h = hashlib.sha256((str(self.fam.seed) + str(self.task) + ",".join(map(str, ex.decisions))).encode()).digest()
            if h[0] >= 10:
                return ("ok", ex.obligations)
            model = ex.model() or {}
            return ("sample", ex.obligations, self.kit.concrete_string(self.s, model), self.task[:2])
        model = ex.model() or {}
        text = self.kit.concrete_string(self.s, model)
        t = self.task
        cls = f"{t[1]}+{t[3]}" if t[0] == "pair" else str(t[1])
        return ("fail", outcome, f"{outcome}|{cls}|{detail['msg'][:400]}", text, list(t))


def famfactory(seed):
    def f():
        return Family(seed)
    return f


def expected_tokens(L, text_parts):
    pass


def native_pair_check(kit, L, task, text):
    """re-evaluates the expectation natively for the concrete text; returns (violated, msg)"""
    o = native.run_one("lexed " + native.hexs(text), "dev")
    if native.failed(o):
        return True, "native failure " + str(o)[:100]
    return None, o


def run(ctx):
    res = Result()
    L = lexeme_spec()
    classes = L.lexeme_classes()
    names = list(classes)
    tasks = []
    for a in names:
        for ia in range(len(classes[a][1])):
            tasks.append(("single", a, ia))
    neigh = NEIGHBOURS_QUICK if ctx.quick() else names
    if os.environ.get("VERIF_C15_ONLY"):
        names = [n for n in names if os.environ["VERIF_C15_ONLY"] in n]
    pairs = set()
    for a in names:
        for b in neigh:
            pairs.add((a, b)); pairs.add((b, a))
    for a, b in sorted(pairs):
        shapes_a = range(len(classes[a][1])) if (a in NEIGHBOURS_QUICK or not ctx.quick()) else range(len(classes[a][1]))
        for ia in shapes_a:
            ib = 0 if ctx.quick() else None
            for ib_ in ([0] if ctx.quick() else range(len(classes[b][1]))):
                seps = separators(L, a, b)
                if ctx.quick():
                    seps = [s for s in seps if s in ("", " ", "/**/", "\n", "\r\n")]
                for sep in seps:
                    tasks.append(("pair", a, ia, b, ib_, sep))
    # lexemes that run to the end of the line: the line break (LF, CRLF, CR) is not part of them, the next line starts a new lexeme
    lines = L.line_classes()
    for a in lines:
        for ia in range(len(lines[a][1])):
            for b in ("identifier", "int_decimal", "punct_SEMICOLON"):
                for sep in ("\n", "\r\n", "\r"):
                    tasks.append(("pair", a, ia, b, 0, sep))
    others = L.other_classes()
    for ia in range(len(others["block_comment"][1])):
        for b in ("identifier", "int_decimal", "punct_SEMICOLON", "punct_STAR"):
            for sep in ("", " ", "\n"):
                tasks.append(("pair", "block_comment", ia, b, 0, sep))
                if b != "punct_STAR":
                    tasks.append(("pair", b, 0, "block_comment", ia, " " if b != "punct_SEMICOLON" else sep))
    for ia in range(len(others["version_header"][1])):
        for sep in ("", " ", "\n", "/**/", " //c\n", "\r\n"):
            tasks.append(("pair", "version_header", ia, "punct_SEMICOLON", 0, sep))
    for w in L.KEYWORDS:
        if w != "OPENQASM":
            tasks.append(("kwn", w, "after")); tasks.append(("kwn", w, "before"))
    ctx.log(f"{len(tasks)} lexeme arrangements")
    fails = {}
    samples = []

    def on_result(idx, task, recs, left, stats, err):
        if err:
            res.inconclusive.append(err[:400])
        if left:
            res.inconclusive.append(f"{task} not exhausted")
        if not err and not stats.get("paths"):
            res.inconclusive.append(f"vacuous arrangement (no feasible path): {task}")
        for r in recs:
            if r[0] in ("ok", "sample"):
                res.obligations += r[1]
                if r[0] == "sample":
                    samples.append(r)
            else:
                d = fails.setdefault(r[2], {"count": 0, "examples": [], "outcome": r[1]})
                d["count"] += 1
                if len(d["examples"]) < 3:
                    d["examples"].append((r[3], r[4]))
    st, errs = explore.explore_many(famfactory(ctx.seed), tasks, workers=ctx.workers, on_result=on_result, log=ctx.log)
    res.merge_stats(st)
    ctx.log(f"{st.get('paths', 0)} paths over {len(tasks)} arrangements: ok={st.get('ok', 0)} violation={st.get('violation', 0)} panic={st.get('panic', 0)} unsupported={st.get('unsupported', 0)}")
    kit = LexerKit(("oq3_lexer", "oq3_parser"))
    # validation: sampled passing models, native token table has no error and the same number of non-trivia tokens
    lines = ["lexed " + native.hexs(s[2]) for s in samples[:300]]
    outs = native.run_lines(lines, "dev") if lines else []
    for s, o in zip(samples, outs):
        if native.failed(o) or (s[3][0] != "kwn" and o.get("errors")):
            res.inconclusive.append(f"engine proved the arrangement but native lexing of {s[2]!r} reports {str(o)[:120]}")
        else:
            res.validated += 1
    for s in samples[:4]:
        res.samples.append({"arrangement": list(s[3]), "text": s[2], "outcome": "token table = lexemes (proved for every member of the classes on this path)"})
    for site, info in sorted(fails.items()):
        if info["outcome"] == "unsupported":
            res.inconclusive.append(f"unsupported ({info['count']} paths): {site}")
            continue
        text, task = info["examples"][0]
        o = native.run_one("lexed " + native.hexs(text), "dev")
        shown = {"kinds": [kit.names.get(k, k) for k in o.get("kinds", [])], "texts": o.get("texts"), "errors": o.get("errors")} if not native.failed(o) else str(o)[:200]
        # native confirmation: re-run the same expectation on the concrete text by a second, concrete engine pass
        confirmed = confirm_concrete(kit, task, text)
        if not confirmed:
            res.inconclusive.append(f"counterexample does not reproduce natively: {site} e.g. {text!r}")
            continue
        res.validated += 1
        kf = next((k for k in ctx.known if re.search(k["site"], site)), None)
        if kf is not None:
            line = f"{kf['id']}: {kf.get('what', '')}"
            if not any(h.startswith(kf["id"] + ":") for h in res.known_hits):
                res.known_hits.append(line + f" (e.g. {text!r})")
            continue
        what = {"site": site, "paths": info["count"], "text": text, "arrangement": task, "native_token_table": shown}
        rp = os.path.join(ctx.replay_dir, "lexeme_" + hashlib.sha1(site.encode()).hexdigest()[:10] + ".json")
        json.dump({"property": "C15", "text": text, "task": task, "what": what}, open(rp, "w"), indent=1)
        res.violations.append({"what": json.dumps(what, ensure_ascii=False), "replay": rp})
        res.samples.append(what)
    res.functions_encoded += ["oq3_parser::LexedStr::new", "oq3_lexer::tokenize / Cursor::advance_token and all scanners",
                              "oq3_parser::lexed_str::{inner_extend_token, extend_literal_func}", "SyntaxKind::{from_keyword, from_scalar_type}"]
    res.bounds.update({"lexeme_classes": len(classes), "arrangements": len(tasks), "neighbours": "representatives" if ctx.quick() else "all classes",
                       "lexeme_length": "identifiers <= 3 chars, literals <= 5 chars, keywords verbatim",
                       "code_points": f"symbolic characters range over U+0000..U+{DOMAIN_MAX - 1:04X} (Unicode tables clipped to that range; all scalar values are covered per token by C14)"})
    res.assumptions += ["/verif/spec/lexemes.py is a faithful excerpt of the OpenQASM 3 lexical grammar",
                        "pairs suffice: the lexer looks at most two characters ahead and carries no state across tokens (C14)"]
    res.outside_claim += ["sequences of three or more lexemes", "longer identifiers/literals", "pragma/annotation lines and the version header as pair members (checked in C11/C14 as single lexemes)"]
    res.exhaustive = not res.inconclusive
    return res


def confirm_concrete(kit, task, text):
    """native re-evaluation: lex the concrete text natively and compare with the expectation for this arrangement"""
    L = lexeme_spec()
    o = native.run_one("lexed " + native.hexs(text), "dev")
    if native.failed(o):
        return True
    K = kit.K
    trivia = (K["WHITESPACE"], K["COMMENT"])
    toks = [(k, t) for k, t in zip(o["kinds"], o["texts"]) if k not in trivia]
    classes = dict(L.lexeme_classes()); classes.update(L.line_classes()); classes.update(L.other_classes())
    if task[0] == "kwn":
        w, side = task[1], task[2]
        x = text[-1] if side == "after" else text[0]
        has_kw = (K[L.KEYWORDS[w]], w) in toks
        xe = z3.BitVecVal(ord(x), 32)
        if side == "after" and z3.is_true(z3.simplify(z3.And(z3.UGE(xe, 128), L._in(xe, "Emoji_Char")))):
            return has_kw and z3.is_true(z3.simplify(L.is_xid_continue(xe)))
        glue = z3.is_true(z3.simplify(L.is_xid_continue(z3.BitVecVal(ord(x), 32)))) if side == "after" else \
            z3.is_true(z3.simplify(z3.Or(L._in(z3.BitVecVal(ord(x), 32), "XID_Start"), z3.BitVecVal(ord(x), 32) == ord("_"))))
        return (has_kw and glue) or (side == "after" and not has_kw and not glue)
    if o["errors"]:
        return True

    def parts(cname, shape, s):
        kinds = classes[cname][0]
        if len(kinds) == 0:
            return []
        if len(kinds) == 1:
            return [(K[kinds[0]], s)]
        u = re.match(r"(int|float)_(.+)$", cname).group(2)
        return [(K[kinds[0]], s[:-len(u)]), (K[kinds[1]], s[-len(u):])]
    if task[0] == "single":
        want = parts(task[1], task[2], text)
    else:
        _, a, ia, b, ib, sep = task
        la = classes[a][1][ia][0]; lb = classes[b][1][ib][0]
        want = parts(a, ia, text[:la]) + parts(b, ib, text[len(text) - lb:])
    return toks != want


def replay(ctx, path):
    d = json.load(open(path))
    kit = LexerKit(("oq3_lexer", "oq3_parser"))
    bad = confirm_concrete(kit, d["task"], d["text"])
    print("violated" if bad else "holds", d["text"])
    return 1 if bad else 0
