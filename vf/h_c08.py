"""C08 - expressions are typed consistently; conversions are explicit or diagnosed (stage 2, DESIGN 6/C08).

`T1[W1] v; T2[W2] x = VALUE;` and `T1[W1] v; T2[W2] x; x = VALUE;` with every ordered pair of scalar types, widths absent
or SYMBOLIC (1-2 decimal digits), const / non-const, and VALUE a variable, arithmetic on it, a cast, a negation, a literal
of each class or a measurement, are analysed from MIR.  Obligations (z3, proved for all widths of the path):
  typing      - identifier / literal / cast / arithmetic / measurement nodes carry the type the property prescribes;
  consistency - no type diagnostic on the statement  =>  the stored value's type equals the target type up to const-ness;
  downward    - a kind-lowering conversion (float->int, complex->real, anything to/from bit, bool, duration, angle of
                another kind, negative literal -> uint) is diagnosed;
  narrowing   - same kind, non-constant value, W2 < W1  =>  diagnosed.
"""
import json, os, collections, re, itertools
import z3
from . import explore, semh
from .interp import SV, SB, Panic, Unsupported, Violation
from .main import Result
from .asgview import N, walk

TY = {"int": "Int", "uint": "UInt", "float": "Float", "angle": "Angle", "bit": "Bit", "bool": "Bool", "duration": "Duration",
      "stretch": "Stretch", "complex": "Complex"}
WIDTHED = ("int", "uint", "float", "angle", "bit", "complex")
NUMERIC_RANK = {"int": 1, "uint": 1, "float": 2, "complex": 3}
TOWER = {"Int": 0, "UInt": 0, "Float": 1, "Complex": 2}
SPECIAL = ("bit", "bool", "duration", "stretch", "angle")


def downward(t1, t2):
    """kind-lowering conversions the property requires to be diagnosed (value kind t1 -> target kind t2)"""
    if t1 == t2:
        return False
    if t1 in ("duration", "stretch") and t2 in ("duration", "stretch"):
        return False
    if t1 in SPECIAL or t2 in SPECIAL:
        return True
    if t1 in NUMERIC_RANK and t2 in NUMERIC_RANK:
        return NUMERIC_RANK[t1] > NUMERIC_RANK[t2]
    return False


def wterm(x):
    if x is None:
        return None
    if isinstance(x, SV):
        return z3.ZeroExt(64 - x.w, x.e) if x.w < 64 else x.e
    return z3.BitVecVal(int(x), 64)


def type_eq(t1, t2, up_to_const=True):
    """(structurally comparable: bool, z3 condition)"""
    if not (isinstance(t1, N) and isinstance(t2, N)) or t1.v != t2.v:
        return z3.BoolVal(False)
    conds = []
    for k in t1.f:
        a, b = t1.f[k], t2.f[k]
        if isinstance(a, N) and a.t == "IsConst":
            if not up_to_const and a.v != b.v:
                return z3.BoolVal(False)
            continue
        if isinstance(a, N) and a.t == "ArrayDims":
            if a.v != b.v:
                return z3.BoolVal(False)
            for kk in a.f:
                conds.append(wterm(a.f[kk]) == wterm(b.f[kk]))
            continue
        if a is None or b is None:
            if a is not b:
                return z3.BoolVal(False)
            continue
        if isinstance(a, (int, SV)) and isinstance(b, (int, SV)):
            conds.append(wterm(a) == wterm(b))
            continue
        if a != b:
            return z3.BoolVal(False)
    return z3.And(conds) if conds else z3.BoolVal(True)


def is_const(t):
    for v in t.f.values():
        if isinstance(v, N) and v.t == "IsConst":
            return v.v == "True"
    return None


class H(semh.Base):
    def label(self):
        return "/".join("".join(map(str, x)) if isinstance(x, tuple) else str(x) for x in self.task)

    def site(self, outcome, detail):
        s = semh.Base.site(self, outcome, detail).replace("`" + self.label() + "`", self.task[0])
        def ab(m):
            t = m.group(0)
            head = t.split("(")[0]
            return head + ("[w]" if re.search(r"\((<sym>|\d+)", t) else "") + (" const" if t.endswith("True)") else "")
        return re.sub(r"\b[A-Z]\w*\((?:[^()]|\([^()]*\))*\)", ab, s) + " @" + self.label()

    def tyspec(self, ex, ty, wflag, tag):
        """source text of a type with optional symbolic width; returns (text, subst, width term or None)"""
        if not wflag:
            return ty, {}, None
        cs, w = self.sym_digits(ex, tag, wflag)
        wt = z3.Extract(63, 0, w)
        ex.add_constraint(wt != 0)
        if ty == "complex":
            return f"complex [ float [ ${tag} ] ]", {tag: ("INT_NUMBER", cs)}, wt
        return f"{ty} [ ${tag} ]", {tag: ("INT_NUMBER", cs)}, wt

    def program(self, ex):
        form = self.task[0]
        T = self.toks_from
        sub = {}
        self.W1 = self.W2 = None
        if form in ("decl", "assign"):
            _, (t1, w1, c1), (t2, w2, c2), vform = self.task
            s1, d1, self.W1 = self.tyspec(ex, t1, w1, "w1"); sub.update(d1)
            s2, d2, self.W2 = self.tyspec(ex, t2, w2, "w2"); sub.update(d2)
            init1 = {"int": "1", "uint": "1", "float": "1.0", "bool": "true"}.get(t1)
            pre = f"const {s1} v = {init1} ;" if c1 else f"{s1} v ;"
            if vform == "call":
                pre += f" def h ( ) -~ > {s1} {{ }}"
                value = "h ( )"
            elif vform.startswith("arith_vw:"):
                t3 = vform.split(":")[1]
                pre += f" {t3} w ;"
                op = vform.split(":")[2] if len(vform.split(":")) > 2 and vform.split(":")[2] in "+-*/" else "+"
                value = f"v {op} w" if not vform.endswith(":r") else f"w {op} v"
            else:
                value = {"var": "v", "arith_vv": "v + v", "arith_vl": "v + 1", "mul_vv": "v * v", "neg": "- v", "cast": f"{s2} ( v )", "cast_self": f"{s1} ( v )", "paren": "( v )"}[vform]
            if form == "decl":
                body = f"{'const ' if c2 else ''}{s2} x = {value} ;"
            else:
                pre += f" {s2} x ;"
                if " " in value and not value.endswith(")"):
                    value = f"( {value} )"        # `x = a + b;` is rejected by the parser (C04 known finding)
                body = f"x = {value} ;"
        elif form in ("lit", "litassign"):
            _, (t2, w2, c2), lit = self.task
            s2, d2, self.W2 = self.tyspec(ex, t2, w2, "w2"); sub.update(d2)
            value = {"int": "5", "negint": "- 5", "float": "1.5", "bool": "true", "bits": '"101"', "timing": "1 ns", "imag": "2 im", "imagf": "2.0 im", "bigint": "300"}[lit]
            pre = ""
            if form == "lit":
                body = f"{'const ' if c2 else ''}{s2} x = {value} ;"
            else:
                pre = f"{s2} x ;"
                body = f"x = {value} ;"
        elif form == "measure":
            _, target, operand = self.task
            pre = "qubit q ; qubit [ 2 ] r ;"
            body = f"{target} x = measure {operand} ;"
        else:
            raise ValueError(form)
        pt = T(pre, sub) if pre else []
        self.npre = len(pt)
        return pt + T(body, sub)

    # ---- expression typing (O4)
    def check_typing(self, ex, R, te, what):
        P = lambda c, msg: ex.prove(c, f"`{self.label()}`: {msg}")
        e = te["expression"]; ty = te["ty"]
        if e.v == "Identifier":
            st = R.sym_type(e[0])
            if st is not None:
                P(type_eq(ty, st, up_to_const=False), f"identifier expression typed {ty!r}, its symbol has type {st!r}")
            elif ty.v != "Undefined":
                raise Violation(f"`{self.label()}`: unresolved identifier typed {ty!r}")
        elif e.v == "Literal":
            lit = e[0]
            want = {"Bool": "Bool", "Int": "Int", "Float": "Float", "ImaginaryInt": "Complex", "ImaginaryFloat": "Complex", "BitString": "BitArray",
                    "TimingIntLiteral": "Duration", "TimingFloatLiteral": "Duration"}.get(lit.v)
            if want and ty.v != want:
                raise Violation(f"`{self.label()}`: {lit.v} literal typed {ty!r} (expected {want})")
            if is_const(ty) is False:
                raise Violation(f"`{self.label()}`: literal typed non-const {ty!r}")
        elif e.v == "Cast":
            c = e[0]
            P(type_eq(ty, c["typ"], up_to_const=False), f"cast expression typed {ty!r}, its target type is {c['typ']!r}")
            self.check_typing(ex, R, c["operand"], what)
        elif e.v == "BinaryExpr":
            b = e[0]
            if b["op"].v == "ArithOp":
                for side in ("left", "right"):
                    o = b[side]
                    P(type_eq(o["ty"], ty), f"arithmetic expression typed {ty!r} has a {side} operand of type {o['ty']!r} without explicit cast")
                    # the common type is an upper bound in int, uint < float < complex: an operand that was cast for the operation
                    # is not cast down the tower
                    src = o["expression"][0]["operand"]["ty"] if o["expression"].v == "Cast" else o["ty"]
                    if TOWER.get(src.v, -1) > TOWER.get(ty.v, 9):
                        raise Violation(f"`{self.label()}`: arithmetic expression typed {ty.v} casts its {src.v} operand down the numeric tower")
            self.check_typing(ex, R, b["left"], what); self.check_typing(ex, R, b["right"], what)
        elif e.v == "UnaryExpr":
            self.check_typing(ex, R, e[0]["operand"], what)
        elif e.v == "SubroutineCall":
            st = R.sym_type(e[0]["name"])
            if st is not None and st.v == "SubroutineDef":
                ex.prove(type_eq(ty, st[0]["return_type"]), f"`{self.label()}`: call expression typed {ty!r}, the subroutine returns {st[0]['return_type']!r}")
        elif e.v == "MeasureExpression":
            o = e[0]["operand"]
            ot = o["ty"]
            # the operand written decides the shape: one element of a register (`r [ 0 ]`) is one qubit, so its measurement is one bit
            oe = o["expression"]
            if oe.v == "GateOperand" and oe[0].v == "IndexedIdentifier":
                idx = oe[0][0]["indexes"]
                if len(idx) == 1 and idx[0].v == "ExpressionList" and len(idx[0][0]["expressions"]) == 1 and ty.v != "Bit":
                    raise Violation(f"`{self.label()}`: measurement of one element of a qubit register typed {ty!r} (the operand is typed {ot!r})")
            if ot.v == "Qubit" and ty.v != "Bit":
                raise Violation(f"`{self.label()}`: measurement of a qubit typed {ty!r}")
            if ot.v == "QubitArray":
                if ty.v != "BitArray":
                    raise Violation(f"`{self.label()}`: measurement of a qubit register typed {ty!r}")
                P(type_eq(N("Type", "X", {0: ot[0]}), N("Type", "X", {0: ty[0]})), f"measurement of {ot!r} typed {ty!r}")

    def check(self, ex, R):
        form = self.task[0]
        body_start = self.starts[self.npre]
        errs_pre = [e for e in R.errors if e[1] < body_start]
        errs = [e for e in R.errors if e[1] >= body_start]
        if errs_pre:
            return "preamble-diagnosed"
        kinds = [e[0] for e in errs]
        st = R.stmts[-1]
        if st.v == "DeclareClassical":
            value = st[0]["initializer"]
            tx = R.sym_type(st[0]["name"])
        elif st.v == "Assignment":
            value = st[0]["rvalue"]
            lv = st[0]["lvalue"]
            tx = R.sym_type(lv[0]) if lv.v == "Identifier" else None
        else:
            raise Violation(f"`{self.label()}`: last statement is {st.v}")
        if value is None or tx is None:
            raise Violation(f"`{self.label()}`: no value / target symbol in the graph")
        P = lambda c, msg: ex.prove(c, f"`{self.label()}`: {msg}")
        self.check_typing(ex, R, value, "value")
        vt = value["ty"]
        typediag = bool(errs)
        # O1 consistency
        if not typediag:
            P(type_eq(vt, tx), f"no diagnostic, but the stored value has type {vt!r} and the target {tx!r} (no explicit cast to the target type)")
        if form in ("decl", "assign"):
            _, (t1, w1, c1), (t2, w2, c2), vform = self.task
            if vform.startswith("arith_vw:"):
                # arithmetic on operands of different kinds: no diagnostic means a common type exists and both operands were
                # brought to it (check_typing above); kinds with no common type (anything with bit, bool, duration, stretch, angle
                # of another kind) must be diagnosed
                t3 = vform.split(":")[1]
                if t3 != t1 and (t1 in SPECIAL or t3 in SPECIAL) and not typediag:
                    raise Violation(f"`{self.label()}`: arithmetic on {t1} and {t3} operands (no common type) is accepted without diagnostic (expression typed {vt!r})")
            if vform.startswith("arith") and vt.v == "Void" and not typediag:
                raise Violation(f"`{self.label()}`: arithmetic on {t1} operands is typed Void (no common type) and accepted without diagnostic")
            if vform in ("var", "arith_vv", "mul_vv", "neg", "paren", "call", "cast_self"):
                if downward(t1, t2) and not typediag:
                    raise Violation(f"`{self.label()}`: a {t1} value is converted down to {t2} without diagnostic (value typed {vt!r}, target {tx!r})")
                if t1 == t2 and self.W1 is not None and self.W2 is not None and not c1 and not typediag:
                    P(z3.UGE(self.W2, self.W1), f"a non-constant {t1}[W1] value narrows to {t2}[W2] with W2 < W1 without diagnostic")
        elif form in ("lit", "litassign"):
            _, (t2, w2, c2), lit = self.task
            litkind = {"int": "int", "negint": "int", "float": "float", "bool": "bool", "bits": "bit", "timing": "duration", "imag": "complex", "imagf": "complex", "bigint": "int"}[lit]
            if downward(litkind, t2) and not typediag:
                raise Violation(f"`{self.label()}`: a {lit} literal is converted down to {t2} without diagnostic (value typed {vt!r}, target {tx!r})")
            if lit == "negint" and t2 == "uint" and not typediag:
                raise Violation(f"`{self.label()}`: a negative literal initialises an unsigned target without diagnostic")
        return "typed" if not typediag else "diagnosed"


def build_tasks(quick):
    tasks = []
    types = list(TY)
    wopts = lambda t: ((0, 1) if quick else (0, 1, 2)) if t in WIDTHED else (0,)
    vforms = ("var", "arith_vv", "cast", "cast_self", "neg", "call") if quick else ("var", "arith_vv", "arith_vl", "mul_vv", "cast", "cast_self", "neg", "paren", "call")
    for form in ("decl", "assign"):
        for t1 in types:
            for w1 in wopts(t1):
                for c1 in (False, True):
                    if c1 and t1 not in ("int", "uint", "float", "bool"):
                        continue
                    if c1 and quick and w1:
                        continue
                    for t2 in types:
                        for w2 in wopts(t2):
                            for c2 in ((False,) if form == "assign" or quick else (False, True)):
                                for vf in list(vforms) + ([f"arith_vw:{t3}{sfx}" for t3 in ("int", "uint", "float", "bool", "angle", "complex") for sfx in ("", ":r", ":/", ":/:r", ":*", ":-:r")] if (form == "decl" and not w1 and not w2 and not c1 and not c2) else []):
                                    if vf in ("arith_vv", "arith_vl", "mul_vv", "neg") and t1 in ("bit", "bool", "duration", "stretch"):
                                        continue
                                    if vf.startswith("arith_vw:") and t1 in ("bit", "duration", "stretch"):
                                        continue
                                    if vf == "cast_self" and (t1 != t2 or c1 or t1 not in ("int", "uint", "float") or not (w1 and w2)):
                                        continue          # a cast to the value's OWN type: its result is as wide as the value, whatever const-ness casts carry
                                    if quick and vf not in ("var", "cast_self") and (w1 != w2):
                                        continue
                                    if vf == "call" and (c1 or t1 in ("duration", "stretch")):
                                        continue
                                    tasks.append((form, (t1, w1, c1), (t2, w2, c2), vf))
    for form in ("lit", "litassign"):
        for t2 in types:
            for w2 in wopts(t2):
                for c2 in ((False, True) if form == "lit" else (False,)):
                    for lit in ("int", "negint", "float", "bool", "bits", "timing", "imag", "imagf", "bigint"):
                        tasks.append((form, (t2, w2, c2), lit))
    for target in ("bit", "bit [ 2 ]", "bit [ 3 ]", "int", "bool"):
        for operand in ("q", "r", "r [ 0 ]"):
            tasks.append(("measure", target, operand))
    return tasks


def run(ctx):
    res = Result()
    tasks = build_tasks(ctx.quick())
    if os.environ.get("VERIF_C08_ONLY"):
        tasks = [t for t in tasks if os.environ["VERIF_C08_ONLY"] in H(None, t).label()]
    ctx.log(f"{len(tasks)} typing templates")
    fails, counts, on_result = semh.collector(res, label_of=lambda t: H(None, t).label())
    st, errs = explore.explore_many(semh.famfactory(ctx.known, ctx.seed, H), tasks, workers=ctx.workers, max_paths=5000, on_result=on_result, log=ctx.log)
    res.merge_stats(st)
    ctx.log(f"{st.get('paths', 0)} paths: {dict(counts)} panic={st.get('panic', 0)} violation={st.get('violation', 0)} unsupported={st.get('unsupported', 0)} wall={st.get('wall', 0):.1f}s")
    semh.triage(ctx, res, "C08", fails)
    res.samples.append({"template": "int[W1] v; int[W2] x = v;", "outcome": "no diagnostic => types equal up to const; W2 < W1 => diagnostic (proved for all 1-2 digit widths)"})
    res.functions_encoded += ["oq3_semantics::syntax_to_semantics::{classical_declaration_statement_to_asg_stmt, assignment_stmt_to_asg_stmt, expr_to_asg_texpr, literal_to_asg_texpr, cast_expr_to_asg_texpr, can_cast_literal, scalar_type_to_type}",
                              "oq3_semantics::types::{promote_types, promote_types_not_equal, equal_up_to_constness, Type::equal_up_to_dims, Type::is_const}", "oq3_semantics::asg::{BinaryExpr::new_texpr_with_cast, Cast, TExpr}"]
    res.bounds.update({"types": "9 scalar base types", "widths": "absent or symbolic 1 (quick) / 1-2 digit decimal widths", "value_forms": "variable, const variable, v+v, v*v, v+1, -v, (v), cast, literal classes (9), measurement", "templates": len(tasks)})
    res.stubs += ["rowan tree model", "hashbrown map model", "string models", "float values opaque"]
    res.outside_claim += ["subroutine-call values", "widths of 3+ digits (C09 covers the width path)", "arrays"]
    res.exhaustive = not res.inconclusive
    return res


replay = semh.replay
