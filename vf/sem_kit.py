"""Stage-2 kit: the real oq3_syntax::ast accessors and all of oq3_semantics executed from MIR on the abstract tree."""
import re, collections
import z3
from . import mirdump, strmodel, stdmodels, textmodels, treemodel
from .interp import Program, Exec, SV, SB, EnumV, VecV, Ref, Opaque, UNIT, Panic, Unsupported, Violation, StepLimit
from .models import Models
from .treemodel import Source, NodeV, LeafV
from .strmodel import SymStr, StrSlice


class SemKit:
    def __init__(self):
        self.mirfiles = [mirdump.dump(c) for c in ("oq3_lexer", "oq3_parser", "oq3_syntax", "oq3_source_file", "oq3_semantics")]
        self.prog = Program(self.mirfiles, mirdump.REPO)
        self.models = Models()
        stdmodels.install(self.models, front=True)
        strmodel.install(self.models); strmodel.install_more(self.models); strmodel.install_strbuf(self.models)
        textmodels.install(self.models)
        treemodel.install(self.models, self.prog)
        from .h_c19 import install_map_models
        from .h_c20 import install_box_models
        from .h_c18 import install_path_models
        install_box_models(self.models)
        install_map_models(self.models)
        install_path_models(self.models, {"env": None, "env_consulted": 0, "is_file_queries": []})
        install_misc(self.models)
        vs, hasf, discs = self.prog.enums["SyntaxKind"]
        self.K = {n: (discs[i] if discs else i) for i, n in enumerate(vs)}
        self.names = {v: k for k, v in self.K.items()}
        F = lambda n: self._fn(n)
        self.f_sts = F("syntax_to_semantic")
        self.f_ctx_new = self.prog.methods.get(("Context", None, "new"))
        self.f_sel_new = self.prog.methods.get(("SemanticErrorList", None, "new"))
        self.TV = self.prog.enums["Type"][0]
        self.f_validate = self._fn("validate")

    def _fn(self, base):
        c = [f for raw, f in self.prog.funcs.items() if f.kind == "fn" and raw.split("::")[-1] == base and "<impl" not in raw and "{closure" not in raw]
        if len(c) != 1:
            raise RuntimeError(f"cannot identify function {base} in MIR ({len(c)} candidates)")
        return c[0]

    def new_exec(self, max_steps=3000000):
        return Exec(self.prog, self.models, max_steps=max_steps)

    def source(self):
        return Source(self)

    def analyze(self, ex, root, included=()):
        """syntax_to_semantic::<SourceString> on the tree; returns (context, errors)"""
        from .h_c18 import PathV
        parsed = [EnumV("Option", 1, [root]), VecV([]), UNIT]
        src = [PathV(("nofile",)), "", EnumV("Option", 1, [parsed]), VecV(list(included))]
        ctx = ex.run(self.f_ctx_new, [PathV(("nofile",))])
        errs = ex.run(self.f_sel_new, [PathV(("nofile",))])
        r = ex.run(self.f_sts, [Ref([src], 0), ctx, errs], tysubst={"T": "SourceString"})
        return r[0], r[1]

    def validate(self, ex, root):
        """oq3_syntax::validation::validate (the second source of syntax diagnostics in SourceFile::parse)"""
        v = ex.run(self.f_validate, [Ref([root], 0)])
        while isinstance(v, Ref):
            v = v.get()
        return v.items

    # ---- reading results
    def type_name(self, v):
        while isinstance(v, Ref):
            v = v.get()
        return self.TV[v.idx]


def install_misc(models):
    R = models.reg
    n0 = len(models.table)

    def deref(x):
        while isinstance(x, Ref):
            x = x.get()
        return x

    @R(r"^std::mem::replace::<.*>$|^replace::<.*>$")
    def _replace(ex, c, a):
        r = a[0]; old = r.get(); r.set(a[1]); return old

    @R(r"^std::mem::take::<.*>$")
    def _take(ex, c, a):
        r = a[0]; old = r.get()
        if isinstance(old, VecV):
            r.set(VecV([]))
        elif isinstance(old, EnumV) and old.ty == "Option":
            r.set(EnumV("Option", 0, []))
        else:
            raise Unsupported("mem::take of " + repr(old)[:40])
        return old

    @R(r"^<triomphe::Arc<.*> as Deref>::deref$|^<Arc<.*> as Deref>::deref$|^triomphe::Arc::<.*>::new$")
    def _arc(ex, c, a):
        return a[0]

    # vec![..] expands to Box::<[T; N]>::new_uninit() + a write through the raw pointer + box_assume_init_into_vec_unsafe:
    # Box = {Unique{NonNull ptr}} ; *ptr = MaybeUninit{uninit, ManuallyDrop{MaybeDangling{[T; N]}}}
    @R(r"^Box::<\[.*; \d+\]>::new_uninit$")
    def _new_uninit(ex, c, a):
        cell = [[None, [[None]]]]
        return [[Ref(cell, 0)]]

    @R(r"^std::boxed::box_assume_init_into_vec_unsafe::<.*>$")
    def _vec_macro(ex, c, a):
        b = deref(a[0])
        arr = b[0][0].get()[1][0][0]
        arr = deref(arr)
        if not isinstance(arr, VecV):
            raise Unsupported("vec! storage was not initialised")
        return VecV(list(arr.items))

    @R(r"^<Box<.*> as Drop>::drop$|^<Vec<.*> as Drop>::drop$|^<std::string::String as Drop>::drop$")
    def _drop_noop(ex, c, a):
        return UNIT

    @R(r"^std::io::_print$|^std::io::_eprint$")
    def _print(ex, c, a):
        return UNIT

    @R(r"^<u32 as TryFrom<u128>>::try_from$|^<u32 as TryFrom<usize>>::try_from$|^<usize as TryFrom<u128>>::try_from$")
    def _try_from(ex, c, a):
        v = a[0]
        tw = 32 if c.startswith("<u32") else 64
        lim = 1 << tw
        if isinstance(v, int):
            return EnumV("Result", 0, [v]) if v < lim else EnumV("Result", 1, [Opaque("TryFromIntError")])
        if v.w <= tw:
            return EnumV("Result", 0, [SV(z3.ZeroExt(tw - v.w, v.e), tw) if v.w < tw else v])
        if ex.branch_bool(SB(z3.ULT(v.e, lim))):
            return EnumV("Result", 0, [SV(z3.simplify(z3.Extract(tw - 1, 0, v.e)), tw)])
        return EnumV("Result", 1, [Opaque("TryFromIntError")])

    @R(r"^<(char|u8) as Into<(char|u8|u32)>>::into$|^<(char|u32) as From<(u8|char)>>::from$|^<T as Into<(u128|f64|bool|u32|usize)>>::into$|^<(u128|u32|usize|bool|f64) as Into<(u128|f64|bool|u32|usize)>>::into$|^<(u128|u64|usize) as From<(u8|u16|u32|u64|usize)>>::from$")
    def _into_prim(ex, c, a):
        return a[0]

    @R(r"^core::str::<impl str>::parse::<f64>$")
    def _parse_f64(ex, c, a):
        sl = strmodel.as_slice(a[0])
        cs = sl.chars()
        if all(isinstance(x, int) for x in cs):
            try:
                return EnumV("Result", 0, [float("".join(map(chr, cs)))])
            except ValueError:
                return EnumV("Result", 1, [Opaque("ParseFloatError")])
        return EnumV("Result", 0, [Opaque("f64")])      # float values are declined (DESIGN section 7)

    @R(r"^std::any::type_name::<.*>$")
    def _type_name(ex, c, a):
        return "T"
    new = models.table[n0:]
    del models.table[n0:]
    models.table[0:0] = new
    models._cache_lookup.clear()
