"""MIR dump of the repository crates, regenerated from /repo's current working tree.

`dump(crate)` returns the path of a text file holding `rustc -Zunpretty=mir` output for the
crate's lib target in the dev profile (debug assertions and overflow checks are explicit
`assert` terminators).  Dumps are cached by a hash of the crate's sources (and of the crates it
depends on), so an unchanged crate costs nothing and an edited one is always re-dumped.
"""
import fcntl, hashlib, os, subprocess, sys, time

REPO = os.environ.get("VERIF_REPO", "/repo")
WORK = os.environ.get("VERIF_WORK", "/verif/.work")
CRATES = ["oq3_lexer", "oq3_parser", "oq3_syntax", "oq3_semantics", "oq3_source_file"]
DEPS = {
    "oq3_lexer": [],
    "oq3_parser": ["oq3_lexer"],
    "oq3_syntax": ["oq3_lexer", "oq3_parser"],
    "oq3_source_file": ["oq3_lexer", "oq3_parser", "oq3_syntax"],
    "oq3_semantics": ["oq3_lexer", "oq3_parser", "oq3_syntax", "oq3_source_file"],
}


def crate_dir(crate):
    return os.path.join(REPO, "crates", crate)


def _hash_tree(h, root):
    for d, dirs, files in sorted(os.walk(root)):
        dirs.sort()
        if "/target" in d:
            continue
        for fn in sorted(files):
            if fn.endswith((".rs", ".toml", ".ungram")):
                p = os.path.join(d, fn)
                h.update(p.encode())
                with open(p, "rb") as f:
                    h.update(f.read())


def source_hash(crate):
    h = hashlib.sha256()
    for c in DEPS[crate] + [crate]:
        _hash_tree(h, os.path.join(crate_dir(c), "src"))
        with open(os.path.join(crate_dir(c), "Cargo.toml"), "rb") as f:
            h.update(f.read())
    return h.hexdigest()[:16]


def dump(crate, log=None):
    os.makedirs(os.path.join(WORK, "mir"), exist_ok=True)
    h = source_hash(crate)
    out = os.path.join(WORK, "mir", f"{crate}.{h}.mir")
    if os.path.exists(out) and os.path.getsize(out) > 1000:
        return out
    lock = open(os.path.join(WORK, "mir", ".lock"), "w")
    fcntl.flock(lock, fcntl.LOCK_EX)
    try:
        if os.path.exists(out) and os.path.getsize(out) > 1000:
            return out
        env = dict(os.environ)
        env["CARGO_NET_OFFLINE"] = "true"
        env.pop("RUSTFLAGS", None)
        cmd = ["cargo", "+nightly", "rustc", "--offline", "-p", crate, "--lib",
               "--target-dir", os.path.join(WORK, "mir-target"), "--",
               "-Zunpretty=mir", "-C", "debug-assertions=on", "-C", "overflow-checks=on",
               "--cfg", f"verif_nonce_{h}", "-A", "unexpected_cfgs"]
        t0 = time.time()
        r = subprocess.run(cmd, cwd=REPO, env=env, stdout=subprocess.PIPE, stderr=subprocess.PIPE)
        if r.returncode != 0 or len(r.stdout) < 1000:
            sys.stderr.write(r.stderr.decode(errors="replace")[-4000:])
            raise RuntimeError(f"MIR dump of {crate} failed (rc={r.returncode}, {len(r.stdout)} bytes)")
        tmp = out + ".tmp"
        with open(tmp, "wb") as f:
            f.write(r.stdout)
        os.replace(tmp, out)
        # drop stale dumps of this crate
        for fn in os.listdir(os.path.join(WORK, "mir")):
            if fn.startswith(crate + ".") and fn.endswith(".mir") and fn != os.path.basename(out):
                try:
                    os.remove(os.path.join(WORK, "mir", fn))
                except OSError:
                    pass
        if log:
            log(f"MIR dump {crate}: {len(r.stdout)} bytes in {time.time() - t0:.1f}s")
        return out
    finally:
        fcntl.flock(lock, fcntl.LOCK_UN)
        lock.close()


def src_root(crate):
    """directory against which `<impl at crates/..>` spans printed in the MIR are resolved"""
    return REPO


if __name__ == "__main__":
    for c in sys.argv[1:] or CRATES:
        print(dump(c, log=print))
