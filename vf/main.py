"""check runner:  /verif/check <ID> [--tier quick|thorough] [--replay <file>]

exit 0  every path inside the stated bounds returned normally and every obligation was proved
        (or only findings listed in known_findings.json failed)
exit 1  a natively reproduced violation not listed in known_findings.json (VIOLATION line printed)
exit 2  inconclusive: unsupported construct, solver unknown/error, engines disagree, a counterexample
        that does not reproduce natively, or the time cap hit before the bound was exhausted
"""
import argparse, importlib, json, os, sys, time, traceback

ROOT = os.path.dirname(os.path.dirname(os.path.abspath(__file__)))
EVID = os.path.join(ROOT, "evidence")
WORK = os.environ.get("VERIF_WORK", os.path.join(ROOT, ".work"))
if os.environ.get("VERIF_REPO", "/repo") != "/repo":
    EVID = os.path.join(WORK, "evidence")        # a run against a scratch copy of the repository (seed tests) never touches the registered evidence


class Ctx:
    def __init__(self, pid, tier, seed):
        self.pid = pid; self.tier = tier; self.seed = seed
        self.t0 = time.time()
        self.workers = int(os.environ.get("VERIF_WORKERS", min(16, os.cpu_count() or 1)))
        kf = json.load(open(os.path.join(ROOT, "known_findings.json")))
        self.known = [f for f in kf.get("findings", []) if f.get("property") == pid and f.get("status", "open") == "open"]
        self.replay_dir = os.path.join(WORK, "replays", pid)
        os.makedirs(self.replay_dir, exist_ok=True)

    def log(self, *a):
        print(f"[{self.pid} {time.time() - self.t0:6.1f}s]", *a, flush=True)

    def quick(self):
        return self.tier == "quick"


class Result:
    """what a harness module returns from run(ctx)"""
    def __init__(self):
        self.states = 0              # paths explored to completion
        self.transitions = 0         # symbolic branch decisions taken
        self.validated = 0           # native replays compared with the engine's prediction
        self.samples = []
        self.functions_encoded = []
        self.bounds = {}
        self.queries = 0
        self.solver_time_s = 0.0
        self.stubs = []
        self.outside_claim = []
        self.assumptions = []
        self.exhaustive = False
        self.violations = []         # dicts {what, replay}
        self.known_hits = []         # strings
        self.inconclusive = []       # strings
        self.extra = {}
        self.obligations = 0

    def merge_stats(self, st):
        self.states += st.get("paths", 0)
        self.transitions += st.get("decisions", 0)
        self.queries += st.get("solver_calls", 0)
        self.solver_time_s += st.get("solver_time_ms", 0) / 1000.0
        if st.get("xcheck_agree") or st.get("xcheck_unknown"):
            x = self.extra.setdefault("second_solver_cross_check", {"solver": "cvc5 1.0 on the SMT-LIB text of sampled z3 queries", "agree": 0, "no_verdict": 0})
            x["agree"] += st.get("xcheck_agree", 0); x["no_verdict"] += st.get("xcheck_unknown", 0)


def write_evidence(ctx, res, wall):
    os.makedirs(EVID, exist_ok=True)
    cov = {
        "states": max(res.states, 0), "transitions": max(res.transitions, 0),
        "traces_validated_against_impl": res.validated,
        "samples": res.samples[:12] if res.samples else ["(no sample recorded)"],
        "exhaustive": bool(res.exhaustive),
        "functions_encoded": res.functions_encoded, "bounds": res.bounds,
        "queries_discharged": res.queries, "solver_time_s": round(res.solver_time_s, 2),
        "obligations_proved": res.obligations,
        "stubs": res.stubs, "outside_claim": res.outside_claim,
        "known_findings_hit": res.known_hits, "inconclusive": res.inconclusive[:20],
        "violations_detail": [v.get("what") for v in res.violations][:20],
    }
    cov.update({k: v for k, v in res.extra.items() if not k.startswith("_")})
    ev = {"property_id": ctx.pid, "tier": ctx.tier, "seed": ctx.seed, "level": "model_checking",
          "coverage": cov, "assumptions": res.assumptions, "wall_s": round(wall, 2),
          "violations": len(res.violations)}
    tmp = os.path.join(EVID, ctx.pid + ".json.tmp")
    with open(tmp, "w") as f:
        json.dump(ev, f, indent=1, default=str)
    os.replace(tmp, os.path.join(EVID, ctx.pid + ".json"))


def main(argv=None):
    ap = argparse.ArgumentParser()
    ap.add_argument("pid")
    ap.add_argument("--tier", default=os.environ.get("VERIF_TIER", "quick"), choices=["quick", "thorough"])
    ap.add_argument("--replay", default=None)
    a = ap.parse_args(argv)
    seed = int(os.environ.get("VERIF_SEED", "0") or 0)
    if a.tier == "thorough":
        os.environ.setdefault("VERIF_XCHECK", "400")      # thorough: 1 of 400 solver queries is re-decided by cvc5 (read when vf.interp is imported by the harness)
    ctx = Ctx(a.pid, a.tier, seed)
    try:
        mod = importlib.import_module("vf.h_" + a.pid.lower())
    except ModuleNotFoundError as e:
        print(f"no check for {a.pid}: {e}")
        return 2
    if a.replay:
        return mod.replay(ctx, a.replay)
    t0 = time.time()
    res = None
    try:
        res = mod.run(ctx)
    except Exception:
        traceback.print_exc()
        res = Result()
        res.inconclusive.append("harness crashed: " + traceback.format_exc()[-600:])
    wall = time.time() - t0
    write_evidence(ctx, res, wall)
    for k in res.known_hits:
        print(f"KNOWN-FINDING: property={ctx.pid} {k}")
    for v in res.violations:
        print(f"VIOLATION property={ctx.pid} replay={v['replay']}")
        print("   ", v.get("what"))
    if res.violations:
        for m in res.inconclusive[:5]:
            print("INCONCLUSIVE (also):", m[:300])
        return 1
    if res.inconclusive:
        for m in res.inconclusive[:10]:
            print("INCONCLUSIVE:", m)
        return 2
    ctx.log(f"OK: {res.states} paths, {res.obligations} obligations proved, {res.queries} solver queries, exhaustive={res.exhaustive}, {wall:.1f}s")
    return 0


if __name__ == "__main__":
    sys.exit(main())
