"""Parser for rustc `-Zunpretty=mir` text dumps (prototype)."""
import re

class Func:
    __slots__ = ("name", "rawname", "nargs", "locals", "blocks", "ret", "argtypes", "kind", "src", "crate")
    def __init__(self):
        self.locals = {}
        self.blocks = {}

# ---------------------------------------------------------------- lexical helpers

def split_top(s, sep=","):
    """split on sep at bracket depth 0, string/char-literal aware."""
    out, depth, cur, i, n = [], 0, [], 0, len(s)
    while i < n:
        c = s[i]
        if c == '"':
            j = i + 1
            while j < n and s[j] != '"':
                if s[j] == '\\':
                    j += 1
                j += 1
            cur.append(s[i:j + 1]); i = j + 1; continue
        if c == "'" and i + 2 < n and (s[i + 2] == "'" or (s[i + 1] == '\\')):
            # char literal like 'a' or '\n' or '\u{..}'
            j = s.find("'", i + 2 if s[i + 1] != '\\' else i + 3)
            if j != -1 and j - i < 12:
                cur.append(s[i:j + 1]); i = j + 1; continue
        if c in "([{<":
            # '<' only counts as bracket when it looks like generics; MIR rvalues use Lt(..) names so ok
            if c == '<' and (i + 1 < n and s[i + 1] in " ="):
                cur.append(c); i += 1; continue
            depth += 1
        elif c in ")]}>":
            if c == '>' and i > 0 and s[i - 1] in "-=":
                cur.append(c); i += 1; continue
            if c == '>' and (i > 0 and s[i - 1] == ' '):
                cur.append(c); i += 1; continue
            depth -= 1
        if c == sep and depth == 0:
            out.append("".join(cur).strip()); cur = []
        else:
            cur.append(c)
        i += 1
    t = "".join(cur).strip()
    if t:
        out.append(t)
    return out

def match_back(s, end):
    """s[end] == ')' ; return index of matching '(' (string aware, scanning fwd)."""
    stack = []
    i, n = 0, len(s)
    pairs = {}
    while i < n:
        c = s[i]
        if c == '"':
            j = i + 1
            while j < n and s[j] != '"':
                if s[j] == '\\':
                    j += 1
                j += 1
            i = j + 1; continue
        if c == "'" and i + 2 < n and (s[i + 2] == "'" or (s[i + 1] == '\\')):
            j = s.find("'", i + 2 if s[i + 1] != '\\' else i + 3)
            if j != -1 and j - i < 12:
                i = j + 1; continue
        if c == '(':
            stack.append(i)
        elif c == ')':
            if stack:
                o = stack.pop(); pairs[i] = o
        i += 1
    return pairs.get(end)

# ---------------------------------------------------------------- places / operands

class Place:
    __slots__ = ("local", "proj")
    def __init__(self, local, proj):
        self.local = local; self.proj = proj
    def __repr__(self):
        return f"P(_{self.local},{self.proj})"

_place_cache = {}

def parse_place(s):
    s = s.strip()
    p = _place_cache.get(s)
    if p is None:
        p, rest = _pp(s, 0)
        assert rest == len(s), (s, rest)
        _place_cache[s] = p
    return p

def _pp(s, i):
    # returns Place, next index
    if s[i] == '_':
        j = i + 1
        while j < len(s) and s[j].isdigit():
            j += 1
        pl = Place(int(s[i + 1:j]), [])
        i = j
    elif s[i] == '(':
        if s[i + 1] == '*':
            inner, j = _pp(s, i + 2)
            assert s[j] == ')', s
            pl = Place(inner.local, inner.proj + [("deref",)])
            i = j + 1
        else:
            inner, j = _pp(s, i + 1)
            if s.startswith(" as ", j):
                k = s.index(')', j)
                var = s[j + 4:k]
                pl = Place(inner.local, inner.proj + [("downcast", var)])
                i = k + 1
            elif s[j] == '.':
                k = j + 1
                while s[k].isdigit():
                    k += 1
                fld = int(s[j + 1:k])
                assert s[k] == ':', s
                # skip type until matching ')'
                depth = 1; m = k
                while depth:
                    m += 1
                    if s[m] in '([{':
                        depth += 1
                    elif s[m] in ')]}':
                        depth -= 1
                ty = s[k + 1:m].strip()
                pl = Place(inner.local, inner.proj + [("field", fld, ty)])
                i = m + 1
            else:
                raise ValueError("place " + s)
    else:
        raise ValueError("place? " + s)
    # postfix index
    while i < len(s) and s[i] == '[':
        k = s.index(']', i)
        inside = s[i + 1:k]
        if inside.startswith('_'):
            pl = Place(pl.local, pl.proj + [("index", int(inside[1:]))])
        elif ' of ' in inside:
            a, b = inside.split(' of ')
            fromend = a.startswith('-')
            pl = Place(pl.local, pl.proj + [("cindex", int(a.lstrip('-')), int(b), fromend)])
        else:
            raise ValueError("subslice unsupported " + s)
        i = k + 1
    return pl, i

class Const:
    __slots__ = ("text",)
    def __init__(self, text):
        self.text = text
    def __repr__(self):
        return f"C({self.text})"

class Operand:
    __slots__ = ("mode", "place", "const")
    def __init__(self, mode, place=None, const=None):
        self.mode = mode; self.place = place; self.const = const
    def __repr__(self):
        return f"{self.mode}:{self.place or self.const}"

def parse_operand(s):
    s = s.strip()
    if s.startswith("no_retag "):
        s = s[9:]
    if s.startswith("copy "):
        return Operand("copy", parse_place(s[5:]))
    if s.startswith("move "):
        return Operand("move", parse_place(s[5:]))
    if s.startswith("const "):
        return Operand("const", const=s[6:].strip())
    # bare path (fn item / unit struct const)
    return Operand("const", const=s)

# ---------------------------------------------------------------- statements

BINOPS = {"Add", "Sub", "Mul", "Div", "Rem", "BitXor", "BitAnd", "BitOr", "Shl", "Shr", "Eq", "Lt", "Le", "Ne", "Ge", "Gt",
          "AddWithOverflow", "SubWithOverflow", "MulWithOverflow", "Offset", "Cmp", "AddUnchecked", "SubUnchecked",
          "MulUnchecked", "ShlUnchecked", "ShrUnchecked"}
UNOPS = {"Not", "Neg", "PtrMetadata"}

def parse_rvalue(r):
    r = r.strip()
    if r.startswith("&raw "):
        m = re.match(r"&raw (const|mut) (.*)", r)
        return ("ref", parse_place(m.group(2)), "raw")
    if r.startswith("&mut "):
        return ("ref", parse_place(r[5:]), "mut")
    if r.startswith("&") and not r.startswith("&&"):
        body = r[1:].strip()
        if body.startswith("fake shallow "):
            body = body[13:]
        if body.startswith("fake "):
            body = body[5:]
        return ("ref", parse_place(body), "shr")
    if r.startswith("discriminant("):
        return ("discr", parse_place(r[13:-1]))
    if r.startswith("Len("):
        return ("len", parse_place(r[4:-1]))
    m = re.match(r"^([A-Za-z]+)\((.*)\)$", r)
    if m and m.group(1) in BINOPS:
        a, b = split_top(m.group(2))
        return ("binop", m.group(1), parse_operand(a), parse_operand(b))
    if m and m.group(1) in UNOPS:
        return ("unop", m.group(1), parse_operand(m.group(2)))
    # cast:  OPERAND as TYPE (Kind)
    m = re.match(r"^(.*) as (.*) \(((?:IntToInt|IntToFloat|FloatToInt|FloatToFloat|Transmute|PtrToPtr|FnPtrToPtr|PointerCoercion|PointerExposeProvenance|PointerWithExposedProvenance)(?:\(.*\))?)\)$", r)
    if m and not r.startswith("("):
        return ("cast", parse_operand(m.group(1)), m.group(2), m.group(3))
    if r.startswith(("copy ", "move ", "const ", "no_retag ")):
        return ("use", parse_operand(r))
    if r.startswith("["):
        inner = r[1:-1]
        if ';' in inner and len(split_top(inner, ';')) == 2:
            a, b = split_top(inner, ';')
            return ("repeat", parse_operand(a), b)
        return ("array", [parse_operand(x) for x in split_top(inner)])
    if r.startswith("("):
        inner = r[1:-1].strip()
        if inner == "":
            return ("tuple", [])
        return ("tuple", [parse_operand(x) for x in split_top(inner)])
    if r.startswith("{closure@") or r.startswith("{coroutine@"):
        return ("closure", r)
    # aggregates: Path { f: op, .. } | Path(args) | Path::Variant
    if r.endswith("}") and " { " in r:
        k = r.index(" { ")
        path = r[:k]
        flds = split_top(r[k + 3:-1].strip())
        out = []
        for f in flds:
            nm, op = f.split(": ", 1)
            out.append((nm.strip(), parse_operand(op)))
        return ("adt_struct", path, out)
    if r.endswith(")"):
        o = match_back(r, len(r) - 1)
        path = r[:o]
        args = split_top(r[o + 1:-1])
        return ("adt_tuple", path, [parse_operand(a) for a in args])
    if r.startswith("[closure@"):
        return ("closure", r)
    return ("adt_unit", r)

def parse_stmt(line):
    s = line.strip()
    assert s.endswith(";"), s
    s = s[:-1]
    if s.startswith(("StorageLive(", "StorageDead(", "FakeRead(", "PlaceMention(", "AscribeUserType(", "Retag(", "nop", "ConstEvalCounter", "Coverage", "BackwardIncompatibleDropHint")):
        return None
    if s.startswith("Deinit("):
        return None
    if s == "return":
        return ("return",)
    if s == "unreachable":
        return ("unreachable",)
    if s == "resume" or s.startswith("abort") or s.startswith("terminate"):
        return ("resume",)
    if s.startswith("goto -> "):
        return ("goto", int(s[10:]))
    if s.startswith("switchInt("):
        k = s.index(") -> [")
        op = parse_operand(s[10:k])
        tg = s[k + 6:-1]
        targets = []; other = None
        for t in split_top(tg):
            a, b = t.split(": ")
            if a == "otherwise":
                other = int(b[2:])
            else:
                targets.append((int(a), int(b[2:])))
        return ("switch", op, targets, other)
    if s.startswith("drop("):
        k = s.index(") -> ")
        pl = parse_place(s[5:k])
        m = re.search(r"return: bb(\d+)", s[k:])
        return ("drop", pl, int(m.group(1)))
    if s.startswith("assert("):
        k = s.rindex(") -> ")
        inner = split_top(s[7:k])
        cond = inner[0]
        expected = True
        if cond.startswith("!"):
            expected = False; cond = cond[1:]
        m = re.search(r"success: bb(\d+)", s[k:])
        return ("assert", parse_operand(cond), expected, inner[1] if len(inner) > 1 else "", int(m.group(1)))
    # assignment or call
    m = re.match(r"^(.*?) = (.*)$", s)
    if not m:
        raise ValueError("stmt? " + s)
    lhs, rhs = m.group(1), m.group(2)
    # discriminant(_x) = N
    if lhs.startswith("discriminant("):
        return ("setdiscr", parse_place(lhs[13:-1]), int(rhs))
    cm = re.search(r" -> (\[return: bb(\d+), unwind[^\]]*\]|unwind [a-z() ]+|bb\d+|\[return: bb(\d+)\])$", rhs)
    if cm:
        callpart = rhs[:cm.start()]
        ret = cm.group(2) or cm.group(3)
        o = match_back(callpart, len(callpart) - 1)
        if o is None:
            raise ValueError("call? " + s[:300])
        callee = callpart[:o]
        args = [parse_operand(a) for a in split_top(callpart[o + 1:-1])]
        return ("call", parse_place(lhs), callee.strip(), args, int(ret) if ret else None)
    return ("assign", parse_place(lhs), parse_rvalue(rhs))

# ---------------------------------------------------------------- file level

HDR = re.compile(r"^(fn|const|static|static mut) (.*)$")

def parse_file(path):
    """returns dict name -> Func ; raw items keyed by printed path."""
    funcs = {}
    lines = open(path, encoding="utf-8").read().split("\n")
    i, n = 0, len(lines)
    skip_next_fn = False
    while i < n:
        line = lines[i]
        if line.startswith("// MIR FOR CTFE"):
            skip_next_fn = True; i += 1; continue
        m = HDR.match(line)
        if not m or not line.rstrip().endswith("{"):
            # one-line consts: const X: T = const 1_u32;
            m2 = re.match(r"^const (.*) = const (.*);$", line)
            if m2:
                h = m2.group(1); start = 0
                if "<impl at " in h:
                    start = h.index(">", h.index("<impl at "))
                k = h.index(": ", start)
                f = Func(); f.kind = "constval"; f.rawname = h[:k]; f.name = f.rawname
                f.ret = h[k + 2:]; f.src = m2.group(2); f.nargs = 0; f.argtypes = []; funcs[f.rawname] = f
            i += 1; continue
        kind = m.group(1)
        hdr = m.group(2)
        # collect body until line == "}"
        j = i + 1
        body = []
        while lines[j] != "}":
            body.append(lines[j]); j += 1
        if skip_next_fn:
            skip_next_fn = False; i = j + 1; continue
        f = Func(); f.kind = kind
        if kind == "fn":
            # name up to the '(' that starts the parameter list: params look like (_1: T, ...)
            k = hdr.find("(_1:")
            if k == -1:
                k = hdr.rfind("()")
            f.rawname = hdr[:k]
            # params
            close = hdr.rindex(") -> ")
            params = hdr[k + 1:close]
            f.argtypes = []
            for p in split_top(params):
                pm = re.match(r"_(\d+): (.*)", p)
                f.argtypes.append(pm.group(2))
            f.nargs = len(f.argtypes)
            f.ret = hdr[close + 5:-2].strip()
        else:
            start = 0
            if "<impl at " in hdr:
                start = hdr.index(">", hdr.index("<impl at "))
            k = hdr.index(": ", start)
            f.rawname = hdr[:k]; f.ret = hdr[k + 2:-4]; f.nargs = 0; f.argtypes = []
        f.name = f.rawname
        cur = None
        for b in body:
            t = b.strip()
            if not t or t.startswith(("debug ", "scope ", "}", "//")):
                continue
            lm = re.match(r"^let (mut )?_(\d+): (.*);$", t)
            if lm:
                f.locals[int(lm.group(2))] = lm.group(3); continue
            bm = re.match(r"^bb(\d+)( \(cleanup\))?: \{$", t)
            if bm:
                cur = []; f.blocks[int(bm.group(1))] = cur; continue
            if cur is None:
                continue
            cur.append(t)
        # lazily parse statements
        if f.rawname not in funcs:
            funcs[f.rawname] = f
        i = j + 1
    return funcs

def compile_block(raw):
    out = []
    for t in raw:
        st = parse_stmt(t)
        if st is not None:
            out.append(st)
    return out

if __name__ == "__main__":
    import sys
    fs = parse_file(sys.argv[1])
    bad = 0; tot = 0
    for f in fs.values():
        for b, raw in f.blocks.items():
            for t in raw:
                tot += 1
                try:
                    parse_stmt(t)
                except Exception as e:
                    bad += 1
                    if bad < 40:
                        print("FAIL", f.rawname[:50], "|", t[:200], "|", repr(e)[:100])
    print(len(fs), "items", tot, "stmts", bad, "bad")
