"""Native replay: build /verif/replay against /repo's current tree and run inputs through it."""
import json, os, resource, subprocess, sys, time, fcntl, shutil

WORK = os.environ.get("VERIF_WORK", "/verif/.work")
REPO = os.environ.get("VERIF_REPO", "/repo")
CRATE = "/verif/replay"
TARGET = os.path.join(WORK, "replay-target")


def _crate_dir():
    """the replay crate; for an alternative repository (VERIF_REPO, used by tools/seedtest.sh) a copy with its path dependencies rewritten"""
    if REPO == "/repo":
        return CRATE
    d = os.path.join(WORK, "replay-src")
    os.makedirs(os.path.join(d, "src"), exist_ok=True)
    for rel in ("Cargo.toml", "src/main.rs"):
        t = open(os.path.join(CRATE, rel)).read()
        if rel == "Cargo.toml":
            t = t.replace("/repo/crates/", REPO.rstrip("/") + "/crates/")
        old = open(os.path.join(d, rel)).read() if os.path.exists(os.path.join(d, rel)) else None
        if old != t:
            open(os.path.join(d, rel), "w").write(t)
    return d
_built = {}


def build(profile="dev", log=None):
    if _built.get(profile):
        return _built[profile]
    os.makedirs(WORK, exist_ok=True)
    lock = open(os.path.join(WORK, ".replay.lock"), "w")
    fcntl.flock(lock, fcntl.LOCK_EX)
    try:
        env = dict(os.environ)
        env["CARGO_NET_OFFLINE"] = "true"
        env.pop("RUSTFLAGS", None)
        crate = _crate_dir()
        lockfile = os.path.join(crate, "Cargo.lock")
        if not os.path.exists(lockfile) and os.path.exists(os.path.join(REPO, "Cargo.lock")):
            shutil.copy(os.path.join(REPO, "Cargo.lock"), lockfile)
        cmd = ["cargo", "build", "--offline", "--target-dir", TARGET]
        if profile == "release":
            cmd.append("--release")
        t0 = time.time()
        r = subprocess.run(cmd, cwd=crate, env=env, stdout=subprocess.PIPE, stderr=subprocess.STDOUT)
        if r.returncode != 0:
            sys.stderr.write(r.stdout.decode(errors="replace")[-4000:])
            raise RuntimeError("native replay driver failed to build against /repo")
        if log:
            log(f"native driver ({profile}) built in {time.time() - t0:.1f}s")
        exe = os.path.join(TARGET, "release" if profile == "release" else "debug", "vreplay")
        _built[profile] = exe
        return exe
    finally:
        fcntl.flock(lock, fcntl.LOCK_UN)
        lock.close()


def _limits(mem_gb):
    def f():
        b = int(mem_gb * (1 << 30))
        resource.setrlimit(resource.RLIMIT_AS, (b, b))
    return f


def hexs(s):
    return s.encode("utf-8").hex()


def run_lines(lines, profile="dev", timeout=10, mem_gb=2):
    """run a batch; returns list of result dicts (one per line).  A crash/hang of the batch falls back
    to one process per line so that the culprit is identified."""
    exe = build(profile)
    if not lines:
        return []
    try:
        r = subprocess.run([exe], input=("\n".join(lines) + "\n").encode(), stdout=subprocess.PIPE, stderr=subprocess.DEVNULL,
                           timeout=max(timeout, 0.02 * len(lines) + timeout), preexec_fn=_limits(mem_gb))
        outs = r.stdout.decode(errors="replace").strip().split("\n") if r.stdout.strip() else []
        if r.returncode == 0 and len(outs) == len(lines):
            return [json.loads(o) for o in outs]
    except subprocess.TimeoutExpired:
        pass
    if len(lines) == 1:
        return [run_one(lines[0], profile, timeout, mem_gb)]
    return [run_one(l, profile, timeout, mem_gb) for l in lines]


def run_one(line, profile="dev", timeout=10, mem_gb=2):
    exe = build(profile)
    t0 = time.time()
    try:
        r = subprocess.run([exe], input=(line + "\n").encode(), stdout=subprocess.PIPE, stderr=subprocess.PIPE,
                           timeout=timeout, preexec_fn=_limits(mem_gb))
    except subprocess.TimeoutExpired:
        return {"hang": True, "timeout_s": timeout}
    out = r.stdout.decode(errors="replace").strip()
    if r.returncode != 0 or not out:
        err = r.stderr.decode(errors="replace")[-300:]
        if "memory allocation" in err or r.returncode in (-6, -9, 134):
            return {"oom": True, "rc": r.returncode, "stderr": err, "wall_s": round(time.time() - t0, 2)}
        return {"crash": True, "rc": r.returncode, "stderr": err}
    return json.loads(out.split("\n")[-1])


def failed(res):
    return any(k in res for k in ("panic", "hang", "oom", "crash"))
