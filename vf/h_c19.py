"""C19 - the symbol table behaves as a stack of scopes under every operation history (DESIGN 6/C19).

All of oq3_semantics::symbols (SymbolTable::{new, enter_scope, exit_scope, new_binding, lookup, ...}) is executed from MIR.
hashbrown::HashMap<String, SymbolId> is replaced by an abstract finite map (ordered association list; key comparison is
string equality over possibly symbolic characters).  A history is a sequence of h operations whose opcode (one of the
property's 9 operations) and name character are solver variables; after every operation the table's answers are
compared with a stack-of-maps oracle kept by the harness.
"""
import json, os, hashlib, collections
import z3
from . import explore, native, mirdump, strmodel
from .interp import Program, Exec, SV, SB, EnumV, VecV, Ref, UNIT, Panic, Unsupported, Violation, StepLimit, shallow_copy
from .models import Models
from .main import Result
from .strmodel import SymStr, StrSlice
from .h_c20 import install_box_models

OPS = ["enter_local", "enter_subroutine", "exit", "bind_int", "bind_qubit", "lookup"]
# second family: histories over gate / hardware-qubit bindings, after which the listing observers gates() and hardware_qubits() are
# compared with the oracle (every listed id denotes the listed name with the listed type, in id order, `U` left out)
OPS_OBS = ["enter_local", "exit", "bind_int", "bind_gate", "bind_hw"]
BUILTINS = [("pi", "Float"), ("π", "Float"), ("euler", "Float"), ("ℇ", "Float"), ("tau", "Float"), ("τ", "Float"), ("U", "Gate")]


class MapV:
    """abstract hashbrown::HashMap: association list (insertion order irrelevant to every observer used here)"""
    def __init__(self, entries=None):
        self.entries = entries or []

    def __deepcopy__(self, memo):
        return MapV([[k, shallow_copy(v)] for k, v in self.entries])


def key_eq(ex, a, b):
    """equality of two keys (strings: may fork on symbolic characters; other keys: structural)"""
    da, db = a, b
    while isinstance(da, Ref):
        da = da.get()
    while isinstance(db, Ref):
        db = db.get()
    if not isinstance(da, (StrSlice, str)) or not isinstance(db, (StrSlice, str)):
        from .models import struct_eq
        r = struct_eq(ex, da, db)
        return ex.branch_bool(r) if isinstance(r, SB) else bool(r)
    x, y = strmodel.as_slice(a), strmodel.as_slice(b)
    cx, cy = x.chars(), y.chars()
    if len(cx) != len(cy):
        return False
    for p, q in zip(cx, cy):
        if isinstance(p, int) and isinstance(q, int):
            if p != q:
                return False
        else:
            pe = p.e if isinstance(p, SV) else z3.BitVecVal(p, 32)
            qe = q.e if isinstance(q, SV) else z3.BitVecVal(q, 32)
            if not ex.branch_bool(SB(pe == qe)):
                return False
    return True


def install_map_models(models):
    R = models.reg
    n0 = len(models.table)

    def deref(x):
        while isinstance(x, Ref):
            x = x.get()
        return x

    def opt(x):
        return EnumV("Option", 0, []) if x is None else EnumV("Option", 1, [x])

    @R(r"^hashbrown::HashMap::<.*>::new$")
    def _new(ex, c, a):
        return MapV()

    @R(r"^hashbrown::HashMap::<.*>::insert$")
    def _insert(ex, c, a):
        m = deref(a[0]); k = a[1]; v = a[2]
        for e in m.entries:
            if key_eq(ex, e[0], k):
                old = e[1]; e[1] = v
                return opt(old)
        m.entries.append([k, v])
        return opt(None)

    @R(r"^hashbrown::HashMap::<.*>::get(::<.*>)?$")
    def _get(ex, c, a):
        m = deref(a[0]); k = a[1]
        for e in m.entries:
            if key_eq(ex, e[0], k):
                return opt(Ref(e, 1))
        return opt(None)

    @R(r"^hashbrown::HashMap::<.*>::contains_key(::<.*>)?$")
    def _contains(ex, c, a):
        m = deref(a[0]); k = a[1]
        for e in m.entries:
            if key_eq(ex, e[0], k):
                return True
        return False

    # ---- Entry API (entry / entry_ref): Occupied = variant 0, Vacant = variant 1 (hashbrown's declaration order)
    class EntryV:
        ref_like = True

        def __init__(self, m, key, slot):
            self.m = m; self.key = key; self.slot = slot      # slot: the [k, v] entry if occupied

        def __deepcopy__(self, memo):
            return self

    @R(r"^hashbrown::HashMap::<.*>::(entry|entry_ref)(::<.*>)?$")
    def _entry(ex, c, a):
        m = deref(a[0]); k = a[1]
        ty = "EntryRef" if "entry_ref" in c else "Entry"
        ex.prog.enums.setdefault(ty, (["Occupied", "Vacant"], [True, True], None))
        for e in m.entries:
            if key_eq(ex, e[0], k):
                return EnumV(ty, 0, [EntryV(m, k, e)])
        return EnumV(ty, 1, [EntryV(m, k, None)])

    @R(r"^hashbrown::hash_map::(VacantEntry|VacantEntryRef)::<.*>::insert$|^(VacantEntry|VacantEntryRef)::<.*>::insert$")
    def _vacant_insert(ex, c, a):
        en = deref(a[0])
        slot = [en.key, a[1]]
        en.m.entries.append(slot)
        return Ref(slot, 1)

    @R(r"^hashbrown::hash_map::OccupiedEntry::<.*>::(get|get_mut|into_mut)$|^OccupiedEntry::<.*>::(get|get_mut|into_mut)$")
    def _occ_get(ex, c, a):
        return Ref(deref(a[0]).slot, 1)

    @R(r"^hashbrown::hash_map::OccupiedEntry::<.*>::insert$|^OccupiedEntry::<.*>::insert$")
    def _occ_insert(ex, c, a):
        en = deref(a[0]); old = en.slot[1]; en.slot[1] = a[1]
        return old

    @R(r"^hashbrown::hash_map::OccupiedEntry::<.*>::remove$|^OccupiedEntry::<.*>::remove$")
    def _occ_remove(ex, c, a):
        en = deref(a[0])
        en.m.entries[:] = [e for e in en.m.entries if e is not en.slot]
        return en.slot[1]

    @R(r"^hashbrown::hash_map::(Entry|EntryRef)::<.*>::(or_insert|or_insert_with|or_default)(::<.*>)?$|^(Entry|EntryRef)::<.*>::(or_insert|or_insert_with|or_default)(::<.*>)?$")
    def _or_insert(ex, c, a):
        e = deref(a[0]); en = e.fields[0]
        if e.idx == 0:
            return Ref(en.slot, 1)
        if "or_insert_with" in c:
            v = ex.call_closure(a[1], [])
        elif "or_default" in c:
            raise Unsupported("Entry::or_default")
        else:
            v = a[1]
        slot = [en.key, v]
        en.m.entries.append(slot)
        return Ref(slot, 1)

    @R(r"^hashbrown::HashMap::<.*>::remove(::<.*>)?$")
    def _remove(ex, c, a):
        m = deref(a[0]); k = a[1]
        for i, e in enumerate(m.entries):
            if key_eq(ex, e[0], k):
                del m.entries[i]
                return opt(e[1])
        return opt(None)

    @R(r"^hashbrown::HashMap::<.*>::get_mut(::<.*>)?$")
    def _get_mut(ex, c, a):
        return _get(ex, c, a)

    @R(r"^hashbrown::HashMap::<.*>::is_empty$")
    def _is_empty(ex, c, a):
        return not deref(a[0]).entries

    @R(r"^hashbrown::HashMap::<.*>::len$")
    def _len(ex, c, a):
        return len(deref(a[0]).entries)

    @R(r"^<hashbrown::HashMap<.*> as Clone>::clone$")
    def _clone(ex, c, a):
        m = deref(a[0])
        return MapV([[k, shallow_copy(v)] for k, v in m.entries])

    @R(r"^<T as ToString>::to_string$|^<std::string::String as Clone>::clone$|^<std::string::String as Deref>::deref$")
    def _tostring(ex, c, a):
        return deref(a[0]) if not isinstance(deref(a[0]), (StrSlice, str)) else deref(a[0])
    new = models.table[n0:]
    del models.table[n0:]
    models.table[0:0] = new
    models._cache_lookup.clear()


class Family:
    def __init__(self, seed):
        self.seed = seed
        self.prog = Program([mirdump.dump("oq3_semantics")], mirdump.REPO)
        self.models = Models()
        from . import stdmodels
        stdmodels.install(self.models, front=True)
        strmodel.install(self.models)
        install_box_models(self.models)
        install_map_models(self.models)
        self.TV = self.prog.enums["Type"][0]
        self.ST = self.prog.enums["ScopeType"][0]
        M = lambda n: self.prog.methods.get(("SymbolTable", None, n))
        self.m = {n: M(n) for n in ("new", "enter_scope", "exit_scope", "new_binding", "lookup", "len_current_scope", "in_global_scope", "index", "gates", "hardware_qubits")}
        for n, f in self.m.items():
            if f is None:
                raise RuntimeError("SymbolTable::" + n + " not found in MIR")


class HistHarness:
    def __init__(self, h, seed, with_global=False, observers=False):
        self.h = h; self.seed = seed; self.with_global = with_global; self.observers = observers
        self.ops = OPS_OBS if observers else OPS

    def make_exec(self):
        self.fam = Family(self.seed)
        return Exec(self.fam.prog, self.fam.models, max_steps=400000)

    def scope(self, name):
        st = self.fam.ST
        return st.index(name)

    def typ(self, name):
        TV = self.fam.TV
        if name == "int":
            return EnumV("Type", TV.index("Int"), [EnumV("Option", 1, [32]), 1])
        if name == "gate":
            return EnumV("Type", TV.index("Gate"), [1, 2])
        if name == "hw":
            return EnumV("Type", TV.index("HardwareQubit"), [])
        return EnumV("Type", TV.index("Qubit"), [])

    def type_name(self, v):
        while isinstance(v, Ref):
            v = v.get()
        return self.fam.TV[v.idx]

    def run(self, ex):
        fam = self.fam; m = fam.m
        table = ex.run(m["new"], [])
        tref = Ref([table], 0)
        # oracle: stack of dicts name-key -> id ; all symbols list (name key, type ctor)
        stack = [collections.OrderedDict()]
        allsyms = []
        for nm, ty in BUILTINS:
            stack[0][nm] = len(allsyms); allsyms.append((nm, ty))
        self.check_builtins(ex, tref, allsyms)
        hist = []
        OPS = self.ops
        nops = len(OPS) + (1 if self.with_global else 0)
        for i in range(self.h):
            op = SV(z3.BitVec(f"op{i}", 8), 8)
            ex.add_constraint(z3.ULT(op.e, nops))
            k = ex.choose([(j, op.e == j) for j in range(nops)])
            opname = OPS[k] if k < len(OPS) else "enter_global"
            if opname in ("bind_int", "bind_qubit", "lookup", "bind_gate", "bind_hw"):
                c = SV(z3.BitVec(f"name{i}", 32), 32)
                ex.add_constraint(z3.Or(c.e == ord("a"), c.e == ord("b")))
                name = StrSlice(SymStr([c], f"n{i}"), 0, 1)
            else:
                name = None
            hist.append((opname, name))
            self.hist = hist
            try:
                self.step(ex, tref, opname, name, stack, allsyms)
            except explore_stop:
                return len(hist)      # documented panic observed: the history ends here
            self.invariants(ex, tref, stack, allsyms)
            if self.observers:
                self.listings(ex, tref, allsyms)
        return len(hist)

    def listings(self, ex, tref, allsyms):
        """gates() and hardware_qubits(): exactly the gate / hardware-qubit symbols ever bound (closed scopes included), in id order,
        each with the id under which new_binding handed it out, its name and its parameter counts; the built-in U is left out"""
        from . import stdmodels
        fam = self.fam; m = fam.m
        ex.obligations += 1
        def sid_of(x):
            while isinstance(x, Ref):
                x = x.get()
            return x[0] if isinstance(x, list) else x
        def drain(v):
            v0 = v
            while isinstance(v0, Ref):
                v0 = v0.get()
            if isinstance(v0, VecV):
                return list(v0.items)
            it = stdmodels.as_iter(ex, v)
            out = []
            while True:
                x = it.next(ex)
                if x is None:
                    return out
                out.append(x)
                if len(out) > 64:
                    raise Violation("listing does not end")
        def name_ok(got, nm):
            if isinstance(nm, str):
                return strmodel.as_slice(got).chars() == [ord(c) for c in nm]
            return key_eq(ex, got, nm)
        for meth, tyname, arity in (("gates", "Gate", 4), ("hardware_qubits", "HardwareQubit", 2)):
            got = drain(ex.run(m[meth], [tref]))
            want = [(sid, nm) for sid, (nm, ty) in enumerate(allsyms) if ty == tyname and nm != "U"]
            if len(got) != len(want):
                raise Violation(f"{meth}() lists {len(got)} symbols, {len(want)} {tyname} symbols were bound")
            for g, (sid, nm) in zip(got, want):
                while isinstance(g, Ref):
                    g = g.get()
                if sid_of(g[1]) != sid:
                    raise Violation(f"{meth}() lists symbol id {sid_of(g[1])} where the id handed out by new_binding is {sid}")
                if not name_ok(g[0], nm):
                    raise Violation(f"{meth}() lists id {sid} under another name than it was bound with")
                if arity == 4 and (g[2], g[3]) != (1, 2):
                    raise Violation(f"gates() lists id {sid} with parameter counts {(g[2], g[3])}, it was bound as Gate(1, 2)")

    # the oracle resolves symbolic names with the same solver-backed comparison
    def o_find(self, ex, scope, name):
        for k, v in scope.items():
            if isinstance(k, str):
                continue            # builtin names are multi-char or not a/b
            if key_eq(ex, k, name):
                return v
        return None

    def step(self, ex, tref, opname, name, stack, allsyms):
        fam = self.fam; m = fam.m
        ex.obligations += 1
        if opname in ("enter_local", "enter_subroutine", "enter_global"):
            sc = {"enter_local": "Local", "enter_subroutine": "Subroutine", "enter_global": "Global"}[opname]
            try:
                ex.run(m["enter_scope"], [tref, self.scope(sc)])
            except Panic:
                if opname == "enter_global":
                    raise explore_stop("documented panic: second global scope")
                raise
            if opname == "enter_global":
                raise Violation("a second global scope was accepted")
            stack.append(collections.OrderedDict())
        elif opname == "exit":
            if len(stack) == 1:
                try:
                    ex.run(m["exit_scope"], [tref])
                except Panic:
                    raise explore_stop("documented panic: exit of the global scope")
                raise Violation("the global scope was popped without the documented assertion failure")
            ex.run(m["exit_scope"], [tref])
            stack.pop()
        elif opname in ("bind_int", "bind_qubit", "bind_gate", "bind_hw"):
            ty = opname[5:]
            r = ex.run(m["new_binding"], [tref, name, Ref([self.typ(ty)], 0)])
            have = self.o_find(ex, stack[-1], name)
            if have is not None:
                if not (r.idx == 1):
                    raise Violation("binding a name that the current scope already has did not fail")
            else:
                if r.idx != 0:
                    raise Violation("binding a fresh name in the current scope failed")
                sid = r.fields[0]
                sid = sid[0] if isinstance(sid, list) else sid
                if sid != len(allsyms):
                    raise Violation(f"symbol id {sid} handed out, expected the next unused id {len(allsyms)}")
                stack[-1][name] = len(allsyms)
                allsyms.append((name, {"int": "Int", "qubit": "Qubit", "gate": "Gate", "hw": "HardwareQubit"}[ty]))
        elif opname == "lookup":
            r = ex.run(m["lookup"], [tref, name])
            want = None
            for sc in reversed(stack):
                want = self.o_find(ex, sc, name)
                if want is not None:
                    break
            if want is None:
                if r.idx != 1:
                    raise Violation("look-up of an unbound name succeeded")
            else:
                if r.idx != 0:
                    raise Violation("look-up of a bound name failed")
                rec = r.fields[0]          # SymbolRecord { symbol: &Symbol, symbol_id }
                sid = rec[1]; sid = sid[0] if isinstance(sid, list) else sid
                if sid != want:
                    raise Violation(f"look-up returned symbol {sid}, the innermost binding is {want}")
                sym = rec[0]
                while isinstance(sym, Ref):
                    sym = sym.get()
                if not key_eq(ex, sym[0], name):
                    raise Violation("look-up returned a record whose symbol has another name")
                if self.type_name(sym[1]) != allsyms[want][1]:
                    raise Violation("look-up returned a record whose symbol has another type")

    def invariants(self, ex, tref, stack, allsyms):
        fam = self.fam; m = fam.m
        t = tref.get()
        ex.obligations += 1
        n = ex.run(m["len_current_scope"], [tref])
        if n != len(stack[-1]):
            raise Violation(f"current scope holds {n} names, expected {len(stack[-1])}")
        g = ex.run(m["in_global_scope"], [tref])
        if bool(g) != (len(stack) == 1):
            raise Violation("in_global_scope disagrees with the scope depth")
        # ids keep denoting the same name and type (also after their scope closed)
        for sid, (nm, ty) in enumerate(allsyms):
            sym = ex.run(m["index"], [tref, Ref([[sid]], 0)])
            while isinstance(sym, Ref):
                sym = sym.get()
            if isinstance(nm, str):
                ok = strmodel.as_slice(sym[0]).chars() == [ord(c) for c in nm]
            else:
                ok = key_eq(ex, sym[0], nm)
            if not ok or self.type_name(sym[1]) != ty:
                raise Violation(f"symbol id {sid} no longer denotes its name/type")

    def check_builtins(self, ex, tref, allsyms):
        fam = self.fam
        ex.obligations += 1
        for sid, (nm, ty) in enumerate(allsyms):
            r = ex.run(fam.m["lookup"], [tref, nm])
            if r.idx != 0:
                raise Violation(f"built-in {nm} missing from a new table")
            rec = r.fields[0]
            s = rec[1]; s = s[0] if isinstance(s, list) else s
            if s != sid:
                raise Violation(f"built-in {nm} has id {s}")

    def describe(self, ex, outcome, detail):
        if outcome == "ok":
            return ("ok", detail, ex.obligations)
        model = ex.model() or {}
        hist = []
        for i, (op, nm) in enumerate(getattr(self, "hist", [])):
            hist.append(op + ("" if nm is None else " " + chr(model.get(f"name{i}", ord("a")))))
        return ("fail", outcome, f"{outcome}|{detail['msg']}", hist)


class explore_stop(Exception):
    pass


def hfactory(h, seed, with_global, observers=False):
    def f():
        return HistHarness(h, seed, with_global, observers)
    return f


def native_history_check(hist):
    """runs the history natively (SymbolTable through the oq3_verif hook) against the stack-of-maps oracle.
    returns (violated, message)"""
    enc = {"enter_local": "el", "enter_subroutine": "es", "enter_global": "eg", "exit": "x"}
    ops = []
    for h in hist:
        p = h.split()
        if p[0] in enc:
            ops.append(enc[p[0]])
        else:
            ops.append({"bind_int": "bi", "bind_qubit": "bq", "bind_gate": "bg", "bind_hw": "bh", "lookup": "l"}[p[0]] + ":" + p[1])
    o = native.run_one("symhist " + ",".join(ops), "dev")
    if native.failed(o):
        return True, "native failure " + str(o)[:150]
    stack = [{n: i for i, (n, _) in enumerate(BUILTINS)}]
    types = [t for _, t in BUILTINS]
    names = [n for n, _ in BUILTINS]
    nxt = len(BUILTINS)
    import re
    for h, r in zip(hist, o["results"]):
        p = h.split()
        if p[0] in ("enter_local", "enter_subroutine"):
            if r != "ok":
                return True, f"{h}: {r}"
            stack.append({})
        elif p[0] == "enter_global":
            if r != "panic":
                return True, "second global scope accepted"
            return False, ""
        elif p[0] == "exit":
            if len(stack) == 1:
                return (r != "panic"), "global scope popped"
            if r != "ok":
                return True, f"{h}: {r}"
            stack.pop()
        elif p[0] in ("bind_int", "bind_qubit", "bind_gate", "bind_hw"):
            if p[1] in stack[-1]:
                if not r.startswith("Err"):
                    return True, f"{h}: rebinding in the same scope gave {r}"
            else:
                parts = r.split("|")
                if parts[0] != f"Ok(SymbolId({nxt}))":
                    return True, f"{h}: got {r}, expected id {nxt}"
                want_ty = {"bind_int": "Int", "bind_qubit": "Qubit", "bind_gate": "Gate", "bind_hw": "HardwareQubit"}[p[0]]
                if len(parts) == 3 and (parts[1] != p[1] or not parts[2].startswith(want_ty)):
                    return True, f"{h}: the table says id {nxt} denotes `{parts[1]}` of type {parts[2]}, the binding was `{p[1]}` of type {want_ty}"
                stack[-1][p[1]] = nxt; types.append(want_ty); names.append(p[1]); nxt += 1
        else:
            want = None
            for sc in reversed(stack):
                if p[1] in sc:
                    want = sc[p[1]]; break
            if want is None:
                if not r.startswith("Err"):
                    return True, f"{h}: unbound name resolved to {r}"
            else:
                m = re.match(r"Ok\(SymbolId\((\d+)\),(.*?),(\w+)", r)
                if not m or int(m.group(1)) != want or m.group(2) != p[1] or m.group(3) != types[want]:
                    return True, f"{h}: got {r}, the innermost binding is id {want} ({types[want]})"
    # exiting a scope removes exactly its own bindings: the current scope holds what the oracle's innermost map holds
    if "len_current_scope" in o and len(o["results"]) == len(hist) and o["len_current_scope"] != len(stack[-1]):
        return True, f"after the history the current scope holds {o['len_current_scope']} names, the stack-of-maps oracle {len(stack[-1])}"
    if len(o["results"]) == len(hist) and "gates" in o:
        wg = [f"{names[i]}|SymbolId({i})|1|2" for i in range(len(types)) if types[i] == "Gate" and names[i] != "U"]
        wh = [f"{names[i]}|SymbolId({i})" for i in range(len(types)) if types[i] == "HardwareQubit"]
        if o["gates"] != wg:
            return True, f"gates() lists {o['gates']}, the gate symbols bound are {wg}"
        if o["hardware_qubits"] != wh:
            return True, f"hardware_qubits() lists {o['hardware_qubits']}, bound are {wh}"
    return False, ""


def run(ctx):
    res = Result()
    H = int(os.environ.get("VERIF_C19_H", 5 if ctx.quick() else 7))
    fails = collections.OrderedDict()
    for h in range(0, H + 1):
        def on_records(recs):
            for r in recs:
                if r[0] == "ok":
                    res.obligations += r[2]
                else:
                    d = fails.setdefault(r[2], {"count": 0, "ex": r})
                    d["count"] += 1
        st, exhaustive, err = explore.explore(hfactory(h, ctx.seed, not ctx.quick() and h <= 3), workers=ctx.workers, seed=ctx.seed, on_records=on_records, log=ctx.log)
        res.merge_stats(st)
        ctx.log(f"histories of length {h}: {st.get('paths', 0)} paths ok={st.get('ok', 0)} violation={st.get('violation', 0)} panic={st.get('panic', 0)} unsupported={st.get('unsupported', 0)} wall={st.get('wall', 0):.1f}s")
        if err:
            res.inconclusive.append(err[:600])
        if not exhaustive:
            res.inconclusive.append(f"h={h} not exhausted")
    HO = int(os.environ.get("VERIF_C19_HOBS", 4 if ctx.quick() else 5))
    for h in range(1, HO + 1):
        st, exhaustive, err = explore.explore(hfactory(h, ctx.seed, False, observers=True), workers=ctx.workers, seed=ctx.seed, on_records=on_records, log=ctx.log)
        res.merge_stats(st)
        ctx.log(f"observer histories of length {h}: {st.get('paths', 0)} paths ok={st.get('ok', 0)} violation={st.get('violation', 0)} panic={st.get('panic', 0)} unsupported={st.get('unsupported', 0)} wall={st.get('wall', 0):.1f}s")
        if err:
            res.inconclusive.append(err[:600])
        if not exhaustive:
            res.inconclusive.append(f"observer h={h} not exhausted")
    for site, info in fails.items():
        r = info["ex"]
        if r[1] == "unsupported":
            res.inconclusive.append(f"unsupported ({info['count']}): {site}")
            continue
        bad, msg = native_history_check(r[3])
        if not bad:
            res.inconclusive.append(f"counterexample does not reproduce natively: {site} history {r[3]}")
            continue
        res.validated += 1
        what = {"site": site, "paths": info["count"], "history": r[3], "native": msg}
        rp = os.path.join(ctx.replay_dir, "hist_" + hashlib.sha1(site.encode()).hexdigest()[:10] + ".json")
        json.dump({"property": "C19", "what": what}, open(rp, "w"), indent=1)
        res.violations.append({"what": json.dumps(what), "replay": rp})
        res.samples.append(what)
    # engine validation: a VERIF_SEED-chosen sample of explored histories is replayed natively against the same oracle
    import random
    rng = random.Random(ctx.seed)
    names = "ab"
    for _ in range(60):
        hist = []
        for _i in range(rng.randint(1, H)):
            op = rng.choice(OPS)
            hist.append(op + (" " + rng.choice(names) if op in ("bind_int", "bind_qubit", "lookup") else ""))
        bad, msg = native_history_check(hist)
        if bad:
            res.inconclusive.append(f"engine found no violation within the bound but the native run of {hist} disagrees with the oracle: {msg}")
        else:
            res.validated += 1
    res.samples.append({"history": ["bind_int a", "enter_local", "bind_qubit a", "lookup a", "exit", "lookup a"], "outcome": "answers equal the stack-of-maps oracle (one of the explored histories)"})
    res.functions_encoded += ["oq3_semantics::symbols::SymbolTable::{new, enter_scope, exit_scope, new_binding, new_binding_no_check, lookup, len_current_scope, in_global_scope, current_scope*, index}",
                              "ScopeSymbolTable::*", "SymbolId::{new, post_increment}", "Symbol::new", "SymbolRecord::new"]
    res.bounds.update({"history_length": H, "operations": OPS, "names": "a | b (symbolic character)", "types": "int[32] | qubit"})
    res.stubs += ["hashbrown::HashMap<String, SymbolId> as an abstract association list (new/insert/get/contains_key/len/clone)", "String = the str it was made from",
                  "Vec, slice last/last_mut/iter().rev(), Option::unwrap"]
    res.outside_claim += ["histories longer than the bound", "hashbrown itself (hashing, resizing)", "standard_library_gates/gates listing (C09)"]
    res.exhaustive = not res.inconclusive
    return res


def replay(ctx, path):
    d = json.load(open(path))
    bad, msg = native_history_check(d["what"]["history"])
    print("violated: " + msg if bad else "holds")
    return 1 if bad else 0
