"""C17 - analysis is invariant under layout and renaming, one-pass and deterministic (stage 2, DESIGN 6/C17).

(a) layout: between the tokens of a base program every gap holds 1-2 trivia tokens whose KIND (whitespace / line comment /
    block comment) and CHARACTERS are solver variables.  The real to_input / parser / intersperse_trivia and ALL of
    syntax_to_semantic run from MIR on that symbolic layout; on every path the graph, the symbol table and the diagnostic
    kinds must equal those of the canonical layout and must not depend on a trivia variable.
(b) renaming: every user identifier is a symbolic character, constrained to be injective w.r.t. the base program's names
    and different from the built-in names; the result must equal the base result with ids unchanged and each symbol named
    by its variable - for every such renaming at once.
(c) one pass: for P and P + S (S one more statement with symbolic identifier roles) the statements, symbols and
    diagnostics of P are a prefix of those of P + S.
(d) determinism: no function reachable from syntax_to_semantic iterates a hash map or reads a clock / randomness /
    environment (scan of the MIR call graph); the engine's map model refuses iteration.
"""
import hashlib, json, os, collections, re, itertools
import z3
from . import explore, semh
from .interp import SV, SB, Panic, Unsupported, Violation
from .main import Result
from .asgview import N

BASE = [
    ("decl-assign", "int a ; a = 1 ; float b = 2.5 ; b = a ;"),
    ("gate", "qubit q ; gate g x { } g q ; reset q ;"),
    ("dup", "int a ; int a ; a = 2 ;"),
    ("undeclared", "int a ; b = 1 ; a = b ;"),
    ("const-width", "const int n = 3 ; int [ n ] x ; if ( n =~ = 3 ) { int y = n ; } y = 2 ;"),
    ("measure", "qubit [ 2 ] r ; bit [ 2 ] c ; c = measure r ;"),
    ("def", "def f ( int z ) -~ > int { return z ; } int a = f ( 1 ) ;"),
    ("arity", "gate k ( t ) x , y { U ( t , 0 , 0 ) x ; } qubit q ; qubit p ; k ( 1.0 ) q , p ; k q ;"),
    ("loops", "for int i in [ 0 : 3 ] { int a = i ; } while ( true ) { break ; }"),
    ("switch", "int a ; switch ( a ) { case 1 { a = 2 ; } default { a = 3 ; } }"),
    ("ifelse", "int a ; if ( a =~ = 1 ) a = 2 ; else a = 3 ; a = 4 ;"),
    ("stdgates", 'include "stdgates.inc" ; qubit q ; qubit w ; h q ; cx q , w ; rx ( 1.5 ) q ; int a = 1 ;'),
    ("timing", "qubit q ; duration d = 10 ns ; delay [ d ] q ; delay [ 1 ] q ;"),
    ("annotation", "int a ; @note~ x y\n a = 1 ; pragma~ keep this\n a = 2 ;"),
    ("bits", 'bit [ 4 ] c = "0110" ; bit b = c [ 0 ] ;'),
    ("modifiers", "qubit q ; qubit p ; ctrl @ U ( 1 , 2 , 3 ) q , p ; inv @ pow ( 2 ) @ U ( 0 , 0 , 0 ) q ;"),
    ("io-and-cast", "input int a ; output bit b ; float c = float ( a ) ; b = measure $0 ;"),
    ("nested-scopes", "int a = 1 ; while ( a =~ = 1 ) { int b = a ; if ( b =~ = 2 ) { int a = b ; b = a ; } a = b ; }"),
    ("version-first", "OPENQASM~ 3.0 ; int a ; a = 1 ;"),
    ("trailing-annotation", "qubit q ; int a ; @keep~ this\n"),
    ("trailing-pragma", "int a ; pragma~ last line\n"),
    ("scope-fault", "if ( true ) { qubit q ; gate g x { } } return ;"),
]
NAMES_RE = re.compile(r"^[a-zA-Z]$")


def words_of(text):
    """(word, joint) list; `@note~ x y\\n` style words keep their spaces: annotation / pragma lines are one token"""
    out = []
    i = 0
    parts = re.split(r"(\n)", text)
    toks = []
    for seg in re.findall(r"(?:@\w+~|pragma~)[^\n]*\n|\S+", text):
        toks.append(seg)
    for t in toks:
        if t.startswith("@") and "~" in t:
            out.append((t.replace("~", "").rstrip("\n"), False, "ANNOTATION"))
        elif t.startswith("pragma~"):
            out.append((t.replace("~", "").rstrip("\n"), False, "PRAGMA"))
        else:
            j = t.endswith("~") and len(t) > 1
            out.append((t[:-1] if j else t, j, None))
    return out


class H(semh.Base):
    def label(self):
        return f"{self.task[0]}:{self.task[1]}" + (":" + str(self.task[3]) if len(self.task) > 3 and self.task[3] is not None else "")

    def site(self, outcome, detail):
        return semh.Base.site(self, outcome, detail)[:220] + " @" + self.task[0] + ":" + self.task[1]

    # the run is overridden: this check drives several analyses per path
    def run(self, ex):
        fam = self.fam; kit = fam.kit
        mode, bname, text = self.task[0], self.task[1], self.task[2]
        self.symvars = {}
        ws = words_of(text)
        base = self.analyse(ex, ws, None, None)

        def variant(*args):
            # the base program analyses normally: a panic on the variant is a difference between the two runs
            try:
                return self.analyse(ex, *args)
            except Panic as e:
                self.variant_panic = True
                raise Panic(f"the base program is analysed normally, the {mode} variant panics: {str(e)[:120]}")
        if mode == "layout":
            var = variant(ws, "layout", self.task[3])
            self.same_result(ex, base, var, "the layout", rename=None)
        elif mode == "rename":
            var = variant(ws, "rename", None)
            self.same_result(ex, base, var, "the renaming", rename=self.rename)
        elif mode == "prefix":
            ext = words_of(text + " " + self.task[3])
            try:
                var = self.analyse(ex, ext, "suffix-names", len(ws))
            except Panic:
                return "suffix-panics"        # an appended statement the analyser cannot handle (C03's subject); nothing to compare
            self.prefix_result(ex, base, var)
        ex.obligations += 1
        return mode

    def analyse(self, ex, ws, mode, arg):
        fam = self.fam; kit = fam.kit; K = kit.K
        src = kit.source()
        self.rename = {}
        toks_render = []
        nsym = [0]

        def trivia(gap, after_line_token):
            """1 or 2 trivia tokens with symbolic kind and characters"""
            n = arg
            first = True
            for j in range(n):
                kv = SV(z3.BitVec(f"tk{gap}_{j}", 16), 16)
                opts = [K["WHITESPACE"], K["COMMENT"]] + ([K["BLOCK_COMMENT"]] if "BLOCK_COMMENT" in K else [])
                if after_line_token and first:
                    opts = [K["WHITESPACE"]]          # an annotation / pragma / line comment ends at a newline, which is whitespace
                ex.add_constraint(z3.Or([kv.e == o for o in opts]))
                c1 = SV(z3.BitVec(f"tc{gap}_{j}", 32), 32)
                # whitespace: blank, tab, newline; comments: any printable ASCII (their delimiters are part of the token and do not matter to the parser)
                ex.add_constraint(z3.If(kv.e == K["WHITESPACE"], z3.Or(c1.e == 32, c1.e == 9, c1.e == 10), z3.And(z3.UGE(c1.e, 32), z3.ULE(c1.e, 126))))
                if after_line_token and first:
                    ex.add_constraint(c1.e == 10)
                self.symvars[f"tk{gap}_{j}"] = kv; self.symvars[f"tc{gap}_{j}"] = c1
                src.items.append((kv, [c1], True))
                toks_render.append(("trivia", kv, c1))
                first = False
        prev_line = False
        for i, (w, joint, kind) in enumerate(ws):
            if i > 0 and not ws[i - 1][1]:
                if mode == "layout":
                    trivia(i, prev_line)
                else:
                    src.items.append((K["WHITESPACE"], [10 if prev_line else 32], True))
                    toks_render.append(("text", "\n" if prev_line else " "))
            kn = kind or semh.word_kind(fam, w)
            chars = [ord(c) for c in w]
            std1 = "hxyzstp" if any(x[0] == '"stdgates.inc"' for x in ws) else ""
            if kn == "IDENT" and NAMES_RE.match(w) and w != "U" and w not in std1 and (mode == "rename" or (mode == "suffix-names" and i >= arg and w in "xyz")):
                if w not in self.rename:
                    c = SV(z3.BitVec(f"nm_{w}", 32), 32)
                    ex.add_constraint(z3.Or(z3.And(z3.UGE(c.e, 97), z3.ULE(c.e, 122)), z3.And(z3.UGE(c.e, 65), z3.ULE(c.e, 90))))
                    ex.add_constraint(c.e != ord("U"))
                    for ch in std1:
                        ex.add_constraint(c.e != ord(ch))
                    for o in self.rename.values():
                        ex.add_constraint(c.e != o.e)
                    if mode == "suffix-names":
                        pass
                    self.rename[w] = c; self.symvars[f"nm_{w}"] = c
                chars = [self.rename[w]]
            src.items.append((K[kn], chars, True))
            toks_render.append(("tok", chars))
            prev_line = kn in ("ANNOTATION", "PRAGMA")
        if mode in (None,):
            self.base_render = toks_render
        else:
            self.var_render = toks_render
        root = src.build(ex)
        errors = list(src.errors) or kit.validate(ex, root)
        if errors:
            raise Unsupported("the base program does not parse cleanly" if mode is None else "the variant does not parse cleanly")
        ctx, errs = kit.analyze(ex, root)
        return semh.Res(fam, ctx, errs)

    def render(self, model):
        out = []
        for it in getattr(self, "var_render", getattr(self, "base_render", [])):
            if it[0] == "text":
                out.append(it[1])
            elif it[0] == "tok":
                out.append("".join(chr(c) if isinstance(c, int) else chr(model.get(c.e.decl().name(), ord("a"))) for c in it[1]))
            else:
                K = self.fam.kit.K
                kv = model.get(it[1].e.decl().name(), K["WHITESPACE"]); ch = chr(model.get(it[2].e.decl().name(), 32))
                if kv == K["WHITESPACE"]:
                    out.append(ch)
                elif kv == K["COMMENT"]:
                    out.append("//" + (ch if ch != "\n" else " ") + "\n")
                else:
                    out.append("/*" + (ch if ch not in "*/" else " ") + "*/")
        return "".join(out)

    # ---- comparisons
    def same(self, ex, a, b, where, rename):
        if isinstance(a, N) and isinstance(b, N):
            if (a.t, a.v) != (b.t, b.v) or set(a.f) != set(b.f):
                raise Violation(f"`{self.label()}`: {where}: {a.v or a.t} became {b.v or b.t} under {self.what}")
            for k in a.f:
                self.same(ex, a.f[k], b.f[k], f"{where}.{k}", rename)
            return
        if isinstance(a, (list, tuple)) and isinstance(b, (list, tuple)):
            if len(a) != len(b):
                if rename is not None and all(isinstance(x, (int, SV)) for x in list(a) + list(b)):
                    pass
                raise Violation(f"`{self.label()}`: {where}: {len(a)} elements became {len(b)} under {self.what}")
            for i, (x, y) in enumerate(zip(a, b)):
                self.same(ex, x, y, f"{where}[{i}]", rename)
            return
        if isinstance(b, SV) or isinstance(a, SV):
            ae = a.e if isinstance(a, SV) else z3.BitVecVal(int(a), b.w)
            be = b.e if isinstance(b, SV) else z3.BitVecVal(int(b), a.w)
            if rename is not None and isinstance(a, int) and chr(a) in rename:
                ex.prove(be == rename[chr(a)].e, f"`{self.label()}`: {where}: the renamed symbol is not named by its new identifier")
            else:
                ex.prove(ae == be, f"`{self.label()}`: {where}: a value of the result depends on {self.what}")
            return
        if isinstance(a, str) and isinstance(b, list):
            # a name: one character
            if len(a) == len(b) == 1 and rename is not None and a in rename:
                be = b[0].e if isinstance(b[0], SV) else z3.BitVecVal(b[0], 32)
                ex.prove(be == rename[a].e, f"`{self.label()}`: {where}: the renamed symbol `{a}` is not named by its new identifier")
                return
            raise Violation(f"`{self.label()}`: {where}: text {a!r} became symbolic under {self.what}")
        if isinstance(a, float) or isinstance(b, float) or type(a).__name__ == "Opaque" or type(b).__name__ == "Opaque":
            return
        if hasattr(a, "__dict__") and not isinstance(a, (str, int)) and type(a) is type(b):
            return            # abstract values (maps, paths, nodes) are compared through the decoded parts
        if a != b:
            raise Violation(f"`{self.label()}`: {where}: {a!r} became {b!r} under {self.what}")

    def same_result(self, ex, base, var, what, rename):
        self.what = what
        self.same(ex, base.stmts, var.stmts, "program", rename)
        self.same(ex, base.symbols, var.symbols, "symbols", rename)
        if base.kinds() != var.kinds():
            raise Violation(f"`{self.label()}`: diagnostics {base.kinds()} became {var.kinds()} under {what}")
        if rename is not None:
            for (k1, n1), (k2, n2) in zip(self.err_payload(base), self.err_payload(var)):
                if n1 is not None:
                    self.same(ex, n1, n2, "diagnostic payload", rename)

    def err_payload(self, R):
        out = []
        for e in R.errlist["list"]:
            k = e["error_kind"]
            out.append((k.v, k.f.get(0)))
        return out

    def prefix_result(self, ex, base, var):
        self.what = "the appended statement"
        n = len(base.stmts)
        if len(var.stmts) < n:
            raise Violation(f"`{self.label()}`: appending a statement shrank the graph from {n} to {len(var.stmts)} statements")
        self.same(ex, base.stmts, var.stmts[:n], "program", None)
        m = len(base.symbols)
        if len(var.symbols) < m:
            raise Violation(f"`{self.label()}`: appending a statement removed symbols")
        self.same(ex, base.symbols, var.symbols[:m], "symbols", None)
        bk = base.kinds(); vk = var.kinds()
        if vk[:len(bk)] != bk:
            raise Violation(f"`{self.label()}`: diagnostics {bk} are not a prefix of {vk} after appending a statement")


SUFFIXES = ["x = 1 ;", "int x ;", "qubit x ;", "x y ;", "gate x y { }", "if ( true ) { int x ; }", "x ( 1 ) y ;", "reset x ;", "int x = y ;", "break ;", "return ;", "@z~ w\n int x ;"]


def determinism_scan(kit):
    """calls, in functions reachable from syntax_to_semantic (MIR call graph over the repository's crates), that iterate a
    hash map or read ambient state"""
    prog = kit.prog
    bad_re = re.compile(r"Hash(Map|Set)(<.*>)?>?::(<.*>::)?(iter|iter_mut|keys|values|values_mut|drain|into_iter|into_keys|into_values|retain|difference|union|intersection|symmetric_difference)\b|<&?(mut )?(std::collections::|hashbrown::)?Hash(Map|Set)<.*> as IntoIterator>|RandomState::new|SystemTime::|Instant::now|std::env::|thread_rng|getrandom|std::process::id|Atomic[A-Z]\w*::|thread_local")
    call_re = re.compile(r"^(?:[^=]*= )?(.*?)\((?:.*)\) -> (?:\[return|unwind|bb)")
    seen = set(); todo = [kit.f_sts]; hits = []
    while todo:
        f = todo.pop()
        if f.rawname in seen:
            continue
        seen.add(f.rawname)
        for blk in f.blocks.values():
            for st in blk:
                if not isinstance(st, str):
                    continue
                m = call_re.match(st)
                if not m:
                    # closures and fn items passed as values
                    for cm in re.finditer(r"\{closure@[^}]*\}", st):
                        pass
                    continue
                c = m.group(1).strip()
                if c.startswith("move ") or c.startswith("copy "):
                    continue
                if bad_re.search(c):
                    hits.append((f.rawname, c))
                try:
                    g = prog.resolve(c, getattr(f, "crate", None))
                except Exception:
                    g = None
                if g is not None and hasattr(g, "rawname"):
                    todo.append(g)
        # closures defined in f are separate MIR functions named f::{closure#n}
        for raw, g in prog.funcs.items():
            if raw.startswith(f.rawname + "::{closure") and raw not in seen:
                todo.append(g)
    return len(seen), hits


def lexical_arm(ctx, res):
    """The relational runs above start from token tables (kind IDENT for every user name, trivia kinds for layout).  The lexical half of
    the same invariances is decided here with the real lexer (LexedStr::new from MIR): every spelling of the identifier lexeme of the
    reference grammar (symbolic code points, <= 3 characters, not a keyword) is exactly one IDENT token with no diagnostic - so the token
    table does not depend on which names a program uses - and an identifier next to another identifier / a literal / punctuation with
    every permitted separator keeps its token.  Same harness and native confirmation as C15."""
    from . import h_c15
    L = h_c15.lexeme_spec()
    classes = L.lexeme_classes()
    tasks = [("single", "identifier", i) for i in range(len(classes["identifier"][1]))]
    for b in (h_c15.NEIGHBOURS_QUICK if ctx.quick() else list(classes)):
        for sep in h_c15.separators(L, "identifier", b):
            for ia in range(len(classes["identifier"][1])):
                tasks.append(("pair", "identifier", ia, b, 0, sep))
    fails = {}

    def on_result(idx, task, recs, left, stats, err):
        if err:
            res.inconclusive.append(err[:400])
        if left:
            res.inconclusive.append(f"{task} not exhausted")
        for r in recs:
            if r[0] in ("ok", "sample"):
                res.obligations += r[1]
            else:
                d = fails.setdefault(r[2], {"count": 0, "examples": [], "outcome": r[1]})
                d["count"] += 1
                if len(d["examples"]) < 3:
                    d["examples"].append((r[3], r[4]))
    st, errs = explore.explore_many(h_c15.famfactory(ctx.seed), tasks, workers=ctx.workers, on_result=on_result, log=ctx.log)
    res.merge_stats(st)
    ctx.log(f"lexical arm: {st.get('paths', 0)} paths over {len(tasks)} identifier arrangements: ok={st.get('ok', 0)} violation={st.get('violation', 0)} panic={st.get('panic', 0)} unsupported={st.get('unsupported', 0)}")
    kit = h_c15.LexerKit(("oq3_lexer", "oq3_parser"))
    for site, info in sorted(fails.items()):
        if info["outcome"] == "unsupported":
            res.inconclusive.append(f"unsupported ({info['count']} paths): {site}")
            continue
        text, task = info["examples"][0]
        if not h_c15.confirm_concrete(kit, task, text):
            res.inconclusive.append(f"lexical counterexample does not reproduce natively: {site} e.g. {text!r}")
            continue
        res.validated += 1
        kf = next((k for k in ctx.known if re.search(k["site"], "lexical|" + site)), None)
        if kf is not None:
            if not any(h.startswith(kf["id"] + ":") for h in res.known_hits):
                res.known_hits.append(f"{kf['id']}: {kf.get('what', '')} (e.g. {text!r})")
            continue
        what = {"site": "lexical|" + site, "paths": info["count"], "text": text, "arrangement": task,
                "meaning": "a program that uses this identifier spelling gets another token table than the same program with another name"}
        rp = os.path.join(ctx.replay_dir, "lex_" + hashlib.sha1(site.encode()).hexdigest()[:10] + ".json")
        json.dump({"property": "C17", "kind": "lexical", "text": text, "task": task, "what": what}, open(rp, "w"), indent=1)
        res.violations.append({"what": json.dumps(what, ensure_ascii=False), "replay": rp})
    res.functions_encoded += ["oq3_parser::LexedStr::new + oq3_lexer (identifier spellings, lexical arm)"]
    res.bounds["lexical_arm"] = f"{len(tasks)} arrangements: identifier lexeme <= 3 symbolic code points alone and next to {'representative' if ctx.quick() else 'all'} lexeme classes with every permitted separator"


def run(ctx):
    res = Result()
    tasks = []
    for name, text in BASE:
        for n in ((1, 2) if ctx.quick() else (1, 2, 3)):
            tasks.append(("layout", name, text, n))
        tasks.append(("rename", name, text, None))
        for sfx in (SUFFIXES[:6] if ctx.quick() else SUFFIXES):
            if name in ("scope-fault",) and sfx == "return ;":
                continue
            tasks.append(("prefix", name, text, sfx))
    if os.environ.get("VERIF_C17_ONLY"):
        tasks = [t for t in tasks if os.environ["VERIF_C17_ONLY"] in f"{t[0]}:{t[1]}"]
    ctx.log(f"{len(tasks)} relational runs over {len(BASE)} base programs")
    fails, counts, on_result = semh.collector(res, label_of=lambda t: f"{t[0]}:{t[1]}:{t[3]}")
    st, errs = explore.explore_many(semh.famfactory(ctx.known, ctx.seed, H), tasks, workers=ctx.workers, max_paths=3000, on_result=on_result, log=ctx.log)
    res.merge_stats(st)
    ctx.log(f"{st.get('paths', 0)} paths: {dict(counts)} panic={st.get('panic', 0)} violation={st.get('violation', 0)} unsupported={st.get('unsupported', 0)} wall={st.get('wall', 0):.1f}s")
    semh.triage(ctx, res, "C17", fails, panic_is="violation")      # base programs never panic: a panic is a variant-only panic, confirmed by the native run of the variant text
    lexical_arm(ctx, res)
    # (d)
    from .sem_kit import SemKit
    kit = SemKit()
    nfun, hits = determinism_scan(kit)
    ctx.log(f"determinism scan: {nfun} functions reachable from syntax_to_semantic, {len(hits)} ambient-state / map-iteration calls")
    res.extra["determinism_scan"] = {"functions": nfun, "hits": hits[:10]}
    if nfun < 50:
        res.inconclusive.append(f"determinism scan reached only {nfun} functions")
    for fn, callee in hits:
        rp = os.path.join(ctx.replay_dir, "scan.json")
        json.dump({"property": "C17", "what": {"function": fn, "call": callee}}, open(rp, "w"))
        res.violations.append({"what": f"{fn} calls {callee}: the result can depend on hash-map order / ambient state", "replay": rp})
    res.samples.append({"template": "layout:annotation", "outcome": "graph, symbols and diagnostics equal the canonical layout's for every trivia kind / character in every gap"})
    res.functions_encoded += ["oq3_parser::{LexedStr::to_input, parser::*, LexedStr::intersperse_trivia}", "oq3_syntax::ast accessors reached (token_ext, node_ext: text_of_first_token, annotation / pragma text)", "oq3_semantics::syntax_to_semantics::* , context::*, symbols::*"]
    res.bounds.update({"base_programs": len(BASE), "trivia_per_gap": "1-2 (quick) / 1-3 tokens, kind and one ASCII character symbolic", "renaming": "one-character ASCII letter names, injective, not U", "suffixes": len(SUFFIXES)})
    res.stubs += ["rowan tree model", "hashbrown map model (iteration refused)", "string models"]
    res.assumptions += ["the lexer maps each layout to the token table used here (C14 / C15 cover the lexer side)"]
    res.outside_claim += ["multi-character identifiers, non-ASCII trivia", "split points inside nested blocks"]
    res.exhaustive = not res.inconclusive
    return res


def replay(ctx, path):
    d = json.load(open(path))
    if d.get("kind") == "lexical":
        from . import h_c15
        return h_c15.replay(ctx, path)
    return semh.replay(ctx, path)
