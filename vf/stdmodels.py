"""Generic models of std combinators: Option / Result / Iterator adapters / Vec / slices.

Dispatch is by METHOD NAME (the type parameters printed in the MIR are ignored), so that code refactored into
iterator/Option chains stays inside the engine's reach.  Every model has the documented contract of the std function,
including its panics.  Closures are called through the interpreter (they are the repository's own MIR).
"""
import re
import z3
from .interp import (SV, SB, EnumV, VecV, Ref, ClosureV, FnItem, PyFn, Opaque, UNIT, Panic, Unsupported, shallow_copy)


def deref(x):
    while isinstance(x, Ref):
        x = x.get()
    return x


def opt(x):
    return EnumV("Option", 0, []) if x is None else EnumV("Option", 1, [x])


NONE = lambda: EnumV("Option", 0, [])


class SliceV:
    """a sub-slice view &[T] of a list"""
    ref_like = True

    def __init__(self, base, lo, hi):
        self.base = base; self.lo = lo; self.hi = hi

    @property
    def items(self):
        return _View(self.base, self.lo, self.hi)

    def __deepcopy__(self, memo):
        return self


class _View:
    """list-like window used by models that index `.items`"""
    def __init__(self, base, lo, hi):
        self.base = base; self.lo = lo; self.hi = hi

    def __len__(self):
        return self.hi - self.lo

    def __getitem__(self, i):
        if isinstance(i, slice):
            return [self.base[self.lo + k] for k in range(*i.indices(len(self)))]
        if i < 0:
            i += len(self)
        if not 0 <= i < len(self):
            raise IndexError
        return self.base[self.lo + i]

    def __setitem__(self, i, v):
        self.base[self.lo + i] = v

    def __iter__(self):
        for k in range(self.lo, self.hi):
            yield self.base[k]


def seq(v):
    """(base list, lo, hi) of a Vec / array / slice value"""
    v = deref(v)
    if isinstance(v, VecV):
        return v.items, 0, len(v.items)
    if isinstance(v, SliceV):
        return v.base, v.lo, v.hi
    if isinstance(v, _View):
        return v.base, v.lo, v.hi
    raise Unsupported("not a sequence: " + repr(v)[:60])


# ------------------------------------------------------------------------------------------------ iterator protocol
class It:
    def next(self, ex):
        raise NotImplementedError


class SeqIt(It):
    """by-reference iteration over a sequence (slice::Iter / IterMut), double ended"""
    def __init__(self, base, lo, hi, by_value=False):
        self.base = base; self.lo = lo; self.hi = hi; self.by_value = by_value

    def _get(self, k):
        return self.base[k] if self.by_value else Ref(self.base, k)

    def next(self, ex):
        if self.lo < self.hi:
            r = self._get(self.lo); self.lo += 1
            return r
        return None

    def next_back(self, ex):
        if self.lo < self.hi:
            self.hi -= 1
            return self._get(self.hi)
        return None


class RevIt(It):
    def __init__(self, inner):
        self.inner = inner

    def next(self, ex):
        return self.inner.next_back(ex)

    def next_back(self, ex):
        return self.inner.next(ex)


class MapIt(It):
    def __init__(self, inner, f):
        self.inner = inner; self.f = f

    def next(self, ex):
        x = self.inner.next(ex)
        return None if x is None else ex.call_closure(self.f, [x])

    def next_back(self, ex):
        x = self.inner.next_back(ex)
        return None if x is None else ex.call_closure(self.f, [x])


class FilterIt(It):
    def __init__(self, inner, f):
        self.inner = inner; self.f = f

    def next(self, ex):
        while True:
            x = self.inner.next(ex)
            if x is None:
                return None
            if ex.branch_bool(ex.call_closure(self.f, [Ref([x], 0)])):
                return x


class FilterMapIt(It):
    def __init__(self, inner, f):
        self.inner = inner; self.f = f

    def next(self, ex):
        while True:
            x = self.inner.next(ex)
            if x is None:
                return None
            r = ex.call_closure(self.f, [x])
            if r.idx == 1:
                return r.fields[0]


class EnumerateIt(It):
    def __init__(self, inner):
        self.inner = inner; self.i = 0

    def next(self, ex):
        x = self.inner.next(ex)
        if x is None:
            return None
        r = [self.i, x]; self.i += 1
        return r


class ChainIt(It):
    def __init__(self, a, b):
        self.a = a; self.b = b

    def next(self, ex):
        if self.a is not None:
            x = self.a.next(ex)
            if x is not None:
                return x
            self.a = None
        return self.b.next(ex)


class ZipIt(It):
    def __init__(self, a, b):
        self.a = a; self.b = b

    def next(self, ex):
        x = self.a.next(ex)
        if x is None:
            return None
        y = self.b.next(ex)
        if y is None:
            return None
        return [x, y]


class SkipIt(It):
    def __init__(self, inner, n):
        self.inner = inner; self.n = n

    def next(self, ex):
        while self.n > 0:
            self.n -= 1
            if self.inner.next(ex) is None:
                return None
        return self.inner.next(ex)


class TakeIt(It):
    def __init__(self, inner, n):
        self.inner = inner; self.n = n

    def next(self, ex):
        if self.n <= 0:
            return None
        self.n -= 1
        return self.inner.next(ex)


class TakeWhileIt(It):
    def __init__(self, inner, f):
        self.inner = inner; self.f = f; self.done = False

    def next(self, ex):
        if self.done:
            return None
        x = self.inner.next(ex)
        if x is None:
            return None
        if ex.branch_bool(ex.call_closure(self.f, [Ref([x], 0)])):
            return x
        self.done = True
        return None


class FlatMapIt(It):
    def __init__(self, inner, f):
        self.inner = inner; self.f = f; self.cur = None

    def next(self, ex):
        while True:
            if self.cur is not None:
                x = self.cur.next(ex)
                if x is not None:
                    return x
                self.cur = None
            y = self.inner.next(ex)
            if y is None:
                return None
            r = ex.call_closure(self.f, [y]) if self.f is not None else y
            self.cur = as_iter(ex, r, by_value=True)


class PeekIt(It):
    def __init__(self, inner):
        self.inner = inner; self.buf = []

    def next(self, ex):
        if self.buf:
            return self.buf.pop(0)
        return self.inner.next(ex)

    def peek(self, ex):
        if not self.buf:
            x = self.inner.next(ex)
            if x is None:
                return None
            self.buf.append(x)
        return Ref(self.buf, 0)


class RangeIt(It):
    def __init__(self, lo, hi):
        self.lo = lo; self.hi = hi

    def next(self, ex):
        if self.lo < self.hi:
            v = self.lo; self.lo += 1
            return v
        return None

    def next_back(self, ex):
        if self.lo < self.hi:
            self.hi -= 1
            return self.hi
        return None


class RepoIt(It):
    """an iterator type defined in the repository: `next` is its own (interpreted) code"""
    def __init__(self, ty, ref):
        self.ty = ty; self.ref = ref

    def next(self, ex):
        r = ex.call("<%s as Iterator>::next" % self.ty, [self.ref])
        return r.fields[0] if r.idx == 1 else None


class OnceIt(It):
    def __init__(self, x):
        self.x = x

    def next(self, ex):
        x, self.x = self.x, None
        return x


def as_iter(ex, v, by_value=False):
    v0 = v
    v = deref(v)
    if isinstance(v, It):
        return v
    if hasattr(v, "next") and not isinstance(v, (VecV, list, EnumV)):
        return v
    if isinstance(v, (VecV, SliceV, _View)):
        b, lo, hi = seq(v)
        return SeqIt(b, lo, hi, by_value=by_value and not isinstance(v0, Ref))
    if isinstance(v, EnumV) and v.ty == "Option":
        return OnceIt(v.fields[0] if v.idx == 1 else None)
    if isinstance(v, list) and len(v) == 2 and all(isinstance(x, int) and not isinstance(x, bool) for x in v):
        return RangeIt(v[0], v[1])
    raise Unsupported("cannot iterate " + repr(v)[:80])


def install(models, front=True):
    """front=True: these models take precedence; front=False: they only fill gaps left by earlier models"""
    R = models.reg
    n0 = len(models.table)

    # ------------------------------------------------------------------ Option
    @R(r"^Option::<.*>::([a-z_]+)(::<.*>)?$")
    def _option(ex, c, a):
        m = re.match(r"^Option::<.*>::([a-z_]+)(::<.*>)?$", c).group(1)
        o = deref(a[0])
        some = o.idx == 1
        if m == "is_some": return some
        if m == "is_none": return not some
        if m in ("unwrap", "expect"):
            if some: return o.fields[0]
            raise Panic("called `Option::unwrap()` on a `None` value" if m == "unwrap" else "Option::expect: " + str(a[1])[:60])
        if m == "unwrap_or": return o.fields[0] if some else a[1]
        if m == "unwrap_or_else": return o.fields[0] if some else ex.call_closure(a[1], [])
        if m == "unwrap_or_default":
            if some: return o.fields[0]
            inner = re.match(r"^Option::<(.*)>::unwrap_or_default", c).group(1)
            if re.match(r"^(std::vec::|alloc::vec::)?Vec<", inner): return VecV([])
            if re.match(r"^[ui](8|16|32|64|128|size)$", inner): return 0
            if inner == "bool": return False
            raise Unsupported("unwrap_or_default on None for " + inner)
        if m == "map": return opt(ex.call_closure(a[1], [o.fields[0]])) if some else o
        if m == "map_or": return ex.call_closure(a[2], [o.fields[0]]) if some else a[1]
        if m == "map_or_else": return ex.call_closure(a[2], [o.fields[0]]) if some else ex.call_closure(a[1], [])
        if m == "and_then": return ex.call_closure(a[1], [o.fields[0]]) if some else o
        if m == "and": return a[1] if some else o
        if m == "or": return o if some else a[1]
        if m == "or_else": return o if some else ex.call_closure(a[1], [])
        if m == "ok_or": return EnumV("Result", 0, [o.fields[0]]) if some else EnumV("Result", 1, [a[1]])
        if m == "ok_or_else": return EnumV("Result", 0, [o.fields[0]]) if some else EnumV("Result", 1, [ex.call_closure(a[1], [])])
        if m == "filter":
            if some and ex.branch_bool(ex.call_closure(a[1], [Ref(o.fields, 0)])): return o
            return NONE()
        if m in ("cloned", "copied"):
            return opt(shallow_copy(deref(o.fields[0]))) if some else o
        if m in ("as_ref", "as_mut", "as_deref"):
            return opt(Ref(o.fields, 0)) if some else NONE()
        if m == "take":
            r = a[0]
            old = EnumV("Option", o.idx, list(o.fields))
            r.set(NONE())
            return old
        if m == "replace":
            r = a[0]
            old = EnumV("Option", o.idx, list(o.fields))
            r.set(opt(a[1]))
            return old
        if m == "is_some_and":
            return ex.call_closure(a[1], [o.fields[0]]) if some else False
        if m == "iter": return OnceIt(Ref(o.fields, 0) if some else None)
        if m == "into_iter": return OnceIt(o.fields[0] if some else None)
        if m == "zip":
            p = a[1]
            return opt([o.fields[0], p.fields[0]]) if some and p.idx == 1 else NONE()
        if m == "flatten": return o.fields[0] if some else o
        if m == "unzip":
            return [opt(o.fields[0][0]), opt(o.fields[0][1])] if some else [NONE(), NONE()]
        raise Unsupported("Option::" + m)

    @R(r"^<Option<.*> as Try>::branch$")
    def _opt_branch(ex, c, a):
        o = deref(a[0])
        if o.idx == 1:
            return EnumV("ControlFlow", 0, [o.fields[0]])
        return EnumV("ControlFlow", 1, [NONE()])

    @R(r"^<Option<.*> as FromResidual<.*>>::from_residual$")
    def _opt_from_res(ex, c, a):
        return NONE()

    # ------------------------------------------------------------------ Result
    @R(r"^Result::<.*>::([a-z_]+)(::<.*>)?$")
    def _result(ex, c, a):
        m = re.match(r"^Result::<.*>::([a-z_]+)(::<.*>)?$", c).group(1)
        r = deref(a[0])
        ok = r.idx == 0
        if m == "is_ok": return ok
        if m == "is_err": return not ok
        if m == "ok": return opt(r.fields[0]) if ok else NONE()
        if m == "err": return NONE() if ok else opt(r.fields[0])
        if m in ("unwrap", "expect"):
            if ok: return r.fields[0]
            raise Panic("called `Result::unwrap()` on an `Err` value")
        if m in ("unwrap_err", "expect_err"):
            if not ok: return r.fields[0]
            raise Panic("called `Result::unwrap_err()` on an `Ok` value")
        if m == "unwrap_or": return r.fields[0] if ok else a[1]
        if m == "unwrap_or_else": return r.fields[0] if ok else ex.call_closure(a[1], [r.fields[0]])
        if m == "map": return EnumV("Result", 0, [ex.call_closure(a[1], [r.fields[0]])]) if ok else r
        if m == "map_err": return r if ok else EnumV("Result", 1, [ex.call_closure(a[1], [r.fields[0]])])
        if m == "and_then": return ex.call_closure(a[1], [r.fields[0]]) if ok else r
        if m == "or_else": return r if ok else ex.call_closure(a[1], [r.fields[0]])
        if m == "map_or": return ex.call_closure(a[2], [r.fields[0]]) if ok else a[1]
        if m in ("as_ref", "as_mut"):
            return EnumV("Result", r.idx, [Ref(r.fields, 0)])
        if m in ("cloned", "copied"):
            return EnumV("Result", 0, [shallow_copy(deref(r.fields[0]))]) if ok else r
        if m == "is_ok_and": return ex.call_closure(a[1], [r.fields[0]]) if ok else False
        raise Unsupported("Result::" + m)

    @R(r"^<Result<.*> as Try>::branch$")
    def _res_branch(ex, c, a):
        r = deref(a[0])
        if r.idx == 0:
            return EnumV("ControlFlow", 0, [r.fields[0]])
        return EnumV("ControlFlow", 1, [EnumV("Result", 1, [r.fields[0]])])

    @R(r"^<Result<.*> as FromResidual<.*>>::from_residual$")
    def _res_from_res(ex, c, a):
        res = a[0]
        if isinstance(res, EnumV) and res.ty == "Result":
            return EnumV("Result", 1, [res.fields[0]])
        raise Unsupported("from_residual of " + repr(res)[:50])

    # ------------------------------------------------------------------ slices and Vec
    @R(r"^core::slice::<impl \[.*\]>::([a-z_]+)(::<.*>)?$|^Vec::<.*>::([a-z_]+)(::<.*>)?$")
    def _seq(ex, c, a):
        mm = re.match(r"^core::slice::<impl \[.*\]>::([a-z_]+)(::<.*>)?$|^Vec::<.*>::([a-z_]+)(::<.*>)?$", c)
        m = mm.group(1) or mm.group(3)
        is_vec = c.startswith("Vec::")
        if m in ("new", "with_capacity"):
            return VecV([])
        v = deref(a[0])
        if is_vec and m in ("push", "pop", "insert", "remove", "clear", "truncate", "extend", "append", "drain", "retain", "swap_remove", "extend_from_slice"):
            items = v.items
            if m == "push": items.append(a[1]); return UNIT
            if m == "pop": return opt(items.pop()) if items else NONE()
            if m == "clear": del items[:]; return UNIT
            if m == "truncate": del items[ex.concretize(a[1], "len"):]; return UNIT
            if m == "insert":
                i = ex.concretize(a[1], "index")
                if i > len(items): raise Panic("insertion index out of bounds")
                items.insert(i, a[2]); return UNIT
            if m in ("remove", "swap_remove"):
                i = ex.concretize(a[1], "index")
                if i >= len(items): raise Panic("removal index out of bounds")
                if m == "remove": return items.pop(i)
                x = items[i]; items[i] = items[-1]; items.pop(); return x
            if m in ("extend", "extend_from_slice", "append"):
                it = as_iter(ex, a[1], by_value=True)
                while True:
                    x = it.next(ex)
                    if x is None: break
                    items.append(deref(x) if m == "extend_from_slice" else x)
                if m == "append": del deref(a[1]).items[:]
                return UNIT
            if m == "drain":
                out = list(items); del items[:]
                return SeqIt(out, 0, len(out), by_value=True)
            if m == "retain":
                keep = [x for x in list(items) if ex.branch_bool(ex.call_closure(a[1], [Ref([x], 0)]))]
                items[:] = keep; return UNIT
        base, lo, hi = seq(v)
        n = hi - lo
        if m == "len": return n
        if m == "is_empty": return n == 0
        if m in ("iter", "iter_mut"): return SeqIt(base, lo, hi)
        if m in ("first", "first_mut"): return opt(Ref(base, lo)) if n else NONE()
        if m in ("last", "last_mut"): return opt(Ref(base, hi - 1)) if n else NONE()
        if m in ("get", "get_mut"):
            i = a[1]
            if isinstance(i, list):      # a range
                s, e = i[0], i[1]
                return opt(SliceV(base, lo + s, lo + e)) if s <= e <= n else NONE()
            i = ex.concretize(i, "index")
            return opt(Ref(base, lo + i)) if i < n else NONE()
        if m in ("split_first", "split_first_mut"):
            return opt([Ref(base, lo), SliceV(base, lo + 1, hi)]) if n else NONE()
        if m in ("split_last", "split_last_mut"):
            return opt([Ref(base, hi - 1), SliceV(base, lo, hi - 1)]) if n else NONE()
        if m == "split_at":
            k = ex.concretize(a[1], "mid")
            if k > n: raise Panic("mid > len")
            return [SliceV(base, lo, lo + k), SliceV(base, lo + k, hi)]
        if m == "contains":
            from .models import struct_eq
            for k in range(lo, hi):
                r = struct_eq(ex, deref(base[k]), deref(a[1]))
                if ex.branch_bool(r) if isinstance(r, SB) else r:
                    return True
            return False
        if m in ("to_vec", "into_vec", "to_owned"):
            return VecV([shallow_copy(base[k]) for k in range(lo, hi)])
        if m == "as_slice" or m == "as_mut_slice":
            return a[0]
        if m == "reverse":
            base[lo:hi] = list(reversed(base[lo:hi])); return UNIT
        if m == "swap":
            i, j = ex.concretize(a[1], "index"), ex.concretize(a[2], "index")
            if i >= n or j >= n: raise Panic("index out of bounds")
            base[lo + i], base[lo + j] = base[lo + j], base[lo + i]; return UNIT
        if m == "rotate_left" or m == "rotate_right":
            k = ex.concretize(a[1], "mid")
            if k > n: raise Panic("mid > len")
            seg = base[lo:hi]
            base[lo:hi] = (seg[k:] + seg[:k]) if m == "rotate_left" else (seg[n - k:] + seg[:n - k]); return UNIT
        if m == "concat" or m == "join":
            raise Unsupported("slice::" + m)
        if m == "binary_search_by_key":
            raise Unsupported("slice::binary_search_by_key")
        raise Unsupported(("Vec::" if is_vec else "slice::") + m)

    @R(r"^<Vec<.*> as Index(Mut)?<usize>>::index(_mut)?$|^<\[.*\] as Index(Mut)?<usize>>::index(_mut)?$")
    def _index(ex, c, a):
        base, lo, hi = seq(a[0])
        i = ex.concretize(a[1], "index")
        if i >= hi - lo:
            raise Panic(f"index out of bounds: the len is {hi - lo} but the index is {i}")
        return Ref(base, lo + i)

    @R(r"^<(Vec<.*>|\[.*\]) as Index(Mut)?<(std::ops::)?Range(From|To|Full)?(<usize>)?>>::index(_mut)?$")
    def _index_range(ex, c, a):
        base, lo, hi = seq(a[0])
        n = hi - lo
        r = a[1] if len(a) > 1 else None
        kind = re.search(r"Range(From|To|Full)?", c).group(1)
        one = lambda: ex.concretize(r[0] if isinstance(r, list) else r, "slice range bound")
        if kind == "Full":
            s0, e0 = 0, n
        elif kind == "From":
            s0, e0 = one(), n
            if s0 > n:
                raise Panic(f"range start index {s0} out of range for slice of length {n}")
        elif kind == "To":
            s0, e0 = 0, one()
        else:
            s0, e0 = ex.concretize(r[0], "slice range start"), ex.concretize(r[1], "slice range end")
            if s0 > e0:
                raise Panic(f"slice index starts at {s0} but ends at {e0}")
        if e0 > n:
            raise Panic(f"range end index {e0} out of range for slice of length {n}")
        return SliceV(base, lo + s0, lo + e0)

    @R(r"^<std::(option|slice|vec)::(Iter|IterMut|IntoIter)<.*> as ExactSizeIterator>::len$")
    def _exact_len(ex, c, a):
        it = as_iter(ex, a[0])
        n = 0
        import copy as _copy
        probe = _copy.copy(it)
        while probe.next(ex) is not None:
            n += 1
            if n > 10000:
                raise Unsupported("ExactSizeIterator::len of a long iterator")
        return n

    @R(r"^(core::)?slice::<impl \[.*\]>::reverse$|^Vec::<.*>::reverse$")
    def _reverse(ex, c, a):
        v = deref(a[0])
        if isinstance(v, VecV):
            v.items.reverse(); return UNIT
        if hasattr(v, "items") and hasattr(v, "lo"):
            v.items[v.lo:v.hi] = list(reversed(v.items[v.lo:v.hi])); return UNIT
        raise Unsupported("reverse of " + repr(v)[:40])

    @R(r"^<std::ops::Range<usize> as ExactSizeIterator>::len$|^<Range<usize> as ExactSizeIterator>::len$")
    def _range_len(ex, c, a):
        r = deref(a[0])
        lo, hi = r[0], r[1]
        from .strmodel import LenV, lenv_binop
        if isinstance(lo, LenV) or isinstance(hi, LenV):
            d = lenv_binop(ex, "Sub", hi, lo)
            if d is not None:
                return d
        return hi - lo

    @R(r"^<Vec<.*> as AsRef<.*>>::as_ref$|^<Vec<.*> as Borrow<.*>>::borrow$|^<Vec<.*> as AsMut<.*>>::as_mut$|^<\[.*\] as AsRef<.*>>::as_ref$")
    def _vec_asref(ex, c, a):
        return a[0]

    @R(r"^<Vec<.*> as Deref(Mut)?>::deref(_mut)?$")
    def _vec_deref(ex, c, a):
        return a[0]

    @R(r"^<Vec<.*> as Clone>::clone$")
    def _vec_clone(ex, c, a):
        v = deref(a[0])
        return VecV([shallow_copy(x) for x in v.items])

    @R(r"^<Vec<.*> as IntoIterator>::into_iter$")
    def _vec_into_iter(ex, c, a):
        v = a[0]
        if isinstance(v, Ref):
            b, lo, hi = seq(v)
            return SeqIt(b, lo, hi)
        return SeqIt(list(v.items), 0, len(v.items), by_value=True)

    @R(r"^<&(mut )?Vec<.*> as IntoIterator>::into_iter$|^<&(mut )?\[.*\] as IntoIterator>::into_iter$")
    def _ref_into_iter(ex, c, a):
        b, lo, hi = seq(a[0])
        return SeqIt(b, lo, hi)

    @R(r"^<Vec<.*> as FromIterator<.*>>::from_iter")
    def _from_iter(ex, c, a):
        it = as_iter(ex, a[0], by_value=True)
        out = []
        while True:
            x = it.next(ex)
            if x is None: break
            out.append(x)
        return VecV(out)

    # ------------------------------------------------------------------ Iterator adapters and consumers
    @R(r"^<(.*) as Iterator>::([a-z_]+)(::<.*>)?$|^<(.*) as DoubleEndedIterator>::([a-z_]+)(::<.*>)?$")
    def _iter(ex, c, a):
        mm = re.match(r"^<(.*) as (?:DoubleEnded)?Iterator>::([a-z_]+)(::<.*>)?$", c)
        m = mm.group(2)
        rf = ex.prog.resolve("<%s as Iterator>::next" % mm.group(1)) if mm.group(1) and not mm.group(1).startswith(("std::", "core::", "rowan")) else None
        if rf is not None and m != "next":
            a = [RepoIt(mm.group(1), a[0] if isinstance(a[0], Ref) else Ref([a[0]], 0))] + list(a[1:])
        if m == "next":
            return opt(as_iter(ex, a[0]).next(ex))
        if m == "next_back":
            return opt(as_iter(ex, a[0]).next_back(ex))
        it = as_iter(ex, a[0], by_value=True)
        if m == "rev": return RevIt(it)
        if m == "map": return MapIt(it, a[1])
        if m == "filter": return FilterIt(it, a[1])
        if m == "filter_map": return FilterMapIt(it, a[1])
        if m == "enumerate": return EnumerateIt(it)
        if m == "chain": return ChainIt(it, as_iter(ex, a[1], by_value=True))
        if m == "zip": return ZipIt(it, as_iter(ex, a[1], by_value=True))
        if m == "skip": return SkipIt(it, ex.concretize(a[1], "skip"))
        if m == "take": return TakeIt(it, ex.concretize(a[1], "take"))
        if m == "take_while": return TakeWhileIt(it, a[1])
        if m == "flat_map": return FlatMapIt(it, a[1])
        if m == "flatten": return FlatMapIt(it, None)
        if m == "peekable": return PeekIt(it)
        if m in ("cloned", "copied"): return MapIt(it, PyFn(lambda x: shallow_copy(deref(x))))
        if m == "by_ref": return a[0]
        if m == "count":
            n = 0
            while it.next(ex) is not None: n += 1
            return n
        if m == "last":
            last = None
            while True:
                x = it.next(ex)
                if x is None: return opt(last)
                last = x
        if m == "nth":
            k = ex.concretize(a[1], "nth")
            x = None
            for _ in range(k + 1):
                x = it.next(ex)
                if x is None: return NONE()
            return opt(x)
        if m in ("find", "position", "any", "all", "find_map"):
            i = 0
            while True:
                x = it.next(ex)
                if x is None:
                    return {"find": NONE(), "position": NONE(), "find_map": NONE(), "any": False, "all": True}[m]
                if m == "find_map":
                    r = ex.call_closure(a[1], [x])
                    if r.idx == 1: return r
                elif m == "find":
                    if ex.branch_bool(ex.call_closure(a[1], [Ref([x], 0)])): return opt(x)
                else:
                    b = ex.branch_bool(ex.call_closure(a[1], [x]))
                    if m == "position" and b: return opt(i)
                    if m == "any" and b: return True
                    if m == "all" and not b: return False
                i += 1
        if m == "for_each":
            while True:
                x = it.next(ex)
                if x is None: return UNIT
                ex.call_closure(a[1], [x])
        if m == "fold":
            acc = a[1]
            while True:
                x = it.next(ex)
                if x is None: return acc
                acc = ex.call_closure(a[2], [acc, x])
        if m == "collect":
            out = []
            while True:
                x = it.next(ex)
                if x is None: break
                out.append(x)
            if "Vec<" in (mm.group(3) or "") or "::<Vec" in c:
                return VecV(out)
            raise Unsupported("collect into " + (mm.group(3) or "?"))
        if m == "sum":
            s = 0
            while True:
                x = it.next(ex)
                if x is None: return s
                s = s + deref(x)
        raise Unsupported("Iterator::" + m)

    @R(r"^<.* as IntoIterator>::into_iter$")
    def _into_iter(ex, c, a):
        v = a[0]
        d = deref(v)
        if isinstance(d, (It,)) or hasattr(d, "next"):
            return v
        if isinstance(d, (VecV, SliceV)):
            return as_iter(ex, v, by_value=not isinstance(v, Ref))
        if isinstance(d, list) and len(d) == 2 and all(isinstance(x, int) for x in d):
            return RangeIt(d[0], d[1])
        return v

    @R(r"^Peekable::<.*>::peek$")
    def _peek(ex, c, a):
        return opt(deref(a[0]).peek(ex))

    if front:
        new = models.table[n0:]
        del models.table[n0:]
        models.table[0:0] = new
    models._cache_lookup.clear()
