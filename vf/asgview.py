"""Typed view of engine values: decodes the interpreter's untyped struct lists / EnumV values of oq3_semantics into named
records, using the struct / enum definitions read from /repo's current source (so field order follows the code)."""
import os, re
from .interp import SV, SB, EnumV, VecV, Ref, Opaque
from .strmodel import StrSlice, SymStr
from . import mirdump

SRC = ["crates/oq3_semantics/src/asg.rs", "crates/oq3_semantics/src/types.rs", "crates/oq3_semantics/src/symbols.rs",
       "crates/oq3_semantics/src/semantic_error.rs", "crates/oq3_semantics/src/context.rs"]


def _strip_comments(t):
    t = re.sub(r"//[^\n]*", "", t)
    return re.sub(r"/\*.*?\*/", "", t, flags=re.S)


def split_top(s, sep=","):
    out = []; depth = 0; cur = ""
    for ch in s:
        if ch in "<([{":
            depth += 1
        elif ch in ">)]}":
            depth -= 1
        if ch == sep and depth == 0:
            out.append(cur); cur = ""
        else:
            cur += ch
    if cur.strip():
        out.append(cur)
    return [x.strip() for x in out]


class Defs:
    def __init__(self, repo=None, src=None):
        repo = repo or mirdump.REPO
        self.structs = {}    # name -> [(field, type)]   (tuple structs: field = index)
        self.enums = {}      # name -> [(variant, [types] or [(field, type)])]
        self.aliases = {}
        for rel in (src or SRC):
            t = _strip_comments(open(os.path.join(repo, rel), encoding="utf-8").read())
            t = re.sub(r"#\[[^\]]*\]", "", t)
            for m in re.finditer(r"\btype\s+(\w+)(?:<[^>]*>)?\s*=\s*([^;]+);", t):
                self.aliases[m.group(1)] = m.group(2).strip()
            for m in re.finditer(r"\bstruct\s+(\w+)(?:<[^>{(]*>)?\s*(\{|\(|;)", t):
                name = m.group(1)
                if m.group(2) == ";":
                    self.structs[name] = []
                    continue
                body = self._balanced(t, m.end() - 1)
                if m.group(2) == "{":
                    fs = []
                    for f in split_top(body):
                        fm = re.match(r"^(?:pub(?:\([^)]*\))?\s+)?(\w+)\s*:\s*(.+)$", f.strip(), flags=re.S)
                        if fm:
                            fs.append((fm.group(1), " ".join(fm.group(2).split())))
                    self.structs[name] = fs
                else:
                    self.structs[name] = [(i, re.sub(r"^pub(\([^)]*\))?\s+", "", f.strip())) for i, f in enumerate(split_top(body))]
            for m in re.finditer(r"\benum\s+(\w+)(?:<[^>{]*>)?\s*\{", t):
                body = self._balanced(t, m.end() - 1)
                vs = []
                for v in split_top(body):
                    v = v.strip()
                    if not v:
                        continue
                    vm = re.match(r"^(\w+)\s*(?:\((.*)\)|\{(.*)\})?\s*(?:=\s*[-\w]+)?$", v, flags=re.S)
                    if not vm:
                        continue
                    if vm.group(2) is not None:
                        vs.append((vm.group(1), [x for x in split_top(vm.group(2))]))
                    elif vm.group(3) is not None:
                        fl = []
                        for f in split_top(vm.group(3)):
                            fm = re.match(r"^(\w+)\s*:\s*(.+)$", f.strip(), flags=re.S)
                            if fm:
                                fl.append((fm.group(1), fm.group(2).strip()))
                        vs.append((vm.group(1), fl))
                    else:
                        vs.append((vm.group(1), []))
                self.enums[m.group(1)] = vs

    @staticmethod
    def _balanced(t, i):
        op = t[i]; cl = {"{": "}", "(": ")"}[op]
        depth = 0; j = i
        while j < len(t):
            if t[j] == op:
                depth += 1
            elif t[j] == cl:
                depth -= 1
                if depth == 0:
                    return t[i + 1:j]
            j += 1
        raise ValueError("unbalanced")


class N:
    """decoded record: t = type name, v = variant name (enums), f = dict of fields (named or 0..n-1)"""
    __slots__ = ("t", "v", "f")

    def __init__(self, t, v, f):
        self.t = t; self.v = v; self.f = f

    def __getitem__(self, k):
        return self.f[k]

    def get(self, k, d=None):
        return self.f.get(k, d)

    def __repr__(self):
        return show(self)

    def __eq__(self, o):
        return isinstance(o, N) and (self.t, self.v) == (o.t, o.v) and self.f == o.f

    def __hash__(self):
        return hash((self.t, self.v))


def show(x, depth=0):
    if isinstance(x, N):
        inner = ", ".join((f"{k}: " if isinstance(k, str) else "") + show(v, depth + 1) for k, v in x.f.items())
        head = x.v if x.v is not None else x.t
        return head + (f"({inner})" if x.f else "")
    if isinstance(x, list):
        return "[" + ", ".join(show(v, depth + 1) for v in x) + "]"
    if isinstance(x, tuple):
        return "(" + ", ".join(show(v, depth + 1) for v in x) + ")"
    if isinstance(x, SV):
        return "<sym>"
    return repr(x)


PRIMS = {"u8", "u16", "u32", "u64", "u128", "usize", "i8", "i16", "i32", "i64", "i128", "isize", "bool", "f64", "f32", "char"}


class Decoder:
    def __init__(self, kit, defs=None):
        self.kit = kit; self.defs = defs or Defs()

    def text(self, v):
        while isinstance(v, Ref):
            v = v.get()
        if isinstance(v, str):
            return v
        if isinstance(v, (StrSlice,)):
            cs = v.chars()
            return "".join(chr(c) if isinstance(c, int) else "�" for c in cs), cs
        if hasattr(v, "chars"):
            cs = v.chars()
            return "".join(chr(c) if isinstance(c, int) else "�" for c in cs), cs
        return v

    def decode(self, v, ty):
        D = self.defs
        ty = ty.strip()
        while isinstance(v, Ref):
            v = v.get()
        ty = re.sub(r"^&(?:'\w+\s+)?(?:mut\s+)?", "", ty)
        while ty in D.aliases:
            ty = D.aliases[ty]
        m = re.match(r"^(\w+(?:::\w+)*)<(.*)>$", ty, flags=re.S)
        head = m.group(1).split("::")[-1] if m else ty.split("::")[-1]
        args = split_top(m.group(2)) if m else []
        if head == "Box" or head == "Arc" or head == "Rc":
            return self.decode(v, args[0])
        if head == "Vec":
            items = v.items if isinstance(v, VecV) else list(v)
            return [self.decode(x, args[0]) for x in items]
        if head == "Option":
            if isinstance(v, EnumV):
                return None if v.idx == 0 else self.decode(v.fields[0], args[0])
            raise ValueError(f"Option value? {v!r}")
        if head == "Result":
            if isinstance(v, EnumV):
                return N("Result", "Ok" if v.idx == 0 else "Err", {0: self.decode(v.fields[0], args[v.idx])})
            raise ValueError(f"Result value? {v!r}")
        if ty.startswith("("):
            parts = split_top(ty[1:-1])
            if not parts:
                return ()
            return tuple(self.decode(x, t) for x, t in zip(v, parts))
        if head in PRIMS:
            return v
        if head in ("String", "str", "SmolStr"):
            t = self.text(v)
            if isinstance(t, tuple):
                return t[0] if all(isinstance(c, int) for c in t[1]) else list(t[1])      # symbolic text: the code points
            return t
        if head in ("HashMap", "PathBuf", "Path", "TextRange", "SyntaxNode"):
            return v
        if head in D.enums:
            vs = D.enums[head]
            if isinstance(v, EnumV):
                name, payload = vs[v.idx]
                f = {}
                for i, (p, x) in enumerate(zip(payload, v.fields)):
                    if isinstance(p, tuple):
                        f[p[0]] = self.decode(x, p[1])
                    else:
                        f[i] = self.decode(x, p)
                return N(head, name, f)
            if isinstance(v, int) and not isinstance(v, bool):
                # fieldless enum as discriminant
                info = self.kit.prog.enums.get(head)
                if info and info[2]:
                    idx = info[2].index(v) if v in info[2] else v
                else:
                    idx = v
                return N(head, vs[idx][0], {})
            if isinstance(v, SV):
                return v
            raise ValueError(f"enum {head} value? {v!r}")
        if head in D.structs:
            fs = D.structs[head]
            if not fs:
                return N(head, None, {})
            if not isinstance(v, list):
                raise ValueError(f"struct {head} value? {v!r}")
            return N(head, None, {fn: self.decode(x, ft) for (fn, ft), x in zip(fs, v)})
        return v


def walk(x, fn):
    """pre-order visit of decoded records"""
    if isinstance(x, N):
        fn(x)
        for v in x.f.values():
            walk(v, fn)
    elif isinstance(x, (list, tuple)):
        for v in x:
            walk(v, fn)
