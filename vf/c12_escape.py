"""C12 part (c): the offsets of literal-escape diagnostics (oq3_syntax::validation) are character boundaries inside the text.

A program `<literal> ;` whose STRING / BIT_STRING token is `"` + n SYMBOLIC code points (every Unicode scalar value but an
unescaped quote) + `"` is parsed by the real parser; oq3_syntax::validation::validate with the real oq3_lexer::unescape
machinery runs from MIR on the symbolic text.  Proved for every text of a path: each diagnostic's range satisfies
start <= end <= |text| and both ends equal the byte offset of a character boundary (the byte length of a prefix of the
text, an exact linear form over the UTF-8 lengths of the characters)."""
import os, re, json, collections
import z3
from . import explore, semh, native
from .interp import SV, SB, Ref, Panic, Unsupported, Violation
from .strmodel import LenV, span_len, len8_e
from .textmodels import TR


def w64(x):
    if isinstance(x, LenV):
        x = x.norm()
    if isinstance(x, LenV):
        return x.to_sv().e if x.w == 64 else z3.ZeroExt(64 - x.w, x.to_sv().e)
    if isinstance(x, SV):
        return z3.ZeroExt(64 - x.w, x.e) if x.w < 64 else x.e
    return z3.BitVecVal(int(x), 64)


class H(semh.Base):
    def label(self):
        return "/".join(str(x) for x in self.task)

    def site(self, outcome, detail):
        return semh.Base.site(self, outcome, detail).replace("`" + self.label() + "`", "")[:200] + " @" + str(self.task[0])

    def run(self, ex):
        fam = self.fam; kit = fam.kit
        kind, n = self.task
        unterminated = kind.endswith("!")
        kind = kind.rstrip("!")
        self.symvars = {}
        cs = [ord('"')]
        sym = []
        for i in range(n):
            c = SV(z3.BitVec(f"c{i}", 32), 32)
            ex.add_constraint(z3.Or(z3.ULE(c.e, 0xD7FF), z3.And(z3.UGE(c.e, 0xE000), z3.ULE(c.e, 0x10FFFF))))
            self.symvars[f"c{i}"] = c
            sym.append(c); cs.append(c)
        if not unterminated:
            cs.append(ord('"'))
        # the token is what the lexer delimits: a quote inside is escaped, the closing quote is not
        esc = z3.BoolVal(False)       # is character i escaped by an (unescaped) backslash before it
        for i, c in enumerate(sym):
            ex.add_constraint(z3.Implies(c.e == ord('"'), esc))
            esc = z3.And(c.e == ord("\\"), z3.Not(esc))
        if not unterminated:
            ex.add_constraint(z3.Not(esc))
        if kind == "BIT_STRING":
            pass
        src = kit.source()
        if unterminated:
            # an unterminated literal runs to the end of the input: it is the last token (SourceFile::parse still parses and validates it)
            src.tok(kind, cs, True)
            self.toks = [(kind, cs, True)]
        else:
            src.tok(kind, cs); src.tok("SEMICOLON", ";")
            self.toks = [(kind, cs, False), ("SEMICOLON", ";", False)]
        root = src.build(ex)
        full = src.full
        errs = kit.validate(ex, root)
        total = span_len(full, 0, len(full.chars))
        bounds = [w64(span_len(full, 0, k)) for k in range(len(full.chars) + 1)]
        for e in errs:
            while isinstance(e, Ref):
                e = e.get()
            rng = e[1]
            while isinstance(rng, Ref):
                rng = rng.get()
            if isinstance(rng, TR):
                s_, e_ = rng.start, rng.end
            else:
                s_, e_ = rng[0], rng[1]
            S, E = w64(s_), w64(e_)
            ex.prove(z3.And(z3.ULE(S, E), z3.ULE(E, w64(total))), f"`{self.label()}`: an escape diagnostic's range is not within the text (start <= end <= length)")
            ex.prove(z3.Or([S == b for b in bounds]), f"`{self.label()}`: the start of an escape diagnostic is not on a character boundary")
            ex.prove(z3.Or([E == b for b in bounds]), f"`{self.label()}`: the end of an escape diagnostic is not on a character boundary")
        ex.obligations += 1
        return f"{len(errs)}-diagnostics"

    def render(self, model):
        out = []
        for kn, text, joint in self.toks:
            out.append(text if isinstance(text, str) else "".join(chr(c) if isinstance(c, int) else chr(model.get(c.e.decl().name(), ord("a"))) for c in text))
        return " ".join(out)


PARSE_SHAPES = {
    # erroneous programs; `$c` is a token of kind ERROR (or IDENT) whose text is one SYMBOLIC code point
    "missing-semicolon-at-eof": "$i = 1",
    "missing-semicolon-at-eof-ident": "int $i",
    "error-token-in-parens": "x = ( $e ) ;",
    "error-token-statement": "$e x ;",
    "error-token-after-type": "int $e ;",
    "error-token-in-block": "gate g q { $e }",
    "error-token-last": "x = 1 ; $e",
    "error-token-condition": "if ( $e ) { }",
    "unclosed-paren-before-nonascii": "x = ( $i",
    "two-errors": "$e $e",
    "stray-closer": ") $i ;",
}


class HP(H):
    """parser diagnostics: StrStep::Error positions through the REAL SyntaxTreeBuilder::error (message, offset) -> SyntaxError range"""
    def run(self, ex):
        fam = self.fam; kit = fam.kit
        _, name = self.task
        self.symvars = {}
        toks = []
        n = 0
        for w in PARSE_SHAPES[name].split():
            if w in ("$e", "$i"):
                c = SV(z3.BitVec(f"c{n}", 32), 32); n += 1
                ex.add_constraint(z3.Or(z3.ULE(c.e, 0xD7FF), z3.And(z3.UGE(c.e, 0xE000), z3.ULE(c.e, 0x10FFFF))))
                ex.add_constraint(z3.And(c.e != 32, c.e != 10))
                self.symvars[f"c{n - 1}"] = c
                toks.append(("ERROR" if w == "$e" else "IDENT", [c], False))
            else:
                toks.append((semh.word_kind(fam, w), w, False))
        self.toks = toks
        src = kit.source()
        for kn, text, joint in toks:
            src.tok(kn, text, joint)
        root = src.build(ex)
        full = src.full
        total = span_len(full, 0, len(full.chars))
        bounds = [w64(span_len(full, 0, k)) for k in range(len(full.chars) + 1)]
        errs = src.tb.syntax_errors()
        if not errs:
            raise Unsupported("the erroneous shape produced no parser diagnostic: " + name)
        for s_, e_ in errs:
            S, E = w64(s_), w64(e_)
            ex.prove(z3.And(z3.ULE(S, E), z3.ULE(E, w64(total))), f"`{self.label()}`: a parser diagnostic's range is not within the text (start <= end <= length)")
            ex.prove(z3.Or([S == b for b in bounds]), f"`{self.label()}`: the start of a parser diagnostic is not on a character boundary")
            ex.prove(z3.Or([E == b for b in bounds]), f"`{self.label()}`: the end of a parser diagnostic is not on a character boundary")
        ex.obligations += 1
        return f"{len(errs)}-parser-diagnostics"


VALIDATE_SHAPES = {
    # a literal followed by a postfix operator: the parser accepts or diagnoses it, the validation pass must come back either way
    "timing-index": "1 dt [ 0 ] ;", "timing-call": "a = 1 ns ( 2 ) ;", "timing-unclosed-call": "9 s (", "int-index": "1 [ 0 ] ;", "float-call": "1.5 ( 2 ) ;",
    "bits-index": '"01" [ 0 ] ;', "string-index": '"ab" [ 0 ] ;', "bool-call": "true ( 1 ) ;", "int-ident-index": "1 q [ 0", "timing-float-index": "1.5 us [ 0 ] ;",
}


class HV(H):
    """the validation pass (oq3_syntax::validation::validate, real code from MIR) returns on every tree the parser builds for these shapes"""
    def run(self, ex):
        fam = self.fam; kit = fam.kit
        _, name = self.task
        self.symvars = {}
        toks = [(semh.word_kind(fam, w), w, False) for w in VALIDATE_SHAPES[name].split()]
        self.toks = toks
        src = kit.source()
        for kn, text, joint in toks:
            src.tok(kn, text, joint)
        root = src.build(ex)
        errs = kit.validate(ex, root)          # a Panic raised in here is the violation
        ex.obligations += 1
        return "validated"


def native_confirm(text):
    """re-derives the verdict on the native pipeline: parse diagnostics with byte ranges, char boundaries by Python"""
    o = native.run_one("parse " + native.hexs(text), "dev", timeout=20)
    if native.failed(o):
        return None, str(o)[:200]
    b = text.encode("utf-8")
    bounds = {0}
    acc = 0
    for ch in text:
        acc += len(ch.encode("utf-8")); bounds.add(acc)
    bad = []
    for e in o.get("errors", []):
        s_, e_ = e[0], e[1]
        if not (s_ <= e_ <= len(b)) or s_ not in bounds or e_ not in bounds:
            bad.append(e)
    return bad, o


def run_validate(ctx, res, pid="C01"):
    """C01, validation pass: both parse entry points run oq3_syntax::validation::validate on the tree; it must return on every tree the
    parser can build.  Decided here on the literal-postfix shapes (real parser + real validate from MIR); a panic is confirmed natively."""
    import hashlib
    vtasks = [("validate", nm) for nm in VALIDATE_SHAPES]
    fails, counts, on_result = semh.collector(res, label_of=lambda t: f"{t[0]}/{t[1]}")
    st3, errs3 = explore.explore_many(semh.famfactory(ctx.known, ctx.seed, HV), vtasks, workers=min(ctx.workers, len(vtasks)), max_paths=20000, on_result=on_result, log=ctx.log)
    res.merge_stats(st3)
    ctx.log(f"validation pass on literal-postfix shapes: {st3.get('paths', 0)} paths over {len(vtasks)} shapes, panic={st3.get('panic', 0)} unsupported={st3.get('unsupported', 0)}")
    for site, info in fails.items():
        r0 = info["ex"][0]
        if r0[1] != "panic":
            res.inconclusive.append(f"{r0[1]} ({info['count']} paths): {site[:240]} e.g. {r0[3]!r}")
            continue
        o = native.run_one("parse " + native.hexs(r0[3]), "dev", timeout=20)
        o2 = native.run_one("parse_check_lex " + native.hexs(r0[3]), "release", timeout=20)
        if not (native.failed(o) and native.failed(o2)):
            res.inconclusive.append(f"validation panic not reproduced natively: {site[:200]} e.g. {r0[3]!r}")
            continue
        res.validated += 1
        kid = next((k["id"] for k in ctx.known if k.get("site") and re.search(k["site"], site)), None)
        if kid:
            if not any(h.startswith(kid + ":") for h in res.known_hits):
                res.known_hits.append(f"{kid}: {[k for k in ctx.known if k['id'] == kid][0].get('what', '')} (e.g. {r0[3]!r})")
            continue
        what = {"site": site, "paths": info["count"], "source_text": r0[3], "native(dev parse, release parse_check_lex)": [str(o)[:200], str(o2)[:200]]}
        rp = os.path.join(ctx.replay_dir, "validate_" + hashlib.sha1(site.encode()).hexdigest()[:10] + ".json")
        json.dump({"property": pid, "kind": "parse_text", "line": "parse " + native.hexs(r0[3]), "source_text": r0[3], "what": what}, open(rp, "w"), indent=1)
        res.violations.append({"what": json.dumps(what), "replay": rp})
    res.functions_encoded += ["oq3_syntax::validation::validate (+ ast::expr_ext Literal::token / kind) on the parser's tree for literal-postfix shapes"]
    res.bounds["validation_pass_shapes"] = len(vtasks)


def run_escapes(ctx, res):
    ns = (1, 2, 3) if ctx.quick() else (1, 2, 3, 4)
    tasks = [(k, n) for k in ("STRING", "BIT_STRING") for n in ns] + [(k + "!", n) for k in ("STRING", "BIT_STRING") for n in (0, 1, 2)]
    fails, counts, on_result = semh.collector(res, label_of=lambda t: f"{t[0]}/{t[1]}")
    st, errs = explore.explore_many(semh.famfactory(ctx.known, ctx.seed, H), tasks, workers=ctx.workers, max_paths=200000, on_result=on_result, log=ctx.log)
    res.merge_stats(st)
    ptasks = [("parse", nm) for nm in PARSE_SHAPES]
    st2, errs2 = explore.explore_many(semh.famfactory(ctx.known, ctx.seed, HP), ptasks, workers=min(ctx.workers, len(ptasks)), max_paths=20000, on_result=on_result, log=ctx.log)
    res.merge_stats(st2)
    ctx.log(f"parser diagnostics through SyntaxTreeBuilder::error: {st2.get('paths', 0)} paths over {len(ptasks)} erroneous shapes, violation={st2.get('violation', 0)} unsupported={st2.get('unsupported', 0)}")
    ctx.log(f"escape diagnostics: {st.get('paths', 0)} paths over {len(tasks)} literal shapes: {dict(counts)} panic={st.get('panic', 0)} violation={st.get('violation', 0)} unsupported={st.get('unsupported', 0)}")
    import hashlib
    for site, info in fails.items():
        r0 = info["ex"][0]
        if r0[1] in ("unsupported", "stuck"):
            res.inconclusive.append(f"{r0[1]} ({info['count']} paths): {site[:240]} e.g. {r0[3]!r}")
            continue
        confirmed = None
        for r in info["ex"]:
            bad, o = native_confirm(r[3])
            if r[1] == "panic":
                if bad is None:
                    confirmed = (r, o); break
            elif bad:
                confirmed = (r, bad); break
        if confirmed is None:
            res.inconclusive.append(f"counterexample not reproduced natively: {site[:200]} e.g. {r0[3]!r}")
            continue
        res.validated += 1
        r, evidence = confirmed
        kid = next((k["id"] for k in ctx.known if k.get("site") and re.search(k["site"], site)), None)
        if kid:
            res.known_hits.append(f"{kid}: {[k for k in ctx.known if k['id'] == kid][0].get('what', '')} (e.g. {r[3]!r})")
            continue
        what = {"site": site, "paths": info["count"], "source_text": r[3], "native": str(evidence)[:400]}
        rp = os.path.join(ctx.replay_dir, "escape_" + hashlib.sha1(site.encode()).hexdigest()[:10] + ".json")
        json.dump({"property": "C12", "source_text": r[3], "what": what}, open(rp, "w"), indent=1)
        res.violations.append({"what": json.dumps(what), "replay": rp})
    res.functions_encoded += ["oq3_syntax::syntax_node::SyntaxTreeBuilder::error, oq3_syntax::syntax_error::SyntaxError::{new_at_offset, new}", "oq3_syntax::validation::{validate, validate_literal, unquote, push_err closure}", "oq3_lexer::unescape::{unescape_literal, unescape_str_common, scan_escape, scan_unicode, ...}"]
    res.bounds["escape_literal_chars"] = f"<= {max(ns)} symbolic code points (all Unicode scalar values) between the quotes, STRING and BIT_STRING"
