"""C02 - the syntax tree is lossless (DESIGN 6/C02)."""
import os
from .main import Result
from . import lossless


def run(ctx):
    res = Result()
    from .parser_kit import ParserKit
    kit = ParserKit()
    sub = lossless.composite_subalphabet(kit)
    if ctx.quick():
        plan = [(0, None), (1, None), (2, None), (3, sub), (4, sub)]
    else:
        plan = [(0, None), (1, None), (2, None), (3, None), (4, sub), (5, sub)]
    if os.environ.get("VERIF_C02_PLAN"):
        plan = [(int(x.split(":")[0]), None if x.endswith(":full") else sub) for x in os.environ["VERIF_C02_PLAN"].split(",")]
    lossless.run_lossless(ctx, res, plan, ("c02",), "lossless")
    res.functions_encoded += ["oq3_parser::LexedStr::to_input", "oq3_parser::TopEntryPoint::parse (whole parser)",
                              "oq3_parser::LexedStr::intersperse_trivia", "oq3_parser::shortcuts::Builder::*", "n_attached_trivias",
                              "oq3_parser::Output::iter", "oq3_parser::Input::{push,was_joint,is_joint}"]
    res.bounds["raw_tokens_full_alphabet"] = max(r for r, a in plan if a is None)
    res.bounds["raw_tokens_composite_subalphabet"] = max([r for r, a in plan if a is not None] or [0])
    res.bounds["composite_subalphabet"] = sub
    res.stubs += ["token text is opaque: &text[a..b] yields a range object; ends_with('.')/contains/starts_with on it are fresh booleans",
                  "the sink is a recording closure"]
    res.assumptions += ["LexedStr.start strictly increasing (conclusion of C14)",
                        "rowan's GreenNodeBuilder concatenates token texts and derives node ranges from them (trusted base)"]
    res.outside_claim += ["token text content", "raw sequences longer than the bounds", "rowan"]
    res.exhaustive = not res.inconclusive
    return res


def replay(ctx, path):
    return lossless.replay(ctx, path)
