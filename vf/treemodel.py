"""The AST boundary (DESIGN 2.5): rowan's syntax tree as an abstract ordered tree.

The tree is BUILT BY THE REAL CODE: the interpreted LexedStr::to_input -> TopEntryPoint::parse ->
LexedStr::intersperse_trivia drive a sink that plays the role of rowan's GreenNodeBuilder (start_node / token /
finish_node; trusted).  Everything above it - oq3_syntax::ast accessors, validation, oq3_semantics - runs from MIR
against the API modelled here (kind, children, children_with_tokens, first_child_or_token, parent, text_range, text,
descendants, NodeOrToken).
"""
import re
import z3
from .interp import SV, SB, EnumV, VecV, Ref, PyFn, Opaque, UNIT, Panic, Unsupported, Violation
from . import strmodel, stdmodels
from .strmodel import SymStr, StrSlice, LenV, span_len
from .textmodels import TR, TokV
from .stdmodels import It, opt, NONE, deref


class NodeV:
    """SyntaxNode"""
    def __init__(self, kind, parent=None):
        self.kind = kind; self.parent = parent; self.children = []
        self.clo = None; self.chi = None       # char index range in the full text
        self.full = None

    def __deepcopy__(self, memo):
        return self

    def __repr__(self):
        return f"Node({self.kind})"


class LeafV(TokV):
    """SyntaxToken with tree position"""
    def __init__(self, kind, text, start, parent):
        TokV.__init__(self, kind, text, start)
        self.parent = parent
        self.clo = text.lo; self.chi = text.hi

    def __repr__(self):
        return f"Tok({self.kind})"


def byte_off(full, ci):
    v = span_len(full, 0, ci)
    return LenV(v.s, v.terms, v.const, 32) if isinstance(v, LenV) else v


def node_range(n):
    return TR(byte_off(n.full, n.clo), byte_off(n.full, n.chi))


class TreeBuilder:
    """the sink of intersperse_trivia (GreenNodeBuilder semantics)"""
    def __init__(self, full, SS, ex=None):
        self.full = full; self.SS = SS
        self.root = None; self.stack = []
        self.errors = []
        self.pos = 0       # char index of the next token
        self.ex = ex
        # the real oq3_syntax::SyntaxTreeBuilder::error turns (message, offset) into a SyntaxError with a range;
        # it runs from MIR on a builder value whose green-node part is never touched by it
        self.real_builder = [VecV([]), Opaque("GreenNodeBuilder")]

    def step(self, s):
        nm = self.SS[s.idx]
        if nm == "Enter":
            n = NodeV(s.fields[0], self.stack[-1] if self.stack else None)
            n.full = self.full
            if self.stack:
                self.stack[-1].children.append(n)
            else:
                if self.root is not None:
                    raise Panic("second root node")
                self.root = n
            n.clo = self.pos
            self.stack.append(n)
        elif nm == "Exit":
            n = self.stack.pop()
            n.chi = self.pos
        elif nm == "Token":
            kind, text = s.fields[0], s.fields[1]
            sl = strmodel.as_slice(text)
            if sl.lo != self.pos:
                raise Panic("token text is not contiguous with the tokens added so far")
            if not self.stack:
                raise Panic("token outside the root node")
            leaf = LeafV(kind, sl, byte_off(self.full, sl.lo), self.stack[-1])
            leaf.full = self.full
            self.stack[-1].children.append(leaf)
            self.pos = sl.hi
        elif nm == "Error":
            self.errors.append((s.fields[0], s.fields[1]))
            if self.ex is not None and self.real_error_fn(self.ex) is not None:
                pos = s.fields[1]
                if isinstance(pos, LenV):
                    pos = LenV(pos.s, pos.terms, pos.const, 32)
                self.ex.run(self.real_error_fn(self.ex), [Ref([self.real_builder], 0), s.fields[0], pos])
        return UNIT

    def real_error_fn(self, ex):
        c = ex.prog.__dict__.get("_stb_error", 0)
        if c == 0:
            c = ex.prog.methods.get(("SyntaxTreeBuilder", None, "error"))
            ex.prog._stb_error = c
        return c

    def syntax_errors(self):
        """(range start, range end) of the SyntaxErrors built by the real SyntaxTreeBuilder::error"""
        out = []
        for e in self.real_builder[0].items:
            e = deref(e)
            rng = deref(e[1])
            if isinstance(rng, TR):
                out.append((rng.start, rng.end))
            else:
                out.append((rng[0], rng[1]))
        return out


class Source:
    """a program given as lexemes: builds the token table the lexer would produce (kinds from the caller, texts possibly
    symbolic), then the tree via the real parser"""
    def __init__(self, kit):
        self.kit = kit
        self.items = []     # (kind, chars, joint_to_next)

    def tok(self, kind_name, text, joint=False):
        chars = [ord(c) for c in text] if isinstance(text, str) else list(text)
        self.items.append((self.kit.K[kind_name] if isinstance(kind_name, str) else kind_name, chars, joint))
        return self

    def build(self, ex):
        kit = self.kit; K = kit.K
        chars = []; kinds = []; starts = []
        for i, (kind, cs, joint) in enumerate(self.items):
            starts.append(len(chars)); kinds.append(kind); chars += cs
            if not joint and i + 1 < len(self.items):
                starts.append(len(chars)); kinds.append(K["WHITESPACE"]); chars.append(32)
        full = SymStr(chars, "SRC")
        self.full = full
        bstarts = [byte_off(full, c) for c in starts] + [byte_off(full, len(chars))]
        lexed = [StrSlice(full, 0, len(chars)), VecV(kinds + [K["EOF"]]), VecV(bstarts), VecV([])]
        lref = Ref([lexed], 0)
        inp = ex.call("LexedStr::<'_>::to_input", [lref])
        out = ex.call("TopEntryPoint::parse", [Ref([0], 0), Ref([inp], 0)])
        tb = TreeBuilder(full, kit.prog.enums["StrStep"][0], ex)
        self.tb = tb
        ex.call("LexedStr::<'_>::intersperse_trivia", [lref, Ref([out], 0), Ref([PyFn(tb.step)], 0)])
        if tb.root is None or tb.stack:
            raise Panic("unbalanced tree")
        self.errors = tb.errors
        return tb.root


# ------------------------------------------------------------------------------------------------ rowan API
class ChildIt(It):
    def __init__(self, node, with_tokens):
        self.items = list(node.children); self.i = 0; self.with_tokens = with_tokens

    def next(self, ex):
        while self.i < len(self.items):
            c = self.items[self.i]; self.i += 1
            if self.with_tokens:
                return elem(c)
            if isinstance(c, NodeV):
                return c
        return None


def elem(c):
    return EnumV("NodeOrToken", 0 if isinstance(c, NodeV) else 1, [c])


def preorder(n, with_tokens):
    out = [n]
    for c in n.children:
        if isinstance(c, NodeV):
            out += preorder(c, with_tokens)
        elif with_tokens:
            out.append(c)
    return out


class ListIt(It):
    def __init__(self, items):
        self.items = items; self.i = 0

    def next(self, ex):
        if self.i < len(self.items):
            x = self.items[self.i]; self.i += 1
            return x
        return None


def as_node(v):
    v = deref(v)
    if isinstance(v, list) and len(v) == 1:
        v = deref(v[0])
    if isinstance(v, (NodeV, LeafV)):
        return v
    raise Unsupported("not a syntax node: " + repr(v)[:60])


def install(models, prog):
    prog.enums.setdefault("NodeOrToken", (["Node", "Token"], [True, True], None))
    prog.enums.setdefault("Cow", (["Borrowed", "Owned"], [True, True], None))
    prog.enums.setdefault("Either", (["Left", "Right"], [True, True], None))
    prog.enums.setdefault("WalkEvent", (["Enter", "Leave"], [True, True], None))
    R = models.reg
    n0 = len(models.table)
    SN = r"(rowan::)?(api::)?SyntaxNode(::<.*?>)?"
    ST = r"(rowan::)?(api::)?SyntaxToken(::<.*?>)?"

    @R(r"^%s::new_root$" % SN)
    def _new_root(ex, c, a):
        return as_node(a[0])

    @R(r"^%s::kind$|^%s::kind$" % (SN, ST))
    def _kind(ex, c, a):
        return as_node(a[0]).kind

    @R(r"^%s::parent$|^%s::parent$" % (SN, ST))
    def _parent(ex, c, a):
        return opt(as_node(a[0]).parent)

    @R(r"^%s::children$" % SN)
    def _children(ex, c, a):
        return ChildIt(as_node(a[0]), False)

    @R(r"^%s::children_with_tokens$" % SN)
    def _children_wt(ex, c, a):
        return ChildIt(as_node(a[0]), True)

    @R(r"^%s::first_child_or_token$" % SN)
    def _fcot(ex, c, a):
        n = as_node(a[0])
        return opt(elem(n.children[0])) if n.children else NONE()

    @R(r"^%s::last_child_or_token$" % SN)
    def _lcot(ex, c, a):
        n = as_node(a[0])
        return opt(elem(n.children[-1])) if n.children else NONE()

    @R(r"^%s::first_child$" % SN)
    def _fc(ex, c, a):
        n = as_node(a[0])
        for ch in n.children:
            if isinstance(ch, NodeV):
                return opt(ch)
        return NONE()

    @R(r"^%s::(first|last)_token$" % SN)
    def _ftok(ex, c, a):
        n = as_node(a[0])
        toks = [x for x in preorder(n, True) if isinstance(x, LeafV)]
        if not toks:
            return NONE()
        return opt(toks[0] if "first" in c else toks[-1])

    @R(r"^%s::text_range$|^%s::text_range$" % (SN, ST))
    def _text_range(ex, c, a):
        return node_range(as_node(a[0]))

    @R(r"^%s::text$" % SN)
    def _node_text(ex, c, a):
        n = as_node(a[0])
        return StrSlice(n.full, n.clo, n.chi)

    @R(r"^%s::text$|^<.* as AstToken>::text$" % ST)
    def _tok_text(ex, c, a):
        return as_node(a[0]).text

    @R(r"^<.* as AstToken>::syntax$")
    def _tok_syntax(ex, c, a):
        t = deref(a[0])
        if isinstance(t, list) and len(t) == 1:
            return Ref(t, 0)
        return a[0]

    @R(r"^%s::descendants$" % SN)
    def _desc(ex, c, a):
        return ListIt(preorder(as_node(a[0]), False))

    @R(r"^%s::descendants_with_tokens$" % SN)
    def _desc_wt(ex, c, a):
        return ListIt([elem(x) for x in preorder(as_node(a[0]), True)])

    @R(r"^%s::ancestors$" % SN)
    def _anc(ex, c, a):
        n = as_node(a[0]); out = []
        while n is not None:
            out.append(n); n = n.parent
        return ListIt(out)

    def sib(x, step, with_tokens):
        p_ = x.parent
        if p_ is None:
            return None
        ch = p_.children
        i = next(k for k, c_ in enumerate(ch) if c_ is x) + step
        while 0 <= i < len(ch):
            if with_tokens or isinstance(ch[i], NodeV):
                return ch[i]
            i += step
        return None

    @R(r"^%s::(next|prev)_sibling_or_token$|^%s::(next|prev)_sibling_or_token$" % (SN, ST))
    def _sib_or_tok(ex, c, a):
        x = as_node(a[0])
        r = sib(x, 1 if "::next_" in c else -1, True)
        return opt(elem(r)) if r is not None else NONE()

    @R(r"^%s::(next|prev)_sibling$" % SN)
    def _sib_node(ex, c, a):
        x = as_node(a[0])
        r = sib(x, 1 if "::next_" in c else -1, False)
        return opt(r) if r is not None else NONE()

    @R(r"^(rowan::)?api::<impl NodeOrToken<.*>>::(next|prev)_sibling_or_token$")
    def _elem_sib(ex, c, a):
        x = deref(a[0]).fields[0]
        r = sib(x, 1 if "::next_" in c else -1, True)
        return opt(elem(r)) if r is not None else NONE()

    @R(r"^%s::(next|prev)_token$" % ST)
    def _tok_step(ex, c, a):
        x = as_node(a[0])
        root = x
        while root.parent is not None:
            root = root.parent
        toks = [t for t in preorder(root, True) if isinstance(t, LeafV)]
        i = next(k for k, t in enumerate(toks) if t is x) + (1 if "::next_" in c else -1)
        return opt(toks[i]) if 0 <= i < len(toks) else NONE()

    @R(r"^<(rowan::)?(api::)?Syntax(Node|Token)(<.*>)? as Clone>::clone$|^<NodeOrToken<.*> as Clone>::clone$")
    def _clone(ex, c, a):
        v = deref(a[0])
        if isinstance(v, EnumV):
            return EnumV(v.ty, v.idx, list(v.fields))
        return v

    @R(r"^<(rowan::)?(api::)?Syntax(Node|Token)(<.*>)? as PartialEq>::(eq|ne)$")
    def _node_eq(ex, c, a):
        r = as_node(a[0]) is as_node(a[1])
        return r if c.endswith("eq") else (not r)

    @R(r"^NodeOrToken::<.*>::(into|as)_token$")
    def _into_token(ex, c, a):
        e = deref(a[0])
        return opt(e.fields[0]) if e.idx == 1 else NONE()

    @R(r"^NodeOrToken::<.*>::(into|as)_node$")
    def _into_node(ex, c, a):
        e = deref(a[0])
        return opt(e.fields[0]) if e.idx == 0 else NONE()

    @R(r"^(rowan::)?api::<impl NodeOrToken<.*>>::(kind|text_range|parent)$")
    def _elem_api(ex, c, a):
        x = deref(a[0]).fields[0]
        if c.endswith("::kind"):
            return x.kind
        if c.endswith("::text_range"):
            return node_range(x)
        return opt(x.parent)

    @R(r"^<(rowan::)?(api::)?Syntax(Node|Token)(<.*>)? as Into<NodeOrToken<.*>>>::into$|^<NodeOrToken<.*> as From<.*>>::from$")
    def _into_elem(ex, c, a):
        return elem(as_node(a[0]))

    @R(r"^text_of_first_token$|^node_ext::text_of_first_token$")
    def _text_of_first_token(ex, c, a):
        n = as_node(a[0])
        if not n.children or not isinstance(n.children[0], LeafV):
            raise Panic("called `Option::unwrap()` on a `None` value")      # first_token(): children().next().and_then(into_token).unwrap()
        return n.children[0].text

    @R(r"^TokenText::<'_>::(as_str|borrowed|owned)$|^<TokenText<'_> as From<.*>>::from$|^<TokenText<'_> as (ToString|AsRef<str>|Deref|std::fmt::Display)>::(to_string|as_ref|deref)$|^TokenText::<'_>::as_str$|^<TokenText<'_> as Into<.*>>::into$|^<rowan::SyntaxText as ToString>::to_string$|^<SyntaxText as ToString>::to_string$")
    def _tokentext(ex, c, a):
        return deref(a[0])

    new = models.table[n0:]
    del models.table[n0:]
    models.table[0:0] = new
    models.force.add("text_of_first_token")
    models.skip_re = re.compile(r"token_text\.rs")
    models._cache_lookup.clear()
