"""C05 - the AST mirrors the derivation: precedence, associativity (part a, stage 1).

Expression skeletons with SYMBOLIC operator slots (all 19 binary and 3 unary operators; a binary slot is 1-2 raw
tokens with joint bits set) are parsed by the REAL parser (MIR).  On every path without diagnostics the
expression subtree is compared with the nesting that a reference precedence-climbing parser derives from the
OpenQASM 3 operator table in /verif/spec/grammar.py, for EVERY operator assignment the solver admits on the
path (feasible assignments are enumerated with blocking clauses, so each of the 19x19 pairs is decided).
Part (b) (typed accessor roles) is vf/c05_roles.py (stage 2).
"""
import json, os, hashlib, collections, itertools
import z3
from . import explore, native, findings, skel
from .interp import Exec, SV, SB, VecV, Ref, Panic, Unsupported, Violation, StepLimit
from .main import Result
from .parser_kit import ParserKit
from .h_c01 import names_of, _short

G = skel.spec()
slot = G.slot
BIN = G.BIN
A = "IDENT"

# expression skeletons: (name, items); operands are concrete IDENT / INT_NUMBER tokens so that only operators vary
EXPRS_QUICK = [
    ("a+b*c", [A, BIN, A, BIN, A]),
    ("-a+b", [slot("UNOP"), A, BIN, A]),
    ("a+-b", [A, BIN, slot("UNOP"), A]),
    ("a+f(b)*c[d]", [A, BIN, A, "L_PAREN", A, "R_PAREN", BIN, A, "L_BRACK", A, "R_BRACK"]),
    ("(a+b)*c", ["L_PAREN", A, BIN, A, "R_PAREN", BIN, A]),
    ("a+(b*c)", [A, BIN, "L_PAREN", A, BIN, A, "R_PAREN"]),
]
EXPRS_THOROUGH = EXPRS_QUICK + [
    ("a+b*c-d", [A, BIN, A, BIN, A, BIN, A]),
    ("((a+b))*c", ["L_PAREN", "L_PAREN", A, BIN, A, "R_PAREN", "R_PAREN", BIN, A]),
    ("(a)+(b)*(c)", ["L_PAREN", A, "R_PAREN", BIN, "L_PAREN", A, "R_PAREN", BIN, "L_PAREN", A, "R_PAREN"]),
    ("int(a)+b*c", ["INT_TY", "L_PAREN", A, "R_PAREN", BIN, A, BIN, A]),
    ("-a+b*c", [slot("UNOP"), A, BIN, A, BIN, A]),
    ("a+b*-c", [A, BIN, A, BIN, slot("UNOP"), A]),
    ("--a+b", [slot("UNOP"), slot("UNOP"), A, BIN, A]),
    ("-f(a)[b]+c", [slot("UNOP"), A, "L_PAREN", A, "R_PAREN", "L_BRACK", A, "R_BRACK", BIN, A]),
    ("1+2*3", ["INT_NUMBER", BIN, "FLOAT_NUMBER", BIN, "INT_NUMBER"]),
]
# contexts in which the expression is placed (assignment RHS is a known C04 finding, so an initializer is used)
CONTEXTS = {
    "init": (["INT_TY", "IDENT", "EQ"], ["SEMICOLON"]),
    "cond": (["IF_KW", "L_PAREN"], ["R_PAREN", "L_CURLY", "R_CURLY"]),
    "arg": (["IDENT", "L_PAREN"], ["R_PAREN", "SEMICOLON"]),
    "index": (["INT_TY", "IDENT", "EQ", "IDENT", "L_BRACK"], ["R_BRACK", "SEMICOLON"]),
}

BINSPELL = {tuple(v[0]): (k, v[1], v[2]) for k, v in G.BINOPS.items()}
UNSPELL = {"MINUS": "-", "BANG": "!", "TILDE": "~"}


# ------------------------------------------------------------------ reference parser (oracle)
def ref_parse(items):
    """items: list of ('atom', idx) | ('un', idx, name) | ('bin', idx, name) | ('(', idx) | (')', idx) | ('[', idx) | (']', idx) | ('type', idx)
    returns s-expression.  Precedence climbing over the OpenQASM 3 table."""
    pos = [0]

    def peek():
        return items[pos[0]] if pos[0] < len(items) else None

    def nxt():
        it = items[pos[0]]; pos[0] += 1
        return it

    def primary():
        it = nxt()
        if it[0] == "atom":
            e = ("leaf", it[1])
        elif it[0] == "(":
            e = ("paren", expr(0))
            assert nxt()[0] == ")"
        elif it[0] == "type":
            assert nxt()[0] == "("
            e = ("cast", it[1], expr(0))
            assert nxt()[0] == ")"
        else:
            raise ValueError(it)
        while peek() is not None and peek()[0] in ("(", "["):
            o = nxt()
            inner = expr(0)
            c = nxt()
            e = ("call", e, inner) if o[0] == "(" else ("index", e, inner)
        return e

    def unary():
        it = peek()
        if it[0] == "un":
            nxt()
            # unary operators bind looser than ** only: operand is a power-expression
            operand = unary()
            return climb(("pre", it[1], operand), G.UNARY_LEVEL + 1, inside_unary=True) if False else ("pre", it[1], operand)
        return primary()

    def expr(minlevel):
        lhs = unary_with_pow()
        return climb(lhs, minlevel)

    def unary_with_pow():
        # grammar: power binds tighter than unary: -a**b = -(a**b); a**-b = a**(-b)
        it = peek()
        if it[0] == "un":
            nxt()
            operand = unary_with_pow()
            return ("pre", it[1], operand)
        base = primary()
        it = peek()
        if it is not None and it[0] == "bin" and it[2] == "**":
            nxt()
            rhs = unary_with_pow()     # right associative; exponent may be a unary expression
            return ("bin", base, it[1], rhs)
        return base

    def climb(lhs, minlevel):
        while True:
            it = peek()
            if it is None or it[0] != "bin":
                return lhs
            name = it[2]
            _, level, assoc = G.BINOPS[name]
            if name == "**" or level < minlevel:
                return lhs
            nxt()
            rhs = unary_with_pow()
            rhs = climb(rhs, level + 1 if assoc == "L" else level)
            lhs = ("bin", lhs, it[1], rhs)
    e = expr(0)
    assert pos[0] == len(items), "reference parser did not consume the whole expression"
    return e


# ------------------------------------------------------------------ actual tree -> s-expression
def build_tree(steps):
    """steps -> nested [kind, children]; tokens are ('tok', kind, first_raw_index, n_raw)"""
    root = [None, []]
    stack = [root]
    pos = 0
    for s in steps:
        if s[0] == "enter":
            n = [s[1], []]
            stack[-1][1].append(n); stack.append(n)
        elif s[0] == "exit":
            stack.pop()
        elif s[0] == "token":
            stack[-1][1].append(("tok", s[1], pos, s[2])); pos += s[2]
    return root[1][0]


def find_expr(node, lo, hi):
    """smallest node whose tokens are exactly raw positions [lo, hi)"""
    def span(n):
        if isinstance(n, tuple):
            return n[2], n[2] + n[3]
        ss = [span(c) for c in n[1]]
        ss = [x for x in ss if x is not None]
        if not ss:
            return None
        return ss[0][0], ss[-1][1]
    best = None

    def walk(n):
        nonlocal best
        if isinstance(n, tuple):
            return
        sp = span(n)
        if sp == (lo, hi):
            best = n            # innermost wins
        for c in n[1]:
            walk(c)
    walk(node)
    return best


def sexpr(kit, n):
    K = kit.K; names = kit.names
    if isinstance(n, tuple):
        return ("leaf", n[2])
    kind = names.get(n[0], "?")
    ch = n[1]
    nodes = [c for c in ch if not isinstance(c, tuple)]
    toks = [c for c in ch if isinstance(c, tuple)]
    if kind in ("IDENTIFIER", "LITERAL", "NAME", "HARDWARE_QUBIT"):
        return ("leaf", toks[0][2])
    if kind == "BIN_EXPR":
        if len(nodes) != 2 or len(toks) != 1:
            return ("malformed", kind)
        return ("bin", sexpr(kit, nodes[0]), toks[0][2], sexpr(kit, nodes[1]))
    if kind == "PREFIX_EXPR":
        return ("pre", toks[0][2], sexpr(kit, nodes[0])) if nodes and toks else ("malformed", kind)
    if kind == "PAREN_EXPR":
        return ("paren", sexpr(kit, nodes[0])) if nodes else ("malformed", kind)
    if kind == "CALL_EXPR":
        args = flatten_args(kit, nodes[1]) if len(nodes) > 1 else []
        return ("call", sexpr(kit, nodes[0]), args[0] if len(args) == 1 else tuple(args))
    if kind in ("INDEX_EXPR", "INDEXED_IDENTIFIER"):
        idx = flatten_args(kit, nodes[1]) if len(nodes) > 1 else []
        return ("index", sexpr(kit, nodes[0]), idx[0] if len(idx) == 1 else tuple(idx))
    if kind == "CAST_EXPRESSION":
        ty = nodes[0]
        tt = [c for c in ty[1] if isinstance(c, tuple)]
        return ("cast", tt[0][2], sexpr(kit, nodes[1])) if len(nodes) > 1 else ("malformed", kind)
    if kind in ("EXPR_STMT",) and len(nodes) == 1:
        return sexpr(kit, nodes[0])
    return ("node", kind) + tuple(sexpr(kit, c) for c in nodes)


def flatten_args(kit, n):
    names = kit.names
    kind = names.get(n[0], "?")
    nodes = [c for c in n[1] if not isinstance(c, tuple)]
    if kind in ("ARG_LIST", "EXPRESSION_LIST", "INDEX_OPERATOR"):
        out = []
        for c in nodes:
            out += flatten_args(kit, c)
        return out
    return [sexpr(kit, n)]


def show(e, toks):
    if e[0] == "leaf":
        return toks[e[1]]
    if e[0] == "bin":
        return f"({show(e[1], toks)} {toks[e[2]]} {show(e[3], toks)})"
    if e[0] == "pre":
        return f"({toks[e[1]]}{show(e[2], toks)})"
    if e[0] == "paren":
        return f"[{show(e[1], toks)}]"
    if e[0] in ("call", "index"):
        a = e[2]
        inner = show(a, toks) if a and isinstance(a[0], str) else ",".join(show(x, toks) for x in a)
        return f"{show(e[1], toks)}{'(' if e[0] == 'call' else '['}{inner}{')' if e[0] == 'call' else ']'}"
    if e[0] == "cast":
        return f"{toks[e[1]]}({show(e[2], toks)})"
    return str(e)


# ------------------------------------------------------------------ harness
class Family:
    def __init__(self, known, seed):
        self.kit = ParserKit()
        self.known = known; self.seed = seed
        self.ex = Exec(self.kit.prog, self.kit.models, max_steps=3000000)

    def harness(self, task):
        return PrecHarness(self, task)

    def exec_for(self, h):
        return self.ex


class PrecHarness:
    def __init__(self, fam, task):
        self.fam = fam; self.kit = fam.kit
        self.name, self.shape, self.ctx = task

    def run(self, ex):
        kit = self.kit; K = kit.K
        pre, suf = CONTEXTS[self.ctx]
        inst = skel.instantiate(kit, list(pre) + list(self.shape) + list(suf))
        self.inst = inst
        for c in inst.cons:
            ex.add_constraint(c)
        words, jc = skel.joint_word(inst)
        for c in jc:
            ex.add_constraint(c)
        out = ex.call("TopEntryPoint::parse", [Ref([0], 0), Ref([[VecV(list(inst.toks)), VecV(list(words))]], 0)])
        steps = kit.decode(out)
        if any(s[0] == "error" for s in steps):
            return ("rejected", [])
        lo, hi = len(pre), len(inst.toks) - len(suf)
        tree = build_tree(steps)
        node = find_expr(tree, lo, hi)
        if node is None:
            raise Violation(f"no single expression node spans the expression tokens [{lo},{hi})", {"assign": None})
        actual = sexpr(kit, node)
        # enumerate every operator assignment admitted on this path
        varlist = [t for t in inst.toks if isinstance(t, SV)]
        checked = []
        sol = z3.Solver()
        for c, _ in ex.pc:
            sol.add(c)
        while True:
            ex.solver_calls += 1
            if sol.check() != z3.sat:
                break
            m = sol.model()
            vals = {v.e.decl().name(): m.eval(v.e, model_completion=True).as_long() for v in varlist}
            sol.add(z3.Or([v.e != vals[v.e.decl().name()] for v in varlist]) if varlist else z3.BoolVal(False))
            ks = [t if isinstance(t, int) else vals[t.e.decl().name()] for t in inst.toks]
            exp, toknames = self.expected(ks, lo, hi)
            ex.obligations += 1
            ok = (exp == actual)
            checked.append((ok, [kit.names[k] for k in ks[lo:hi]], show(exp, toknames), show(actual, toknames), self.opnames(ks), exp, actual))
            if not varlist:
                break
        return ("accepted", checked)

    def opnames(self, ks):
        kit = self.kit
        out = []
        for first, L, which in self.inst.ops:
            sp = tuple(kit.names[ks[first + j]] for j in range(L))
            out.append(BINSPELL.get(sp, ("?",))[0])
        for i, cls in self.inst.slots:
            if cls == "UNOP":
                out.append("u" + UNSPELL.get(kit.names[ks[i]], "?"))
        return out

    def expected(self, ks, lo, hi):
        kit = self.kit
        items = []
        toknames = {}
        opstart = {first: L for first, L, _ in self.inst.ops}
        i = lo
        unslots = {i_ for i_, cls in self.inst.slots if cls == "UNOP"}
        while i < hi:
            nm = kit.names[ks[i]]
            if i in opstart:
                L = opstart[i]
                sp = tuple(kit.names[ks[i + j]] for j in range(L))
                name = BINSPELL[sp][0]
                items.append(("bin", i, name)); toknames[i] = name
                i += L; continue
            if i in unslots:
                items.append(("un", i, UNSPELL[nm])); toknames[i] = UNSPELL[nm]
            elif nm in ("IDENT", "INT_NUMBER", "FLOAT_NUMBER"):
                items.append(("atom", i)); toknames[i] = "abcdefghij"[len([x for x in items if x[0] == "atom"]) - 1]
            elif nm == "L_PAREN":
                items.append(("(", i))
            elif nm == "R_PAREN":
                items.append((")", i))
            elif nm == "L_BRACK":
                items.append(("[", i))
            elif nm == "R_BRACK":
                items.append(("]", i))
            elif nm.endswith("_TY"):
                items.append(("type", i)); toknames[i] = nm[:-3].lower()
            else:
                raise Unsupported("skeleton token " + nm)
            i += 1
        return ref_parse(items), toknames

    def describe(self, ex, outcome, detail):
        if outcome == "ok":
            return ("ok", self.name, self.ctx, detail[0], detail[1], ex.obligations)
        return ("fail", outcome, f"{outcome}|{self.name}@{self.ctx}|{detail['msg']}", None, None, None)


def famfactory(known, seed):
    def f():
        return Family(known, seed)
    return f


def classify(known, fact):
    for k in known:
        expr_ = k.get("match")
        if not expr_:
            continue
        try:
            if eval(expr_, {"__builtins__": {"any": any, "all": all, "len": len, "set": set}}, dict(fact)):
                return k["id"]
        except Exception:
            continue
    return None


def run(ctx):
    res = Result()
    kit = ParserKit()
    exprs = EXPRS_QUICK if ctx.quick() else EXPRS_THOROUGH
    ctxs = ["init", "cond"] if ctx.quick() else list(CONTEXTS)
    tasks = []
    for name, sk in exprs:
        for shape in skel.expand_shapes(sk):
            for c in (ctxs if name in ("a+b*c", "-a+b") else ctxs[:1]):
                tasks.append((name, shape, c))
    ctx.log(f"{len(tasks)} expression skeleton instances")
    bad = collections.OrderedDict()
    n_accept = n_reject = n_assign = 0
    samples = []

    def on_result(idx, task, recs, left, stats, err):
        nonlocal n_accept, n_reject, n_assign
        if err:
            res.inconclusive.append(err[:400])
        if left:
            res.inconclusive.append(f"{task[0]} not exhausted")
        for r in recs:
            if r[0] != "ok":
                res.inconclusive.append(f"{r[1]}: {r[2][:300]}")
                continue
            res.obligations += r[5]
            if r[3] == "rejected":
                n_reject += 1
                continue
            n_accept += 1
            for ok, toks, exp, act, ops, exp_s, act_s in r[4]:
                n_assign += 1
                if ok:
                    if len(samples) < 400 and (hash((exp, idx)) + ctx.seed) % 7 == 0:
                        samples.append((task, toks, exp, act, ops, exp_s, act_s))
                else:
                    key = (task[0], tuple(ops))
                    bad.setdefault(key, (task, toks, exp, act, ops, exp_s, act_s))
    st, errs = explore.explore_many(famfactory(ctx.known, ctx.seed), tasks, workers=ctx.workers, on_result=on_result, log=ctx.log)
    res.merge_stats(st)
    ctx.log(f"{st.get('paths', 0)} paths; accepted paths {n_accept}, rejected (diagnostics; outside this property) {n_reject}; operator assignments decided {n_assign}; mismatching {len(bad)}")
    res.extra.update({"operator_assignments_decided": n_assign, "mismatching_assignments": len(bad), "paths_with_diagnostics": n_reject})
    # native validation: the natively parsed tree of a concrete instance must give the same s-expression
    def native_sexpr(task, toks_names):
        pre, suf = CONTEXTS[task[2]]
        ks = [kit.K[x] for x in pre] + [kit.K[x] for x in toks_names] + [kit.K[x] for x in suf]
        js = [0] * len(ks)
        # joint bits inside multi-token operators
        i = len(pre)
        while i < len(pre) + len(toks_names) - 1:
            sp2 = (toks_names[i - len(pre)], toks_names[i - len(pre) + 1])
            if sp2 in BINSPELL:
                js[i] = 1; i += 2
            else:
                i += 1
        o = native.run_one("parse_kinds " + ",".join(map(str, ks)) + " " + ",".join(map(str, js)), "dev")
        if native.failed(o) or any(s[0] == "error" for s in o["steps"]):
            return None
        tree = build_tree([tuple(s) for s in o["steps"]])
        node = find_expr(tree, len(pre), len(ks) - len(suf))
        return sexpr(kit, node) if node else None
    for task, toks, exp, act, ops, exp_s, act_s in samples[:150]:
        nat = native_sexpr(task, toks)
        if nat != exp_s:
            res.inconclusive.append(f"engine: tree equals the table's nesting {exp}; native tree differs for {toks}")
        else:
            res.validated += 1
    known_by_id = {k["id"]: k for k in ctx.known}
    hits = collections.OrderedDict()
    for key, (task, toks, exp, act, ops, exp_s, act_s) in bad.items():
        fact = {"skeleton": task[0], "ops": ops, "expected": exp, "actual": act, "binops": [o for o in ops if not o.startswith("u")], "unops": [o for o in ops if o.startswith("u")]}
        kid = classify(ctx.known, fact)
        # confirm natively on the concrete instance: the real parser's tree must differ from the oracle too
        pre, suf = CONTEXTS[task[2]]
        nat = native_sexpr(task, toks)
        if nat is None or nat != act_s or nat == exp_s:
            res.inconclusive.append(f"mismatch does not reproduce natively: {toks}: engine {act}, expected {exp}")
            continue
        # rebuild the expectation for comparison in s-expression form is implicit: native tree printed
        res.validated += 1
        if kid is not None:
            hits.setdefault(kid, []).append((ops, exp, act))
            continue
        what = {"skeleton": task[0], "context": task[2], "operators": ops, "tokens": toks, "expected_nesting": exp, "parser_nesting": act}
        rp = os.path.join(ctx.replay_dir, "prec_" + hashlib.sha1(json.dumps(what, sort_keys=True).encode()).hexdigest()[:10] + ".json")
        json.dump({"property": "C05", "what": what}, open(rp, "w"), indent=1)
        res.violations.append({"what": json.dumps(what), "replay": rp})
        if len(res.samples) < 8:
            res.samples.append(what)
    for kid, lst in hits.items():
        e = lst[0]
        res.known_hits.append(f"{kid}: {known_by_id[kid].get('what', '')} ({len(lst)} operator assignments, e.g. {' '.join(e[0])}: expected {e[1]}, parser {e[2]})")
    for task, toks, exp, act, ops, exp_s, act_s in samples[:3]:
        res.samples.append({"skeleton": task[0], "operators": ops, "nesting": act, "outcome": "equals the table's nesting"})
    res.functions_encoded += ["oq3_parser::TopEntryPoint::parse (whole parser; expr_bp, current_op, lhs, postfix_expr, precede/extend_to, event::process)"]
    res.bounds.update({"skeletons": [e[0] for e in exprs], "contexts": ctxs, "binary_operators": 19, "unary_operators": 3,
                       "operator_assignments": "all (enumerated per path with blocking clauses)"})
    res.assumptions += ["operator table of /verif/spec/grammar.py = OpenQASM 3 precedence table"]
    from . import c05_roles
    c05_roles.run_roles(ctx, res)
    res.outside_claim += ["accessor roles beyond the hand-written accessors listed in functions_encoded (generated child-by-type accessors)", "expressions with more than 4 operands"]
    res.exhaustive = not res.inconclusive
    return res


def replay(ctx, path):
    print(open(path).read())
    return 1
