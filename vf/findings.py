"""Matching of failing paths against /verif/known_findings.json (never written at run time).

An entry: {"property","id","status":"open"|"fixed","site": regex over "<outcome>|<function>|<message>",
           "pattern": optional python expression over the harness' pattern environment that builds a z3
                      Bool; the failing path matches only if  path-condition => pattern  (solver-checked),
           "what": text printed after KNOWN-FINDING}
"""
import re
import z3


def match_known(ex, known, site, env):
    """returns id of the matching open entry or None"""
    for k in known:
        if not re.search(k["site"], site):
            continue
        pat = k.get("pattern")
        if not pat:
            return k["id"]
        ns = {"And": z3.And, "Or": z3.Or, "Not": z3.Not, "Implies": z3.Implies, "z3": z3}
        ns.update(env)
        ns["__builtins__"] = {"range": range, "len": len, "any": any, "all": all, "min": min, "max": max}
        try:
            cond = eval(pat, ns)
        except Exception as e:
            import sys
            sys.stderr.write(f"known-finding pattern {k['id']} failed to evaluate: {e!r}\n")
            continue
        if cond is True:
            return k["id"]
        if cond is False:
            continue
        if ex.check_sat(z3.Not(cond)) is None:
            return k["id"]
    return None
