"""Skeleton instantiation: turns a /verif/spec/grammar.py skeleton into symbolic tokens + constraints."""
import os, sys, importlib.util
import z3
from .interp import SV

_spec = None


def spec():
    global _spec
    if _spec is None:
        p = os.path.join(os.path.dirname(os.path.dirname(os.path.abspath(__file__))), "spec", "grammar.py")
        s = importlib.util.spec_from_file_location("verif_spec_grammar", p)
        m = importlib.util.module_from_spec(s)
        s.loader.exec_module(m)
        _spec = m
    return _spec


class Inst:
    """tokens (SV or int), constraints (z3 Bool list), forced joint bits {index: 0/1}, op slots"""
    def __init__(self):
        self.toks = []
        self.cons = []
        self.forced_joint = {}
        self.ops = []        # (first_token_index, ntoks, which) for binop slots
        self.slots = []      # (token_index, class)


def expand_shapes(skeleton):
    """operator slots have 1-3 raw tokens: enumerate the length of each op slot"""
    G = spec()
    shapes = [[]]
    for it in skeleton:
        if isinstance(it, tuple) and it[0] == "binop":
            lens = sorted({len(v[0]) for v in G.BINOPS.values()})
            shapes = [s + [("binop", L)] for s in shapes for L in lens]
        elif isinstance(it, tuple) and it[0] == "cmpassign":
            lens = sorted({len(v) for v in G.CMPASSIGN.values()})
            shapes = [s + [("cmpassign", L)] for s in shapes for L in lens]
        else:
            shapes = [s + [it] for s in shapes]
    return shapes


def instantiate(kit, shape, prefix="k"):
    G = spec(); K = kit.K
    inst = Inst()
    nvar = [0]

    def newtok():
        i = len(inst.toks)
        v = SV(z3.BitVec(f"{prefix}{i}", 16), 16)
        inst.toks.append(v)
        return i, v
    for it in shape:
        if isinstance(it, str):
            inst.toks.append(K[it])
        elif it[0] == "slot":
            i, v = newtok()
            inst.cons.append(z3.Or([v.e == K[n] for n in G.CLASSES[it[1]]]))
            inst.slots.append((i, it[1]))
        elif it[0] == "joint":
            first = len(inst.toks)
            for kn in it[1]:
                inst.toks.append(K[kn])
            for j in range(len(it[1]) - 1):
                inst.forced_joint[first + j] = 1
        elif it[0] in ("binop", "cmpassign"):
            L = it[1]
            table = {k_: v[0] for k_, v in G.BINOPS.items()} if it[0] == "binop" else G.CMPASSIGN
            spellings = [sp for sp in table.values() if len(sp) == L]
            first = len(inst.toks)
            vs = [newtok()[1] for _ in range(L)]
            inst.cons.append(z3.Or([z3.And([vs[j].e == K[sp[j]] for j in range(L)]) for sp in spellings]))
            for j in range(L - 1):
                inst.forced_joint[first + j] = 1
            inst.ops.append((first, L, it[0]))
        else:
            raise ValueError(it)
    return inst


def joint_word(inst, name="joint"):
    """symbolic joint bits, with the bits inside multi-token operators forced to 1"""
    n = len(inst.toks)
    words = []
    cons = []
    for w in range(n // 64 + 1):
        j = z3.BitVec(f"{name}{w}", 64)
        for i, b in inst.forced_joint.items():
            if i // 64 == w:
                cons.append(z3.Extract(i % 64, i % 64, j) == b)
        words.append(SV(j, 64))
    return words, cons


def op_name(kit, inst, model, opslot):
    """which operator a model picked for an op slot"""
    G = spec()
    first, L, which = opslot
    ks = [model.get(f"k{first + j}") for j in range(L)]
    table = {k_: v[0] for k_, v in G.BINOPS.items()} if which == "binop" else G.CMPASSIGN
    for name, sp in table.items():
        if len(sp) == L and all(kit.K[sp[j]] == ks[j] for j in range(L)):
            return name
    return "?"
