"""Tiny regex -> z3 engine over a fixed-length list of (symbolic) code points.

A regex is built from   cls(pred) | lit("abc") | seq(a, b, ..) | alt(a, b, ..) | star(a) | plus(a) | opt(a)
where pred maps a char term (z3 BitVec 32) to a z3 Bool.  `ends(rx, chars)` returns, for every p in 0..len(chars),
the z3 Bool "chars[0:p] is matched by rx" (NFA simulation, Thompson construction).  Used for the reference lexeme
grammar (/verif/spec/lexemes.py): oracles that are independent of the lexer's own flags and token boundaries.
"""
import z3


class _NFA:
    def __init__(self):
        self.n = 0
        self.eps = {}     # state -> [states]
        self.tr = {}      # state -> [(pred, state)]

    def new(self):
        s = self.n; self.n += 1
        self.eps[s] = []; self.tr[s] = []
        return s


def cls(pred):
    return ("cls", pred)


def ch(c):
    o = ord(c)
    return ("cls", lambda e: e == o)


def anyof(s):
    os_ = [ord(c) for c in s]
    return ("cls", lambda e: z3.Or([e == o for o in os_]))


def rng(a, b):
    return ("cls", lambda e: z3.And(z3.UGE(e, ord(a)), z3.ULE(e, ord(b))))


def lit(s):
    return ("seq", [ch(c) for c in s])


def seq(*xs):
    return ("seq", list(xs))


def alt(*xs):
    return ("alt", list(xs))


def star(x):
    return ("star", x)


def plus(x):
    return ("seq", [x, ("star", x)])


def opt(x):
    return ("alt", [x, ("seq", [])])


def _build(nfa, rx):
    k = rx[0]
    if k == "cls":
        a, b = nfa.new(), nfa.new()
        nfa.tr[a].append((rx[1], b))
        return a, b
    if k == "seq":
        a = nfa.new(); cur = a
        for x in rx[1]:
            s, e = _build(nfa, x)
            nfa.eps[cur].append(s); cur = e
        return a, cur
    if k == "alt":
        a, b = nfa.new(), nfa.new()
        for x in rx[1]:
            s, e = _build(nfa, x)
            nfa.eps[a].append(s); nfa.eps[e].append(b)
        return a, b
    if k == "star":
        a, b = nfa.new(), nfa.new()
        s, e = _build(nfa, rx[1])
        nfa.eps[a] += [s, b]; nfa.eps[e] += [s, b]
        return a, b
    raise ValueError(k)


def _eps_reach(nfa):
    reach = {}
    for s in range(nfa.n):
        seen = {s}; todo = [s]
        while todo:
            x = todo.pop()
            for t in nfa.eps[x]:
                if t not in seen:
                    seen.add(t); todo.append(t)
        reach[s] = seen
    return reach


def _closure(nfa, active):
    """active: dict state -> z3 Bool; add every epsilon-reachable state"""
    reach = nfa.__dict__.get("_reach")
    if reach is None:
        reach = _eps_reach(nfa); nfa._reach = reach
    out = {}
    for s, cond in active.items():
        for t in reach[s]:
            cur = out.get(t)
            out[t] = cond if cur is None else z3.Or(cur, cond)
    return out


def ends(rx, chars):
    """list of z3 Bools acc[p] (p = 0..len(chars)): chars[0:p] matches rx"""
    nfa = _NFA()
    s0, acc = _build(nfa, rx)
    def term(c):
        return c.e if hasattr(c, "e") else z3.BitVecVal(c, 32)
    active = _closure(nfa, {s0: z3.BoolVal(True)})
    out = [z3.simplify(active.get(acc, z3.BoolVal(False)))]
    for c in chars:
        e = term(c)
        nxt = {}
        for s, cond in active.items():
            for pred, t in nfa.tr[s]:
                v = z3.And(cond, pred(e))
                nxt[t] = v if t not in nxt else z3.Or(nxt[t], v)
        active = _closure(nfa, nxt)
        active = {s: z3.simplify(c_) for s, c_ in active.items()}
        active = {s: c_ for s, c_ in active.items() if not z3.is_false(c_)}
        out.append(active.get(acc, z3.BoolVal(False)))
    return out


def matches(rx, chars):
    return ends(rx, chars)[len(chars)]


def starts_with(rx, chars, lookahead=None):
    """some prefix chars[0:p] matches rx and (p == len or lookahead(chars[p]))"""
    acc = ends(rx, chars)
    alts = []
    for p, a in enumerate(acc):
        if z3.is_false(a):
            continue
        if p == len(chars) or lookahead is None:
            alts.append(a)
        else:
            c = chars[p]
            e = c.e if hasattr(c, "e") else z3.BitVecVal(c, 32)
            alts.append(z3.And(a, lookahead(e)))
    return z3.Or(alts) if alts else z3.BoolVal(False)
