"""Lexer explorations shared by C01 (lexer part), C11(a), C14:

 token(n):  one Cursor::advance_token on an arbitrary string of n symbolic code points (the cursor carries no state
            across tokens except its position, which is asserted, so this is the inductive step for whole strings)
 whole(m):  LexedStr::new on an arbitrary string of m symbolic code points (Converter offsets, slicing, keyword
            mapping, error table)
"""
import hashlib, json, os, re, collections
import z3
from . import explore, native, findings, strmodel, mirdump
from .interp import Exec, SV, SB, EnumV, VecV, Ref, Panic, Unsupported, Violation, StepLimit
from .lexer_kit import LexerKit
from .strmodel import SymStr, StrSlice, CharsV, LenV, span_len

_FIELDS = None


def enum_fields():
    """variant -> field names, scraped from crates/oq3_lexer/src/lib.rs"""
    global _FIELDS
    if _FIELDS is None:
        src = open(os.path.join(mirdump.REPO, "crates/oq3_lexer/src/lib.rs"), encoding="utf-8").read()
        src = re.sub(r"//[^\n]*", "", src)
        _FIELDS = {}
        for m in re.finditer(r"\b([A-Z][A-Za-z0-9]*)\s*\{([^{}]*)\}", src):
            names = re.findall(r"([a-z_][a-z_0-9]*)\s*:", m.group(2))
            if names:
                _FIELDS.setdefault(m.group(1), names)
    return _FIELDS


def lenval(x, model=None):
    if isinstance(x, LenV):
        x = x.norm()
    if isinstance(x, LenV):
        v = x.const
        for k, c in x.terms.items():
            ch = x.s.chars[k]
            cv = (model or {}).get(ch.e.decl().name(), 0x61)
            v += c * strmodel.len8_c(cv)
        return v
    if isinstance(x, SV):
        e = x.e
        if model is not None:
            subs = []
        raise Unsupported("symbolic length")
    return x


def render_kind(kit, k, model):
    """Debug rendering of a TokenKind/LiteralKind/Base value, as rustc's derive(Debug) prints it"""
    F = enum_fields()
    if isinstance(k, EnumV):
        vs = kit.prog.enums[k.ty][0]
        name = vs[k.idx]
        if not k.fields:
            return name
        fn = F.get(name, [f"_{i}" for i in range(len(k.fields))])
        parts = []
        for n_, v in zip(fn, k.fields):
            parts.append(f"{n_}: {render_kind(kit, v, model)}")
        return name + " { " + ", ".join(parts) + " }"
    if isinstance(k, bool):
        return "true" if k else "false"
    if isinstance(k, SB):
        raise Unsupported("symbolic flag in token")
    if isinstance(k, (LenV,)):
        return str(lenval(k, model))
    if isinstance(k, int):
        return str(k)
    raise Unsupported("render " + repr(k))


def render_base(kit, disc):
    vs, hasf, discs = kit.prog.enums["Base"]
    return vs[discs.index(disc)] if discs else vs[disc]


def render_token(kit, tok, model):
    k = tok[0]
    if not isinstance(k, EnumV):
        k = EnumV("TokenKind", kit.prog.idx_of_disc("TokenKind", k), [])
    s = render_kind_fix(kit, k, model)
    return [s, lenval(tok[1], model)]


def render_kind_fix(kit, k, model):
    # Base is a fieldless enum stored as its discriminant
    F = enum_fields()
    vs = kit.prog.enums[k.ty][0]
    name = vs[k.idx]
    if not k.fields:
        return name
    fn = F.get(name, [])
    parts = []
    for n_, v in zip(fn, k.fields):
        if n_ == "base" and isinstance(v, int):
            parts.append(f"{n_}: {render_base(kit, v)}")
        elif isinstance(v, EnumV):
            parts.append(f"{n_}: {render_kind_fix(kit, v, model)}")
        else:
            parts.append(f"{n_}: {render_kind(kit, v, model)}")
    return name + " { " + ", ".join(parts) + " }"


class TokenHarness:
    """one advance_token on n symbolic chars"""
    def __init__(self, n, seed, checks=("c14",)):
        self.n = n; self.seed = seed; self.checks = checks

    def make_exec(self):
        self.kit = LexerKit()
        ex = Exec(self.kit.prog, self.kit.models, max_steps=20000 * (self.n + 2))
        ex.use_inc = False       # full Unicode tables: fresh solvers on the relevant slice are much faster than one incremental solver
        return ex

    def run(self, ex):
        kit = self.kit; n = self.n
        s = kit.sym_string(n)
        self.s = s
        kit.constrain(ex, s)
        cur = kit.new_cursor(ex, s)
        tok = kit.advance(ex, cur)
        ch = kit.cursor_chars(cur)
        j = ch.i
        self.tok = tok; self.j = j
        kname = kit.kind_name(tok)
        L = tok[1]
        ex.obligations += 1
        if n == 0:
            if kname != "Eof" or lenval(L) != 0:
                raise Violation("empty input does not give Eof/0")
            return (kname, 0)
        if kname == "Eof":
            raise Violation("Eof token on non-empty input (lexing would stop before the end)")
        if j < 1:
            raise Violation("advance_token consumed no character")
        # token length == byte length of the consumed chars  (=> ends on a char boundary, non-zero)
        want = span_len(s, 0, j)
        self.same_len(ex, L, want, "token length differs from the byte length of the characters consumed")
        # the cursor's bookkeeping is reset: len_remaining == remaining byte length
        lr = cur[0] if not isinstance(cur[0], CharsV) else cur[1]
        self.same_len(ex, lr, span_len(s, j, n), "cursor.len_remaining not reset to the remaining length")
        k = tok[0]
        if isinstance(k, EnumV) and kit.TK[k.idx] == "Literal":
            ss = k.fields[1]
            ex.obligations += 1
            d = strmodel.lenv_binop(ex, "Le", ss if isinstance(ss, LenV) else ss, L if isinstance(L, LenV) else L) if (isinstance(ss, LenV) or isinstance(L, LenV)) else (ss <= L)
            if d is None:
                raise Unsupported("suffix_start comparison")
            if isinstance(d, SB):
                ex.prove(d.e, "literal suffix_start exceeds the token length")
            elif not d:
                raise Violation("literal suffix_start exceeds the token length")
        return (kname, j)

    def same_len(self, ex, got, want, msg):
        ex.obligations += 1
        g = got.norm() if isinstance(got, LenV) else got
        w = want.norm() if isinstance(want, LenV) else want
        if isinstance(g, LenV) and isinstance(w, LenV):
            if g.terms == w.terms and g.const == w.const:
                return
            ex.prove(g.to_sv().e == w.to_sv().e if g.w == w.w else z3.ZeroExt(64 - g.w, g.to_sv().e) == w.to_sv().e, msg)
            return
        if isinstance(g, int) and isinstance(w, int):
            if g != w:
                raise Violation(msg + f" ({g} vs {w})")
            return
        ge = g.to_sv() if isinstance(g, LenV) else g
        we = w.to_sv() if isinstance(w, LenV) else w
        ge = ge.e if isinstance(ge, SV) else z3.BitVecVal(ge, 64)
        we = we.e if isinstance(we, SV) else z3.BitVecVal(we, 64)
        if ge.size() < 64:
            ge = z3.ZeroExt(64 - ge.size(), ge)
        if we.size() < 64:
            we = z3.ZeroExt(64 - we.size(), we)
        ex.prove(ge == we, msg)

    def describe(self, ex, outcome, detail):
        kit = self.kit
        if outcome == "ok":
            h = hashlib.sha256((str(self.seed) + ":" + ",".join(map(str, ex.decisions))).encode()).digest()
            rate = 256 if self.n <= 2 else (40 if self.n <= 4 else 6)
            if h[0] >= rate:
                return ("ok", detail[0], ex.obligations)
            model = ex.model() or {}
            text = kit.concrete_string(self.s, model)
            try:
                rt = render_token(kit, self.tok, model)
            except Unsupported:
                return ("ok", detail[0], ex.obligations)
            return ("sample", detail[0], ex.obligations, text, rt)
        model = ex.model() or {}
        text = kit.concrete_string(self.s, model)
        fn = detail["stack"][-1] if detail.get("stack") else "?"
        return ("fail", outcome, f"{outcome}|{fn.split('::')[-1]}|{detail['msg']}", text)


def token_factory(n, seed, checks):
    def f():
        return TokenHarness(n, seed, checks)
    return f


def native_first_token(text):
    o = native.run_one("lex " + native.hexs(text), "dev")
    return o


def run_tokens(ctx, res, N, label="lexer token"):
    """explores one advance_token for every n <= N; returns fails dict"""
    fails = {}
    samples = []
    kinds = collections.Counter()
    for n in range(0, N + 1):
        def on_records(recs):
            for r in recs:
                if r[0] in ("ok", "sample"):
                    kinds[r[1]] += 1
                    res.obligations += r[2]
                    if r[0] == "sample":
                        samples.append(r)
                else:
                    d = fails.setdefault(r[2], {"count": 0, "examples": [], "outcome": r[1]})
                    d["count"] += 1
                    if len(d["examples"]) < 3:
                        d["examples"].append(r[3])
        st, exhaustive, err = explore.explore(token_factory(n, ctx.seed, ("c14",)), workers=ctx.workers, seed=ctx.seed, on_records=on_records, log=ctx.log)
        res.merge_stats(st)
        ctx.log(f"{label} n={n}: {st.get('paths', 0)} paths ok={st.get('ok', 0)} violation={st.get('violation', 0)} panic={st.get('panic', 0)} "
                f"stuck={st.get('stuck', 0)} unsupported={st.get('unsupported', 0)} wall={st.get('wall', 0):.1f}s")
        if err:
            res.inconclusive.append(err[:500])
        if not exhaustive:
            res.inconclusive.append(f"{label} n={n} not exhausted")
    res.extra["token_kinds_reached"] = dict(kinds)
    # engine validation: first native token of the model string must equal the engine's token
    lines = ["lex " + native.hexs(s[3]) for s in samples]
    outs = native.run_lines(lines, "dev") if lines else []
    for s, o in zip(samples, outs):
        if native.failed(o) or not o.get("tokens"):
            if s[3] == "":
                res.validated += 1
                continue
            res.inconclusive.append(f"engine predicts token {s[4]} for {s[3]!r}; native: {str(o)[:100]}")
            continue
        if o["tokens"][0] != s[4]:
            res.inconclusive.append(f"engine/native first token differ for {s[3]!r}: {s[4]} vs {o['tokens'][0]}")
        else:
            res.validated += 1
    for s in samples[:3]:
        res.samples.append({"input": s[3], "first_token": s[4], "outcome": "obligations proved on this path"})
    return fails


# ------------------------------------------------------------------------------------------------ whole strings
MALFORMED = {
    "BlockComment": lambda f: f[0] is False,
    "InvalidIdent": lambda f: True,
    "OpenQasmVersionStmt": lambda f: not (f[0] is True and f[1] is True),
}


def token_malformed(kit, tok):
    k = tok[0]
    if not isinstance(k, EnumV):
        return False
    name = kit.TK[k.idx]
    if name in MALFORMED:
        return MALFORMED[name](k.fields)
    if name == "Literal":
        lk = k.fields[0]
        ln = kit.LK[lk.idx]
        if ln == "Int":
            return lk.fields[1] is True
        if ln == "Float":
            return lk.fields[1] is True
        if ln in ("Str", "Byte", "BitStr"):
            return lk.fields[0] is False
    return False


class WholeHarness:
    """tokenize(S) and LexedStr::new(S) on m symbolic chars"""
    def __init__(self, m, seed, known, prefix=""):
        self.m = m; self.seed = seed; self.known = known; self.prefix = prefix

    def make_exec(self):
        self.kit = LexerKit(("oq3_lexer", "oq3_parser"))
        self.f_lexed_new = self.kit.prog.methods.get(("LexedStr", None, "new"))
        if self.f_lexed_new is None:
            raise RuntimeError("LexedStr::new not found")
        ex = Exec(self.kit.prog, self.kit.models, max_steps=40000 * (self.m + 2))
        ex.use_inc = False
        return ex

    def run(self, ex):
        kit = self.kit; m = self.m
        s = kit.sym_string(m)
        self.s = s
        kit.constrain(ex, s)
        for i, ch in enumerate(self.prefix):
            ex.add_constraint(s.chars[i].e == ord(ch))          # prefix-anchored strings: the first characters are fixed
        # 1. the raw token stream
        cur = kit.new_cursor(ex, s)
        toks = []
        while True:
            t = kit.advance(ex, cur)
            if kit.kind_name(t) == "Eof":
                break
            toks.append(t)
            if len(toks) > m:
                raise Violation("more tokens than characters")
        self.toks = toks
        if kit.cursor_chars(cur).i != m:
            raise Violation("tokenize stops before the end of the input")
        # 2. the parser-facing table
        lexed = ex.run(self.f_lexed_new, [StrSlice(s, 0, m)])
        self.lexed = lexed
        kinds, starts, errors = lexed[1].items, lexed[2].items, lexed[3].items
        ex.obligations += 4
        if len(kinds) != len(starts) or len(kinds) != len(toks) + 1:
            raise Violation(f"token table has {len(kinds)} kinds / {len(starts)} starts for {len(toks)} tokens")
        if kinds[-1] != kit.K["EOF"]:
            raise Violation("token table does not end with EOF")
        # starts are the byte offsets of char boundaries, strictly increasing, ending at |S|
        pos = 0
        for i, st in enumerate(starts):
            j = strmodel.char_index(ex, StrSlice(s, 0, m), st, f"LexedStr.start[{i}]")
            ex.obligations += 1
            if i > 0 and j <= pos:
                raise Violation(f"LexedStr.start not strictly increasing at token {i}")
            if i == 0 and j != 0:
                raise Violation("LexedStr.start[0] != 0")
            pos = j
        if pos != m:
            raise Violation("last start offset is not the input length")
        # 3. C11(a): every malformed token has a diagnostic with its index
        errtoks = []
        for e in errors:
            errtoks.append(e[1] if isinstance(e[1], int) else e[0])
        self.errtoks = errtoks
        for i, t in enumerate(toks):
            if token_malformed(kit, t):
                ex.obligations += 1
                if i not in errtoks:
                    raise Violation(f"malformed lexeme without a lexical diagnostic: {kit.kind_name(t)} (token {i})", {"kind": render_kind_fix(kit, t[0], None)})
        for e in errtoks:
            if not (isinstance(e, int) and 0 <= e < len(toks)):
                raise Violation(f"lexical diagnostic attached to token index {e} of {len(toks)}")
        return (len(toks), len(errtoks))

    def describe(self, ex, outcome, detail):
        kit = self.kit
        if outcome == "ok":
            h = hashlib.sha256((str(self.seed) + ":" + ",".join(map(str, ex.decisions))).encode()).digest()
            if h[0] >= (256 if self.m <= 1 else 24 if self.m == 2 else 3):
                return ("ok", detail, ex.obligations)
            model = ex.model() or {}
            text = kit.concrete_string(self.s, model)
            try:
                rts = [render_token(kit, t, model) for t in self.toks]
                kinds = [k if isinstance(k, int) else None for k in self.lexed[1].items[:-1]]
                starts = [lenval(x, model) for x in self.lexed[2].items]
            except Unsupported:
                return ("ok", detail, ex.obligations)
            return ("sample", detail, ex.obligations, text, rts, kinds, starts, list(self.errtoks))
        model = ex.model() or {}
        text = kit.concrete_string(self.s, model)
        fn = detail["stack"][-1] if detail.get("stack") else "?"
        site = f"{outcome}|{fn.split('::')[-1]}|{detail['msg']}"
        kid = None
        info = detail.get("info") or {}
        for k in self.known:
            if re.search(k["site"], site) and (not k.get("kind") or re.search(k["kind"], info.get("kind", ""))):
                kid = k["id"]; break
        return ("fail", outcome, site, text, kid, info.get("kind"))


def whole_factory(m, seed, known, prefix=""):
    def f():
        return WholeHarness(m, seed, known, prefix)
    return f


# starts of the multi-character lexemes: a whole-string run of `prefix + k symbolic characters` reaches the code that only
# runs deep inside such a token (line-oriented tokens and their terminators, radix prefixes, exponents, strings, the version header)
ANCHORS = ["//", "/*", "@a", "pragma ", "#pragma ", "#dim", "0x", "0b", "0o", "1.", "1e", "1.5e", "\"0", "\"a", "'a", "$1", "OPENQASM ", "OPENQASM 3", "dt", "1n", "a/"]


def run_whole(ctx, res, M, label="LexedStr::new", anchors=None, K=1):
    fails = {}
    samples = []
    plan = [(m, "") for m in range(0, M + 1)]
    for a in (anchors or []):
        for k in range(1, K + 1):
            plan.append((len(a) + k, a))
    for m, prefix in plan:
        label_ = label if not prefix else f"{label} prefix {prefix!r}"
        def on_records(recs):
            for r in recs:
                if r[0] in ("ok", "sample"):
                    res.obligations += r[2]
                    if r[0] == "sample":
                        samples.append(r)
                else:
                    d = fails.setdefault((r[2], r[4]), {"count": 0, "examples": [], "outcome": r[1]})
                    d["count"] += 1
                    if len(d["examples"]) < 3:
                        d["examples"].append(r[3])
        st, exhaustive, err = explore.explore(whole_factory(m, ctx.seed, ctx.known, prefix), workers=ctx.workers, seed=ctx.seed, on_records=on_records, log=ctx.log)
        res.merge_stats(st)
        ctx.log(f"{label_} m={m}: {st.get('paths', 0)} paths ok={st.get('ok', 0)} violation={st.get('violation', 0)} panic={st.get('panic', 0)} "
                f"stuck={st.get('stuck', 0)} unsupported={st.get('unsupported', 0)} wall={st.get('wall', 0):.1f}s")
        if err:
            res.inconclusive.append(err[:500])
        if not exhaustive:
            res.inconclusive.append(f"{label_} m={m} not exhausted")
    lines = []
    for s in samples:
        lines.append("lex " + native.hexs(s[3])); lines.append("lexed " + native.hexs(s[3]))
    outs = native.run_lines(lines, "dev") if lines else []
    for i, s in enumerate(samples):
        o1, o2 = outs[2 * i], outs[2 * i + 1]
        if native.failed(o1) or native.failed(o2):
            res.inconclusive.append(f"native lexing failed on {s[3]!r}: {str(o1)[:80]}")
            continue
        ok = o1["tokens"] == s[4] and o2["starts"] == s[6] and [e[0] for e in o2["errors"]] == s[7] and \
            all(a is None or a == b for a, b in zip(s[5], o2["kinds"]))
        if not ok:
            res.inconclusive.append(f"engine/native differ on {s[3]!r}: tokens {s[4]} vs {o1['tokens']}; starts {s[6]} vs {o2['starts']}; errors {s[7]} vs {o2['errors']}")
        else:
            res.validated += 1
    for s in samples[:3]:
        res.samples.append({"input": s[3], "tokens": s[4], "starts": s[6], "error_tokens": s[7]})
    return fails


def determinism_scan(res):
    """the interpreted lexer / token-table functions read no hidden state (static mut, atomics, thread locals, time, randomness)"""
    bad = []
    for crate in ("oq3_lexer", "oq3_parser"):
        txt = open(mirdump.dump(crate), encoding="utf-8").read()
        for pat in (r"static mut", r"Atomic[A-Z]", r"thread_local", r"Instant::now", r"SystemTime", r"RandomState", r"rand::"):
            for m in re.finditer(pat, txt):
                line = txt[txt.rfind("\n", 0, m.start()) + 1: txt.find("\n", m.end())]
                bad.append(f"{crate}: {line.strip()[:120]}")
    res.obligations += 1
    res.extra["hidden_state_references"] = bad[:10]
    return bad


# ------------------------------------------------------------------------------------------------ C11(a) per token
_SPEC = None


def lexeme_spec():
    global _SPEC
    if _SPEC is None:
        import importlib.util, sys
        root = os.path.dirname(os.path.dirname(os.path.abspath(__file__)))
        if root not in sys.path:
            sys.path.insert(0, root)
        sp = importlib.util.spec_from_file_location("verif_spec_lexemes", os.path.join(root, "spec", "lexemes.py"))
        m = importlib.util.module_from_spec(sp)
        sp.loader.exec_module(m)
        _SPEC = m
    return _SPEC


class DiagTokenHarness(TokenHarness):
    """one advance_token, then the REAL inner_extend_token on (kind, token text).  Obligations:
       - a token whose TokenKind carries a malformation flag gets a message
       - (independent of the lexer's flags) if the input starts with a malformed lexeme per /verif/spec/lexemes.py,
         the first token gets a message"""
    def __init__(self, n, seed, known, prefix=""):
        TokenHarness.__init__(self, n, seed, ("c11",))
        self.known = known
        self.prefix = prefix
        self._speccache = {}

    def make_exec(self):
        self.kit = LexerKit(("oq3_lexer", "oq3_parser"))
        c = [f for raw, f in self.kit.prog.funcs.items() if raw.split("::")[-1] == "inner_extend_token" and f.kind == "fn"]
        if len(c) != 1:
            raise RuntimeError("inner_extend_token not found")
        self.f_iet = c[0]
        ex = Exec(self.kit.prog, self.kit.models, max_steps=30000 * (self.n + 2))
        ex.use_inc = False
        return ex

    def run(self, ex):
        kit = self.kit; n = self.n
        s = kit.sym_string(n)
        if self.prefix:
            s = SymStr([ord(c) for c in self.prefix] + s.chars, "S")
        self.s = s
        kit.constrain(ex, s)
        cur = kit.new_cursor(ex, s)
        tok = kit.advance(ex, cur)
        self.tok = tok
        j = kit.cursor_chars(cur).i
        kname = kit.kind_name(tok)
        if kname == "Eof":
            return (kname, 0)
        r = ex.run(self.f_iet, [Ref([tok[0]], 0), StrSlice(s, 0, j)])
        err, kind, ln = r[0], r[1], r[2]
        while isinstance(err, Ref):
            err = err.get()
        has_msg = len(strmodel.as_slice(err).chars()) > 0
        mal = token_malformed(kit, tok)
        ex.obligations += 1
        self.info = {"kind": render_kind_fix(kit, tok[0], None)}
        if mal and not has_msg:
            raise Violation(f"malformed lexeme without a lexical diagnostic: {kname}", self.info)
        if not has_msg:
            specs = self._speccache.get("specs")
            if specs is None:
                L = lexeme_spec()
                if self.prefix.startswith("OPENQASM"):
                    specs = {"malformed_version_header": z3.Not(L.version_wellformed(s.chars[len(self.prefix):]))}
                else:
                    specs = L.malformed_specs(s.chars)
                self._speccache["specs"] = specs
            for nm, cond in specs.items():
                ex.obligations += 1
                self.info = {"kind": render_kind_fix(kit, tok[0], None), "spec": nm}
                ex.prove(z3.Not(cond), f"input starts with a malformed lexeme ({nm}) but its token carries no lexical diagnostic", self.info)
        # the length recorded for the token table is the token's byte length
        self.same_len(ex, ln, span_len(s, 0, j), "inner_extend_token returns a length different from the token's byte length")
        return (kname, j)

    def describe(self, ex, outcome, detail):
        r = TokenHarness.describe(self, ex, outcome, detail)
        if r[0] == "fail":
            info = detail.get("info") or {}
            kid = None
            for k in self.known:
                if re.search(k["site"], r[2]) and (not k.get("kind") or re.search(k["kind"], info.get("kind", ""))):
                    kid = k["id"]; break
            return r + (kid, info.get("kind"))
        return r


def diag_factory(n, seed, known, prefix=""):
    def f():
        return DiagTokenHarness(n, seed, known, prefix)
    return f


def run_diag_tokens(ctx, res, N, prefix=""):
    fails = {}
    for n in range(1 if not prefix else 0, N + 1):
        def on_records(recs):
            for r in recs:
                if r[0] in ("ok", "sample"):
                    res.obligations += r[2]
                else:
                    d = fails.setdefault((r[2], r[4]), {"count": 0, "examples": [], "outcome": r[1], "kind": r[5]})
                    d["count"] += 1
                    if len(d["examples"]) < 3:
                        d["examples"].append(r[3])
        st, exhaustive, err = explore.explore(diag_factory(n, ctx.seed, ctx.known, prefix), workers=ctx.workers, seed=ctx.seed, on_records=on_records, log=ctx.log)
        res.merge_stats(st)
        ctx.log(f"token diagnostics {prefix!r}+n={n}: {st.get('paths', 0)} paths ok={st.get('ok', 0)} violation={st.get('violation', 0)} panic={st.get('panic', 0)} "
                f"unsupported={st.get('unsupported', 0)} wall={st.get('wall', 0):.1f}s")
        if err:
            res.inconclusive.append(err[:500])
        if not exhaustive:
            res.inconclusive.append(f"token diagnostics n={n} not exhausted")
    return fails
