"""C14 - tokens partition the input on character boundaries (DESIGN 6/C14)."""
import json, os, hashlib
from .main import Result
from . import lexcheck, native


def triage(ctx, res, fails, keyfn=lambda k: k, kidfn=lambda k: None, label="lex"):
    known_by_id = {k["id"]: k for k in ctx.known}
    seen = set()
    for key, info in sorted(fails.items(), key=lambda kv: str(kv[0])):
        site = keyfn(key); kid = kidfn(key)
        if info["outcome"] == "unsupported":
            res.inconclusive.append(f"unsupported ({info['count']} paths): {site} e.g. {info['examples'][0]!r}")
            continue
        rep = None
        for text in info["examples"]:
            bad, msg = native_partition_check(text)
            if bad:
                rep = (text, msg); break
        if rep is None:
            res.inconclusive.append(f"counterexample does not reproduce natively ({info['count']} paths): {site} e.g. {info['examples'][0]!r}")
            continue
        res.validated += 1
        if kid is not None:
            if kid not in seen:
                seen.add(kid)
                res.known_hits.append(f"{kid}: {known_by_id[kid].get('what', site)} (e.g. {rep[0]!r})")
            continue
        what = {"site": site, "paths": info["count"], "input": rep[0], "native": rep[1]}
        rp = os.path.join(ctx.replay_dir, label + "_" + hashlib.sha1(site.encode()).hexdigest()[:10] + ".json")
        json.dump({"property": ctx.pid, "input": rep[0], "what": what}, open(rp, "w"), indent=1)
        res.violations.append({"what": json.dumps(what), "replay": rp})
        res.samples.append(what)


def native_partition_check(text):
    """C14 evaluated natively on a concrete text: returns (violated, message)"""
    o = native.run_one("lex " + native.hexs(text), "dev")
    o2 = native.run_one("lexed " + native.hexs(text), "dev")
    o3 = native.run_one("lex " + native.hexs(text), "release")
    for x in (o, o2, o3):
        if native.failed(x):
            return True, "native failure: " + str(x)[:200]
    b = text.encode("utf-8")
    pos = 0
    for k, ln in o["tokens"]:
        if ln <= 0:
            return True, f"zero-length token {k}"
        pos += ln
        try:
            b[:pos].decode("utf-8")
        except UnicodeDecodeError:
            return True, f"token {k} ends inside a character"
        m = __import__("re").search(r"suffix_start: (\d+)", k)
        if m and int(m.group(1)) > ln:
            return True, "suffix_start exceeds the token length"
    if pos != len(b):
        return True, f"token lengths sum to {pos}, input has {len(b)} bytes"
    st = o2["starts"]
    if st[0] != 0 or st[-1] != len(b) or any(b_ <= a_ for a_, b_ in zip(st, st[1:])):
        return True, f"token table offsets {st} for {len(b)} bytes"
    if o3["tokens"] != o["tokens"]:
        return True, "dev and release builds lex differently"
    return False, ""


def run(ctx):
    res = Result()
    NT = 4 if ctx.quick() else 6
    MW = 2 if ctx.quick() else 3
    NT = int(os.environ.get("VERIF_C14_NT", NT)); MW = int(os.environ.get("VERIF_C14_MW", MW))
    f1 = lexcheck.run_tokens(ctx, res, NT)
    f2 = lexcheck.run_whole(ctx, res, MW, anchors=(['//', '/*', '@a', 'pragma ', '#pragma ', '"0', "'a", '0x', '1e', 'OPENQASM 3'] if ctx.quick() else lexcheck.ANCHORS), K=1 if ctx.quick() else 2)
    triage(ctx, res, f1)
    # in the whole-string harness, missing-diagnostic violations belong to C11; C14 keeps the structural ones
    f2 = {k: v for k, v in f2.items() if "without a lexical diagnostic" not in k[0]}
    triage(ctx, res, f2, keyfn=lambda k: k[0], kidfn=lambda k: None)
    bad = lexcheck.determinism_scan(res)
    if bad:
        res.violations.append({"what": "lexer code references hidden state: " + "; ".join(bad[:3]), "replay": "/verif/vf/lexcheck.py"})
    res.functions_encoded += ["oq3_lexer::Cursor::{new,advance_token,bump,first,second,eat_while,pos_within_token,reset_pos_within_token,...} (all of lib.rs scanners, cursor.rs)",
                              "oq3_lexer::tokenize", "oq3_parser::LexedStr::new", "oq3_parser::lexed_str::{Converter::*, inner_extend_token, extend_literal_func}",
                              "SyntaxKind::{from_keyword,from_scalar_type}"]
    res.bounds.update({"chars_per_token_step": NT, "chars_whole_string": MW, "code_points": "every Unicode scalar value per position (32-bit symbolic, surrogates excluded)"})
    res.stubs += ["str/Chars model: list of code points; byte lengths are exact linear forms over len_utf8 (vf/strmodel.py)",
                  "is_xid_start/is_xid_continue/is_emoji_char: range tables read from the unicode-xid / unicode-properties versions in Cargo.lock",
                  "std::iter::from_fn, array IntoIter"]
    res.assumptions += ["one advance_token from an arbitrary string is the inductive step for whole strings: the cursor carries no state across tokens except its position (len_remaining reset is asserted)"]
    res.outside_claim += ["strings whose first token needs more than the bound of characters (incl. look-ahead)", "std's UTF-8 decoding in Chars (trusted)"]
    res.exhaustive = not res.inconclusive
    return res


def replay(ctx, path):
    d = json.load(open(path))
    bad, msg = native_partition_check(d["input"])
    print("violated: " + msg if bad else "holds")
    return 1 if bad else 0
