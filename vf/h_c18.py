"""C18 - includes: ordered path search (part a, stage 1).

oq3_source_file::resolve_file_path is executed from MIR with the file system as a SYMBOLIC oracle: is_absolute(p) and
is_file(dir_i/p) are free booleans, the explicit search list is absent or holds 0-3 directories, the environment list
(get_file_search_paths_from_env, stubbed) is absent or holds 0-3 directories.  Proved on every path: the result is p if
p is absolute, else the first dir/p that is a file in the explicit list if one is given (the environment is then never
consulted), else in the environment list, else p.  Parts (b), (c) (lock-step of include parsing and analysis) need the
AST boundary.
"""
import json, os, hashlib, collections, itertools
import z3
from . import explore, native, mirdump, stdmodels
from .interp import Program, Exec, SV, SB, EnumV, VecV, Ref, UNIT, Panic, Unsupported, Violation, StepLimit
from .models import Models
from .main import Result


class PathV:
    ref_like = True

    def __init__(self, key):
        self.key = key

    def __deepcopy__(self, memo):
        return self

    def __repr__(self):
        return f"Path{self.key}"


def install_path_models(models, state):
    R = models.reg
    n0 = len(models.table)

    def deref(x):
        while isinstance(x, Ref):
            x = x.get()
        return x

    @R(r"^<.* as AsRef<Path>>::as_ref$|^<PathBuf as Deref>::deref$|^<PathBuf as From<&Path>>::from$|^Path::to_path_buf$|^<PathBuf as Clone>::clone$|^<&PathBuf as AsRef<Path>>::as_ref$")
    def _path_id(ex, c, a):
        return deref(a[0])

    @R(r"^Path::is_absolute$")
    def _is_abs(ex, c, a):
        p = deref(a[0])
        return SB(z3.Bool("abs_" + "_".join(map(str, p.key))))

    @R(r"^Path::join::<.*>$")
    def _join(ex, c, a):
        return PathV(("join",) + deref(a[0]).key + deref(a[1]).key)

    @R(r"^Path::is_file$")
    def _is_file(ex, c, a):
        p = deref(a[0])
        state["is_file_queries"].append(p.key)
        return SB(z3.Bool("isfile_" + "_".join(map(str, p.key))))

    @R(r"^core::bool::<impl bool>::then_some::<.*>$")
    def _then_some(ex, c, a):
        b = a[0]
        if ex.branch_bool(b):
            return EnumV("Option", 1, [a[1]])
        return EnumV("Option", 0, [])

    @R(r"^(core::)?slice::<impl \[.*\]>::(sort|sort_unstable|sort_by|sort_unstable_by|sort_by_key|sort_unstable_by_key|sort_by_cached_key)(::<.*>)?$")
    def _sort_paths(ex, c, a):
        """directory names are arbitrary, so the order sorting puts them in is an arbitrary permutation: a solver choice"""
        v = deref(a[0])
        items = v.items if hasattr(v, "items") else None
        lo, hi = (getattr(v, "lo", 0), getattr(v, "hi", None))
        if items is None or not all(isinstance(deref(x), PathV) for x in items):
            raise Unsupported("sort of " + repr(v)[:40])
        hi = len(items) if hi is None else hi
        import itertools
        perms = list(itertools.permutations(range(lo, hi)))
        k = ex.choose([(i, z3.BoolVal(True)) for i in range(len(perms))]) if len(perms) > 1 else 0
        seg = [items[j] for j in perms[k]]
        items[lo:hi] = seg
        return UNIT

    @R(r"^Vec::<.*>::(dedup|dedup_by|dedup_by_key)(::<.*>)?$")
    def _dedup_paths(ex, c, a):
        return UNIT          # abstract directories are pairwise distinct

    @R(r"^get_file_search_paths_from_env$")
    def _env(ex, c, a):
        state["env_consulted"] += 1
        e = state["env"]
        if e is None:
            return EnumV("Option", 0, [])
        return EnumV("Option", 1, [VecV([PathV(("env", i)) for i in range(e)])])

    @R(r"^<std::vec::IntoIter<.*> as Iterator>::next$")
    def _vec_iter_next(ex, c, a):
        return stdmodels.opt(stdmodels.as_iter(ex, a[0]).next(ex))
    new = models.table[n0:]
    del models.table[n0:]
    models.table[0:0] = new
    models._cache_lookup.clear()


class Family:
    def __init__(self, seed):
        self.prog = Program([mirdump.dump("oq3_source_file")], mirdump.REPO)
        self.models = Models()
        stdmodels.install(self.models, front=True)
        self.state = {"env": None, "env_consulted": 0, "is_file_queries": []}
        install_path_models(self.models, self.state)
        self.models.force.add("get_file_search_paths_from_env")      # the environment is part of the symbolic oracle
        self.ex = Exec(self.prog, self.models, max_steps=100000)
        c = [f for raw, f in self.prog.funcs.items() if raw.split("::")[-1] == "resolve_file_path" and f.kind == "fn"]
        if len(c) != 1:
            raise RuntimeError("resolve_file_path not found")
        self.f = c[0]

    def harness(self, task):
        return ResolveHarness(self, task)

    def exec_for(self, h):
        return self.ex


class ResolveHarness:
    def __init__(self, fam, task):
        self.fam = fam; self.task = task

    def run(self, ex):
        fam = self.fam
        nlist, nenv = self.task      # None = absent
        fam.state["env"] = nenv; fam.state["env_consulted"] = 0; fam.state["is_file_queries"] = []
        p = PathV(("p",))
        if nlist is None:
            lst = EnumV("Option", 0, [])
        else:
            lst = EnumV("Option", 1, [stdmodels.SliceV([PathV(("list", i)) for i in range(nlist)], 0, nlist)])
        r = ex.run(fam.f, [p, lst])
        while isinstance(r, Ref):
            r = r.get()
        # oracle
        isabs = z3.Bool("abs_p")

        def isfile(kind, i):
            return z3.Bool(f"isfile_join_{kind}_{i}_p")
        dirs = None
        if nlist is not None:
            dirs = [("list", i) for i in range(nlist)]
        elif nenv is not None:
            dirs = [("env", i) for i in range(nenv)]
        expected = []      # (condition, key)
        expected.append((isabs, ("p",)))
        prev = [z3.Not(isabs)]
        for kind, i in (dirs or []):
            expected.append((z3.And(prev + [isfile(kind, i)]), ("join", kind, i, "p")))
            prev.append(z3.Not(isfile(kind, i)))
        expected.append((z3.And(prev), ("p",)))
        want = z3.Or([c for c, k in expected if k == r.key]) if any(k == r.key for _, k in expected) else z3.BoolVal(False)
        ex.prove(want, f"resolve_file_path returned {r.key} where the search order demands another path")
        ex.obligations += 1
        if nlist is not None and fam.state["env_consulted"]:
            raise Violation("the environment search path was consulted although an explicit search list was given")
        return r.key

    def describe(self, ex, outcome, detail):
        if outcome == "ok":
            return ("ok", detail, ex.obligations)
        model = ex.model() or {}
        return ("fail", outcome, f"{outcome}|{detail['msg']}", list(self.task), {k: v for k, v in model.items()})


def famfactory(seed):
    def f():
        return Family(seed)
    return f


def native_resolve_check(task, model):
    """builds the arrangement in a temp dir and runs the real pipeline through an include: (violated, msg)"""
    import tempfile, shutil, subprocess
    nlist, nenv = task
    root = tempfile.mkdtemp(prefix="vfc18_", dir=os.environ.get("VERIF_WORK", "/verif/.work"))
    try:
        dirs = []
        kind = "list" if nlist is not None else "env"
        n = nlist if nlist is not None else (nenv or 0)
        expect = None
        for i in range(n):
            d = os.path.join(root, f"{kind}{i}")
            os.makedirs(d)
            dirs.append(d)
            if model.get(f"isfile_join_{kind}_{i}_p", False):
                open(os.path.join(d, "inc.qasm"), "w").write(f"int marker{i} = {i};\n")
                if expect is None:
                    expect = i
        main = os.path.join(root, "main.qasm")
        open(main, "w").write('include "inc.qasm";\n')
        # the driver has no search-list entry point for files; use the environment variable for the env case only
        if nlist is not None:
            return None, "explicit search lists are not reachable from the replay driver"
        env = dict(os.environ)
        if nenv is not None:
            env["QASM3_PATH"] = os.pathsep.join(dirs)
        else:
            env.pop("QASM3_PATH", None)
        exe = native.build("dev")
        r = subprocess.run([exe], input=f"semantic_file {native.hexs(main)}\n".encode(), stdout=subprocess.PIPE, env=env, timeout=20)
        out = r.stdout.decode(errors="replace")
        got = None
        import re
        m = re.search(r"marker(\d)", out)
        if m:
            got = int(m.group(1))
        return (got != expect), f"expected include from dir {expect}, native analysis saw dir {got}"
    finally:
        shutil.rmtree(root, ignore_errors=True)


def run(ctx):
    res = Result()
    K = 3
    tasks = [(n, e) for n in range(0, K + 1) for e in (None, 0, 2)] + [(None, e) for e in [None] + list(range(0, K + 1))]
    fails = collections.OrderedDict()

    def on_result(idx, task, recs, left, stats, err):
        if err:
            res.inconclusive.append(err[:500])
        if left:
            res.inconclusive.append(f"{task} not exhausted")
        if not err and not stats.get("paths"):
            res.inconclusive.append(f"vacuous task {task}")
        for r in recs:
            if r[0] == "ok":
                res.obligations += r[2]
            else:
                fails.setdefault(r[2], r)
    st, errs = explore.explore_many(famfactory(ctx.seed), tasks, workers=min(ctx.workers, 4), on_result=on_result, log=ctx.log)
    res.merge_stats(st)
    ctx.log(f"{st.get('paths', 0)} paths over {len(tasks)} arrangements: ok={st.get('ok', 0)} violation={st.get('violation', 0)} unsupported={st.get('unsupported', 0)}")
    for site, r in fails.items():
        if r[1] == "unsupported":
            res.inconclusive.append("unsupported: " + site)
            continue
        what = {"site": site, "search_list_dirs": r[3][0], "env_dirs": r[3][1], "oracle_assignment": r[4]}
        rp = os.path.join(ctx.replay_dir, "resolve_" + hashlib.sha1(site.encode()).hexdigest()[:10] + ".json")
        json.dump({"property": "C18", "what": what}, open(rp, "w"), indent=1)
        res.violations.append({"what": json.dumps(what), "replay": rp})
        res.samples.append(what)
    res.samples.append({"arrangement": "explicit list of 3 dirs, env of 2 dirs", "outcome": "result = first dir/p with is_file, else p; environment never consulted (proved for all 2^4 oracle answers)"})
    res.functions_encoded += ["oq3_source_file::source_file::resolve_file_path (and its closure)"]
    res.bounds.update({"search_list": "absent or 0-3 directories", "environment_list": "absent or 0-3 directories", "file_system_answers": "symbolic booleans"})
    res.stubs += ["Path/PathBuf as abstract values; is_absolute / is_file are free booleans per path; join is structural", "get_file_search_paths_from_env: absent or k directories, calls counted",
                  "bool::then_some, slice/Vec iteration"]
    res.outside_claim += ["the real file system, fs::canonicalize, env::split_paths", "include cycles (the code has none of the property's cases for them)"]
    res.assumptions += ["violations of this part are not replayed natively: the public entry points give no access to resolve_file_path with an oracle file system"]
    from . import c18_includes
    c18_includes.run_projects(ctx, res)
    res.exhaustive = not res.inconclusive
    return res


def replay(ctx, path):
    print(open(path).read())
    return 1
