"""C12 - diagnostics carry valid spans; a diagnostic-free tree has no error nodes (DESIGN 6/C12).

(a) every StrStep::Error position is the start of a raw token or the end of input      [this file, lossless harness]
(b) no Error step => no ERROR node and no ERROR token; ERROR node => at least one Error   [this file, lossless harness]
(c) unescape callback ranges (string model)                                              [added with the lexer model]
(d) SemanticError::range is node.text_range()                                            [structural check on the MIR]
"""
import os, re
from .main import Result
from . import lossless, mirdump


def structural_semantic_range(res):
    """(d): SemanticError::range must be exactly `self.node.text_range()` - one call, no arithmetic."""
    mir = open(mirdump.dump("oq3_semantics"), encoding="utf-8").read()
    ms = list(re.finditer(r"^fn [^\n]*semantic_error\.rs[^\n]*>::range\(_1: &SemanticError\)[^\n]*\{\n(.*?)^\}", mir, flags=re.S | re.M))
    if not ms:
        res.inconclusive.append("SemanticError::range not found in the MIR of oq3_semantics")
        return
    direct = 0
    detail = []
    for m in ms:
        body = m.group(1)
        calls = re.findall(r"= ([^\n;]*?)\(.*\) -> \[return", body)
        arith = re.findall(r"\b(Add|Sub|Mul|AddWithOverflow|SubWithOverflow|Offset)\(", body)
        detail.append({"calls": calls, "arithmetic": arith})
        res.obligations += 1
        if arith or len(calls) != 1:
            res.violations.append({"what": "SemanticError::range is no longer a plain node.text_range(): " + str(calls) + str(arith),
                                   "replay": "/verif/vf/h_c12.py"})
        elif "text_range" in calls[0]:
            direct += 1
        elif not calls[0].endswith("SemanticError::range"):
            res.violations.append({"what": "SemanticError::range delegates to something else: " + str(calls), "replay": "/verif/vf/h_c12.py"})
    if not direct:
        res.violations.append({"what": "no SemanticError::range implementation reads node.text_range()", "replay": "/verif/vf/h_c12.py"})
    res.extra["semantic_error_range_mir"] = detail


def run(ctx):
    res = Result()
    from .parser_kit import ParserKit
    kit = ParserKit()
    sub = lossless.composite_subalphabet(kit)
    err_alpha = sorted(set(sub) | {"ERROR", "L_CURLY", "R_CURLY", "L_PAREN", "R_PAREN", "L_BRACK", "R_BRACK", "COMMA", "INT_TY", "DEF_KW", "MUTABLE_KW"},
                       key=lambda n: kit.K[n])
    if ctx.quick():
        plan = [(0, None), (1, None), (2, None), (3, err_alpha)]
    else:
        plan = [(0, None), (1, None), (2, None), (3, None), (4, err_alpha)]
    if os.environ.get("VERIF_C12_PLAN"):
        plan = [(int(x.split(":")[0]), None if x.endswith(":full") else err_alpha) for x in os.environ["VERIF_C12_PLAN"].split(",")]
    only = os.environ.get("VERIF_C12_ONLY", "")      # debugging: "escapes" runs part (c) alone
    if only != "escapes":
        lossless.run_lossless(ctx, res, plan, ("c12",), "spans")
    # (b) on near-valid programs: every statement skeleton with one token replaced by an arbitrary token
    from . import h_c01
    for k, modes, depth in ([] if only == "escapes" else [(1, ("subst",), 1)] if ctx.quick() else [(1, ("subst",), 2), (1, ("insert",), 1)]):
        kitp, pf = h_c01.run_prefixes(ctx, res, k, which=("violation",), modes=modes, depth=depth)
        h_c01.triage_failures(ctx, res, kitp, pf)
    structural_semantic_range(res)
    from . import c12_escape
    c12_escape.run_escapes(ctx, res)
    res.functions_encoded += ["oq3_parser::LexedStr::to_input", "oq3_parser::TopEntryPoint::parse (whole parser)",
                              "oq3_parser::LexedStr::intersperse_trivia", "oq3_parser::parser::Parser::{err_recover,err_and_bump,error,bump_any}",
                              "oq3_semantics::semantic_error::SemanticError::range (structural)"]
    if only:
        res.inconclusive.append("partial run (VERIF_C12_ONLY)")
    res.bounds["raw_tokens_full_alphabet"] = max(r for r, a in plan if a is None)
    res.bounds["raw_tokens_error_subalphabet"] = max([r for r, a in plan if a is not None] or [0])
    res.assumptions += ["raw token start offsets are char boundaries (conclusion of C14)", "rowan text ranges of nodes (trusted base)"]
    res.outside_claim += ["semantic diagnostics' node choice"]
    res.exhaustive = not res.inconclusive
    return res


def replay(ctx, path):
    import json
    from . import native
    d = json.load(open(path))
    o = native.run_one("parse " + native.hexs(d["source_text"]), "dev")
    print(o.get("errors"), "panic" in o)
    return 1
