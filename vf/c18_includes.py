"""C18 parts (b) and (c): include parsing / analysis lock-step and in-place inclusion (stage 2).

A PROJECT is a set of virtual files (token texts) with include statements between them.  The real
oq3_source_file::parse_source_and_includes / parse_included_files (recursive), SourceFile::new, and ALL of
oq3_semantics::syntax_to_semantic (the Include arm with its included_iter lock-step, error-list swapping, nested
recursion) run from MIR.  The file system is a symbolic oracle: every file's readability is a free boolean and the
io::ErrorKind of a failed read a free byte.  For every oracle answer the result is compared with the FLAT program obtained
by writing the readable files' text at the include sites: same graph statements in order, same symbols, the same
diagnostic kinds distributed over the main list and one list per included file tagged with that file's path, an
unreadable file reported once on the include's path node - and no panic.
"""
import json, os, collections, re, itertools
import z3
from . import explore, semh, stdmodels
from .interp import SV, SB, EnumV, VecV, Ref, Opaque, UNIT, Panic, Unsupported, Violation
from .h_c18 import PathV
from .treemodel import Source
from .asgview import N


class FileText:
    """opaque handle for the text of a virtual file (the parse boundary is SourceFile::parse_check_lex)"""
    ref_like = True

    def __init__(self, name, words):
        self.name = name; self.words = words

    def __deepcopy__(self, memo):
        return self

    def __repr__(self):
        return f"FileText({self.name})"


PROJECTS = {
    # name: (main text, {file: text})   `include "f" ;` includes virtual file f
    "one": ('int a = 1 ; include "f.qasm" ; int c = b ;', {"f.qasm": "int b = a ;"}),
    "two-in-order": ('include "f.qasm" ; include "g.qasm" ; int c = a + b ;', {"f.qasm": "int a = 1 ;", "g.qasm": "int b = a ;"}),
    "nested": ('include "f.qasm" ; int d = c ;', {"f.qasm": 'int a = 1 ; include "g.qasm" ; int c = b ;', "g.qasm": "int b = a ;"}),
    "std-mixed": ('include "stdgates.inc" ; include "f.qasm" ; qubit q ; h q ; g q ; include "g.qasm" ; k q ;', {"f.qasm": "gate g x { h x ; }", "g.qasm": "gate k x { g x ; }"}),
    "twice": ('include "f.qasm" ; include "f.qasm" ;', {"f.qasm": "int a = 1 ;"}),
    "faults-inside": ('int a ; include "f.qasm" ; u = 2 ;', {"f.qasm": "int a ; w = 1 ; int b ;"}),
    "use-before": ('b = 1 ; include "f.qasm" ; b = 2 ;', {"f.qasm": "int b ;"}),
    "three-deep": ('include "f.qasm" ; int z = a ;', {"f.qasm": 'include "g.qasm" ; int y = a ;', "g.qasm": 'include "h.qasm" ; int x = a ;', "h.qasm": "int a = 1 ;"}),
    "siblings-nested": ('include "f.qasm" ; include "g.qasm" ; int z = a + b ;', {"f.qasm": 'include "h.qasm" ; int a = c ;', "g.qasm": "int b = c ;", "h.qasm": "int c = 1 ;"}),
    "empty-file": ('int a ; include "f.qasm" ; int b ;', {"f.qasm": ""}),
    "std-shadowed-by-a-file": ('include "stdgates.inc" ; include "f.qasm" ; qubit q ; h q ; int c = b ;', {"stdgates.inc": "int zz = 1 ;", "f.qasm": "int b = 1 ;"}),
    "std-name-in-a-directory": ('include "lib/stdgates.inc" ; int a = zz ; include "stdgates.inc" ; qubit q ; h q ;', {"lib/stdgates.inc": "int zz = 1 ;"}),
    "std-name-dot-slash": ('include "./stdgates.inc" ; int a ;', {"./stdgates.inc": "int zz = 1 ;"}),
    # annotations / pragmas at the seams: an annotation that ends an included file belongs to the next statement of the includer
    "annotation-ends-file": ('include "f.qasm" ; int b ; int c ;', {"f.qasm": "int a ; @keep·this"}),
    "annotation-ends-nested-file": ('include "f.qasm" ; qubit q ; int c ;', {"f.qasm": 'int a ; include "g.qasm" ;', "g.qasm": "int z ; @keep·this @and·that"}),
    "annotation-before-include": ('int a ; @keep·this include "f.qasm" ; int c ;', {"f.qasm": "int b ; int d ;"}),
    "annotation-inside-file": ('int a ; include "f.qasm" ; int c ;', {"f.qasm": "@keep·this int b ; pragma·x·y int d ;"}),
    "pragma-ends-file": ('include "f.qasm" ; int b ;', {"f.qasm": "int a ; pragma·x·y"}),
    "not-global": ('int a ; if ( true ) { include "stdgates.inc" ; }', {}),
    # include operands that are not file paths: a quoted string of 0/1 characters lexes as a bit string
    "operand-bit-string": ('int a ; include "01" ; a = 1 ;', {"01": "int b ;"}),
    "not-global-single-statement": ('int a ; if ( true ) include "stdgates.inc" ; a = 1 ;', {}),
    "not-global-else-single-statement": ('int a ; if ( true ) a = 2 ; else include "stdgates.inc" ; a = 1 ;', {}),
    "not-global-while": ('int a ; while ( true ) { include "stdgates.inc" ; a = 1 ; }', {}),
}


def install(models, state):
    R = models.reg
    n0 = len(models.table)

    def deref(x):
        while isinstance(x, Ref):
            x = x.get()
        return x

    def to_path(v):
        v = deref(v)
        if isinstance(v, PathV):
            return v
        if isinstance(v, str):
            return PathV((v,))
        if hasattr(v, "chars"):
            cs = v.chars()
            if all(isinstance(c, int) for c in cs):
                return PathV(("".join(map(chr, cs)),))
        raise Unsupported("path from " + repr(v)[:40])

    @R(r"^<.* as AsRef<Path>>::as_ref$|^<PathBuf as Deref>::deref$|^<PathBuf as From<.*>>::from$|^Path::to_path_buf$|^<PathBuf as Clone>::clone$|^<Path as ToOwned>::to_owned$|^<&?PathBuf as AsRef<Path>>::as_ref$|^PathBuf::as_path$|^<T as Into<PathBuf>>::into$")
    def _path_id(ex, c, a):
        return to_path(a[0])

    @R(r"^Path::is_absolute$")
    def _is_abs(ex, c, a):
        return False

    @R(r"^Path::new::<.*>$")
    def _path_new(ex, c, a):
        return to_path(a[0])

    @R(r"^Path::file_name$|^Path::extension$|^Path::file_stem$|^Path::parent$")
    def _file_name(ex, c, a):
        p = to_path(a[0]).key[-1]
        base = p.rstrip("/").split("/")[-1]
        if c.endswith("parent"):
            d = "/".join(p.rstrip("/").split("/")[:-1])
            return EnumV("Option", 1, [PathV((d,))]) if "/" in p else EnumV("Option", 1, [PathV(("",))])
        if base in ("", "..", "."):
            return EnumV("Option", 0, [])
        if c.endswith("file_name"):
            return EnumV("Option", 1, [base])
        stem, dot, ext = base.rpartition(".")
        if c.endswith("extension"):
            return EnumV("Option", 1, [ext]) if dot and stem else EnumV("Option", 0, [])
        return EnumV("Option", 1, [stem if dot and stem else base])

    @R(r"^<(str|String|std::string::String|&str) as AsRef<OsStr>>::as_ref$|^OsStr::new::<.*>$|^OsStr::to_str$|^OsStr::to_string_lossy$")
    def _osstr(ex, c, a):
        v = deref(a[0])
        if hasattr(v, "chars"):
            cs = v.chars()
            v = "".join(map(chr, cs)) if all(isinstance(x, int) for x in cs) else v
        return EnumV("Option", 1, [v]) if c.endswith("to_str") else v

    @R(r"^<Option<&OsStr> as PartialEq>::(eq|ne)$|^<&?OsStr as PartialEq(<.*>)?>::(eq|ne)$")
    def _os_eq(ex, c, a):
        x, y = deref(a[0]), deref(a[1])
        def val(o):
            if isinstance(o, EnumV):
                return ("some", val(deref(o.fields[0]))) if o.idx == 1 else ("none",)
            if isinstance(o, PathV):
                return o.key[-1]
            return o
        r = val(x) == val(y)
        return r if c.endswith("eq") else not r

    @R(r"^get_file_search_paths_from_env$")
    def _env(ex, c, a):
        return EnumV("Option", 0, [])

    @R(r"^std::fs::read_to_string::<.*>$|^read_to_string::<.*>$")
    def _read(ex, c, a):
        p = to_path(a[0])
        name = p.key[-1]
        state["reads"].append(name)
        if name == "stdgates.inc":
            raise Violation("stdgates.inc is read from the file system (the standard library is provided without any file)")
        if name not in state["files"]:
            raise Violation(f"a file that no include names is read: {name}")
        readable = SB(z3.Bool("readable_" + re.sub(r"\W", "_", name)))
        if ex.branch_bool(readable):
            return EnumV("Result", 0, [FileText(name, state["files"][name])])
        kind = SV(z3.BitVec("errkind_" + re.sub(r"\W", "_", name), 8), 8)
        return EnumV("Result", 1, [("ioerror", kind)])

    @R(r"^(std::fs::)?canonicalize::<.*>$")
    def _canon(ex, c, a):
        p = to_path(a[0])
        name = p.key[-1]
        tag = re.sub(r"\W", "_", name)
        exists = z3.Bool("exists_" + tag)
        ex.add_constraint(z3.Implies(z3.Bool("readable_" + tag), exists))      # a file that can be read exists
        if ex.branch_bool(SB(exists)):
            return EnumV("Result", 0, [p])
        return EnumV("Result", 1, [("ioerror", SV(z3.BitVec("canonkind_" + tag, 8), 8))])

    @R(r"^std::io::Error::kind$")
    def _kind(ex, c, a):
        e = deref(a[0])
        return e[1]

    @R(r"SourceFile>?::parse_check_lex$")
    def _parse_check_lex(ex, c, a):
        t = deref(a[0])
        if not isinstance(t, FileText):
            raise Unsupported("parse_check_lex on " + repr(t)[:40])
        return state["parse"](ex, t)

    # the text of a virtual file is opaque up to emptiness (what a caller could reasonably ask before parsing it)
    @R(r"^core::str::<impl str>::(trim|trim_end|trim_start|is_empty|len)$")
    def _filetext_ops(ex, c, a):
        t = deref(a[0])
        if not isinstance(t, FileText):
            return state["fallback"](ex, c, a)
        if c.endswith("is_empty"):
            return not t.words.strip()
        if c.endswith("len"):
            return len(t.words.strip())
        return t

    @R(r"^<std::io::Error as Drop>::drop$|^std::ptr::drop_in_place::<std::io::Error>$")
    def _dropio(ex, c, a):
        return UNIT
    new = models.table[n0:]
    del models.table[n0:]
    # the generic string models answer for everything that is not a FileText
    def fallback(ex, c, a):
        for rx_, fn in models.table:
            if fn not in [f for _, f in new] and rx_.search(c):
                return fn(ex, c, a)
        raise Unsupported("call " + c)
    state["fallback"] = fallback
    models.table[0:0] = new
    models.force.add("get_file_search_paths_from_env"); models.force.add("oq3_syntax::<impl oq3_syntax::SourceFile>::parse_check_lex")
    models._cache_lookup.clear()


class Family(semh.Family):
    def __init__(self, known, seed, harness_cls, opts=None):
        semh.Family.__init__(self, known, seed, harness_cls, opts)
        self.state = {"files": {}, "reads": [], "parse": None}
        install(self.kit.models, self.state)
        self.f_psi = self.kit._fn("parse_source_and_includes")
        self.parsed = {}


class H(semh.Base):
    def label(self):
        return self.task[0]

    def site(self, outcome, detail):
        return semh.Base.site(self, outcome, detail)[:230] + " @" + self.task[0]

    def words(self, text):
        """a word `@keep·this` / `pragma·x·y` (· for the blanks inside the line) is one ANNOTATION / PRAGMA token"""
        if not text.strip():
            return []
        out = []
        for kn, w, joint in self.toks_from(text):
            if isinstance(w, str) and w.startswith("@") and len(w) > 1:
                kn, w = "ANNOTATION", w.replace("·", " ")
            elif isinstance(w, str) and w.startswith("pragma·"):
                kn, w = "PRAGMA", w.replace("·", " ")
            out.append((kn, w, joint))
        return out

    def parse_tokens(self, ex, key, toks):
        """ParsedSource for a token list (real to_input / parser / intersperse_trivia / validate), cached"""
        fam = self.fam; kit = fam.kit
        hit = fam.parsed.get(key)
        if hit is None:
            src = kit.source()
            for kn, text, joint in toks:
                src.tok(kn, text, joint)
            if toks:
                root = src.build(ex)
                errors = list(src.errors) or kit.validate(ex, root)
            else:
                src.tok("WHITESPACE", " ", True)
                root = src.build(ex); errors = list(src.errors)
            hit = fam.parsed[key] = (root, errors)
        root, errors = hit
        if errors and key[1] == "<main>" and self.task[0].startswith("operand-"):
            # the real parse_source_and_includes walks the include statements of a main file BEFORE anyone looks at its syntax errors
            self.main_errors = len(errors)
            return [EnumV("Option", 1, [root]), VecV(["<syntax error>"] * len(errors)), UNIT]
        if errors:
            raise Unsupported("a project file does not parse cleanly: " + str(key))
        if len(key) == 2:
            self.fulls[key[1]] = root.full
        return [EnumV("Option", 1, [root]), VecV([]), UNIT]

    def run(self, ex):
        fam = self.fam; kit = fam.kit
        self.symvars = {}
        name, (main, files) = self.task
        st = fam.state
        st["files"] = dict(files); st["reads"] = []
        self.fulls = {}
        self.main_errors = 0
        st["parse"] = lambda ex_, t: self.parse_tokens(ex_, (name, t.name), self.words(t.words))
        # ---- the project through the real include machinery
        main_ft = FileText("<main>", main)
        r = ex.run(fam.f_psi, [main_ft, EnumV("Option", 0, [])], tysubst={"P": "PathBuf"})
        while isinstance(r, Ref):
            r = r.get()
        syntax_ast, included = r[0], r[1]
        if getattr(self, "main_errors", 0):
            ex.obligations += 1
            return "syntax-errors-no-panic"      # analyze_source stops at the syntax errors; what had to hold is that the include walk did not panic
        srcval = [PathV(("nofile",)), "", syntax_ast, included]
        ctx = ex.run(kit.f_ctx_new, [PathV(("nofile",))])
        errs = ex.run(kit.f_sel_new, [PathV(("nofile",))])
        out = ex.run(kit.f_sts, [Ref([srcval], 0), ctx, errs], tysubst={"T": "SourceString"})
        P = semh.Res(fam, out[0], out[1])
        # which files were readable on this path
        model_readable = {}
        for f in files:
            if f == "stdgates.inc":
                continue
            b = z3.Bool("readable_" + re.sub(r"\W", "_", f))
            if ex.check_sat(b) is None:
                model_readable[f] = False
            elif ex.check_sat(z3.Not(b)) is None:
                model_readable[f] = True
            else:
                model_readable[f] = None          # never read on this path (its includer was unreadable)
        self.readable = model_readable
        # ---- the flat program
        flat, marks = self.flatten(main, files, model_readable, [])
        ft = self.words(flat)
        self.toks = ft
        F_parsed = self.parse_tokens(ex, (name, "flat", tuple(sorted((k, v) for k, v in model_readable.items()))), ft)
        ctx2 = ex.run(kit.f_ctx_new, [PathV(("nofile",))])
        errs2 = ex.run(kit.f_sel_new, [PathV(("nofile",))])
        out2 = ex.run(kit.f_sts, [Ref([[PathV(("nofile",)), "", EnumV("Option", 1, [F_parsed]), VecV([])]], 0), ctx2, errs2], tysubst={"T": "SourceString"})
        F = semh.Res(fam, out2[0], out2[1])
        self.compare(ex, P, F, marks)
        ex.obligations += 1
        return "project"

    def flatten(self, text, files, readable, stack):
        """text with every include of a readable virtual file replaced by that file's flattened text; unreadable includes vanish"""
        out = []; marks = []
        ws = text.split()
        i = 0
        while i < len(ws):
            if ws[i] == "include" and i + 2 < len(ws) and ws[i + 1].strip('"') in files and ws[i + 1].strip('"') != "stdgates.inc":
                f = ws[i + 1].strip('"')
                if readable.get(f):
                    if f in stack:
                        raise Unsupported("include cycle")
                    inner, m2 = self.flatten(files[f], files, readable, stack + [f])
                    out.append(inner)
                    marks.append((f, True))
                    marks += m2
                else:
                    marks.append((f, False))
                i += 3
                continue
            out.append(ws[i]); i += 1
        return " ".join(x for x in out if x), marks

    def all_lists(self, el):
        out = [(el["source_file_path"], [e["error_kind"].v for e in el["list"]], el)]
        for sub in el["include_errors"]:
            out += self.all_lists(sub)
        return out

    def compare(self, ex, P, F, marks):
        name = self.task[0]
        if name.startswith("not-global"):
            if P.kinds().count("IncludeNotInGlobalScopeError") != 1:
                raise Violation(f"`{name}`: an include below the global scope is reported {P.kinds().count('IncludeNotInGlobalScopeError')} times (diagnostics {P.kinds()})")
        cmp17 = _Cmp(self, ex)
        cmp17.same(P.stmts, F.stmts, "program")
        cmp17.same(P.symbols, F.symbols, "symbols")
        lists = self.all_lists(P.errlist)
        got = collections.Counter(k for _, ks, _ in lists for k in ks)
        io_kinds = ("FileNotFound", "PermissionDenied", "IOError", "IsADirectory", "InvalidFilename")
        unread = [f for f, ok in marks if not ok]
        want = collections.Counter(F.kinds())
        got_io = sum(got[k] for k in io_kinds)
        for k in io_kinds:
            got.pop(k, None)
        if got != want:
            raise Violation(f"`{name}`: the project's diagnostics {dict(got)} differ from those of the flat program {dict(want)} (readable: {self.readable})")
        if got_io != len(unread):
            raise Violation(f"`{name}`: {len(unread)} unreadable include(s) {unread}, {got_io} read diagnostics")
        # one list per included file occurrence, tagged with its path, in include order (pre-order)
        # every diagnostic of a list refers to a node of THAT file's tree (an unreadable file has no tree, so its list is empty)
        main_full = self.fulls.get("<main>")
        for li, (p, ks, el) in enumerate(lists):
            fname = "<main>" if li == 0 else (p.key[-1] if isinstance(p, PathV) else str(p))
            own = self.fulls.get(fname)
            for e in el["list"]:
                nf = getattr(e["node"], "full", None)
                if own is None or nf is not own:
                    owner = next((k for k, v in self.fulls.items() if v is nf), "?")
                    raise Violation(f"`{name}`: the diagnostic list of `{fname}` holds a {e['error_kind'].v} whose node belongs to the tree of `{owner}`")
        tags = [p.key[-1] if isinstance(p, PathV) else str(p) for p, _, _ in lists[1:]]
        exp_tags = [f for f, ok in marks]
        if tags != exp_tags:
            raise Violation(f"`{name}`: diagnostic lists are tagged {tags}, the includes are {exp_tags} (in order)")
        # an unreadable include is reported (in the list of the file that holds the include, or in its own) on the include's path node
        io_nodes = []
        for p, ks, el in lists:
            for e in el["list"]:
                if e["error_kind"].v in io_kinds:
                    node = e["node"]
                    chars = node.full.chars[node.clo:node.chi] if hasattr(node.full, "chars") else []
                    io_nodes.append("".join(chr(c) for c in chars if isinstance(c, int)))
        for f in unread:
            hit = [t for t in io_nodes if t.strip('"') == f]
            if not hit:
                raise Violation(f"`{name}`: the read diagnostic for `{f}` is attached to {io_nodes}, not to the include's path")
            io_nodes.remove(hit[0])


class _Cmp:
    def __init__(self, h, ex):
        self.h = h; self.ex = ex

    def same(self, a, b, where):
        if isinstance(a, N) and isinstance(b, N):
            if (a.t, a.v) != (b.t, b.v) or set(a.f) != set(b.f):
                raise Violation(f"`{self.h.label()}`: {where}: the project has {a.v or a.t}, the flat program {b.v or b.t}")
            for k in a.f:
                self.same(a.f[k], b.f[k], f"{where}.{k}")
        elif isinstance(a, (list, tuple)) and isinstance(b, (list, tuple)):
            if len(a) != len(b):
                raise Violation(f"`{self.h.label()}`: {where}: {len(a)} elements in the project, {len(b)} in the flat program ({[getattr(x, 'v', None) for x in a]} vs {[getattr(x, 'v', None) for x in b]})")
            for i, (x, y) in enumerate(zip(a, b)):
                self.same(x, y, f"{where}[{i}]")
        elif isinstance(a, float) or type(a).__name__ == "Opaque":
            return
        elif hasattr(a, "__dict__") and not isinstance(a, (str, int)) and type(a) is type(b):
            return
        elif a != b:
            raise Violation(f"`{self.h.label()}`: {where}: {a!r} in the project, {b!r} in the flat program")


def famfactory(known, seed):
    def f():
        return Family(known, seed, H)
    return f


def run_projects(ctx, res):
    tasks = list(PROJECTS.items())
    if os.environ.get("VERIF_C18_ONLY"):
        tasks = [t for t in tasks if os.environ["VERIF_C18_ONLY"] in t[0]]
    fails, counts, on_result = semh.collector(res, label_of=lambda t: t[0])
    st, errs = explore.explore_many(famfactory(ctx.known, ctx.seed), tasks, workers=min(ctx.workers, len(tasks) or 1), max_paths=2000, on_result=on_result, log=ctx.log)
    res.merge_stats(st)
    ctx.log(f"include projects: {st.get('paths', 0)} paths over {len(tasks)} projects: {dict(counts)} panic={st.get('panic', 0)} violation={st.get('violation', 0)} unsupported={st.get('unsupported', 0)}")
    # a panic is a violation here ("none of these cases panics"); the native confirmation needs real files: done by building the project in a temp dir
    for site, info in fails.items():
        r0 = info["ex"][0]
        if r0[1] in ("unsupported", "stuck"):
            res.inconclusive.append(f"{r0[1]}: {site[:300]}")
            continue
        what = {"site": site, "paths": info["count"], "project": r0[4], "detail": r0[5]}
        import hashlib
        rp = os.path.join(ctx.replay_dir, "project_" + hashlib.sha1(site.encode()).hexdigest()[:10] + ".json")
        json.dump({"property": "C18", "project": r0[4], "files": PROJECTS.get(r0[4]), "what": what}, open(rp, "w"), indent=1)
        kid = None
        for k in ctx.known:
            if k.get("site") and re.search(k["site"], site):
                kid = k["id"]; break
        if kid:
            res.known_hits.append(f"{kid}: {[k for k in ctx.known if k['id'] == kid][0].get('what', '')}")
            continue
        res.violations.append({"what": json.dumps(what), "replay": rp})
    res.functions_encoded += ["oq3_source_file::source_file::{parse_source_and_includes, parse_included_files, parse_one_included, SourceFile::new, include_error, resolve_file_path}",
                              "oq3_semantics::syntax_to_semantics::syntax_to_semantic (Include arm, recursion, error-list swapping)", "oq3_semantics::context::Context::{push_errors_from_included_file, standard_library_gates}", "SemanticErrorKind::from_io_error"]
    res.bounds.update({"include_projects": len(tasks), "include_depth": "<= 3", "file_system": "readability of every file and the io::ErrorKind of a failed read are symbolic"})
    res.stubs += ["SourceFile::parse_check_lex as the parse boundary (lexer gating is C11's): real to_input / parser / intersperse_trivia / validate on the file's tokens", "fs::read_to_string as a symbolic oracle"]
