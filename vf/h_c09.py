"""C09 - declared symbols carry exactly the declared type (stage 2, DESIGN 6/C09).

Declarations with SYMBOLIC decimal width / length literals (1..11 digits, so every value up to 10^11 > 2^33) are
analysed from MIR; the symbol's recorded type is decoded and the obligation `no diagnostic => recorded width == written
value` (and `value does not fit u32 => diagnostic`) is proved for every digit string of the path.  Const-identifier
designators (`const int n = V; int[n] x;`), negative and non-const designators, gate and subroutine signatures
(0-4 parameters, 1-4 qubits) and the gate listing after `include "stdgates.inc"` are checked the same way.
"""
import json, os, collections, re, itertools
import z3
from . import explore, semh
from .interp import SV, SB, EnumV, VecV, Ref, Panic, Unsupported, Violation
from .main import Result
from .asgview import N

TY = {"int": "Int", "uint": "UInt", "float": "Float", "angle": "Angle", "bit": "Bit", "bool": "Bool", "duration": "Duration",
      "stretch": "Stretch", "complex": "Complex"}
WIDTH_TYPES = ["int", "uint", "float", "angle", "bit"]

# standard library, from the OpenQASM 3 specification (stdgates.inc): name -> (angle parameters, qubits)
STDGATES = {"p": (1, 1), "x": (0, 1), "y": (0, 1), "z": (0, 1), "h": (0, 1), "s": (0, 1), "sdg": (0, 1), "t": (0, 1), "tdg": (0, 1), "sx": (0, 1),
            "rx": (1, 1), "ry": (1, 1), "rz": (1, 1), "cx": (0, 2), "cy": (0, 2), "cz": (0, 2), "cp": (1, 2), "crx": (1, 2), "cry": (1, 2),
            "crz": (1, 2), "ch": (0, 2), "swap": (0, 2), "ccx": (0, 3), "cswap": (0, 3), "cu": (4, 2), "CX": (0, 2), "phase": (1, 1),
            "cphase": (1, 2), "id": (0, 1), "u1": (1, 1), "u2": (2, 1), "u3": (3, 1)}


def val_eq(engine_v, want):
    """z3 condition: engine value (int / SV of any width) equals the 128-bit term `want`"""
    if isinstance(engine_v, bool):
        return z3.BoolVal(False)
    if isinstance(engine_v, int):
        return want == z3.BitVecVal(engine_v, 128)
    if isinstance(engine_v, SV):
        return z3.ZeroExt(128 - engine_v.w, engine_v.e) == want if engine_v.w < 128 else engine_v.e == want
    return z3.BoolVal(False)


def type_matches(t, ctor, width, const):
    """(structural ok: bool, z3 condition on the width).  width: None (absent) or 128-bit z3 term"""
    if not isinstance(t, N) or t.t != "Type":
        return False, None
    if ctor == "Bit":
        if width is None:
            return (t.v == "Bit" and t[0].v == ("True" if const else "False")), z3.BoolVal(True)
        if t.v != "BitArray" or t[0].v != "D1" or t[1].v != ("True" if const else "False"):
            return False, None
        return True, val_eq(t[0][0], width)
    if ctor in ("Bool", "Duration", "Stretch"):
        return (t.v == ctor and t[0].v == ("True" if const else "False")), z3.BoolVal(True)
    if t.v != ctor or t[1].v != ("True" if const else "False"):
        return False, None
    if width is None:
        return t[0] is None, z3.BoolVal(True)
    if t[0] is None:
        return False, None
    return True, val_eq(t[0], width)


class H(semh.Base):
    def label(self):
        return "/".join(str(x) for x in self.task)

    def site(self, outcome, detail):
        s = semh.Base.site(self, outcome, detail)
        s = s.replace("`" + self.label() + "`", self.task[0])
        return re.sub(r"\b[A-Z]\w*\((?:[^()]|\([^()]*\))*\)", "T", s)

    def program(self, ex):
        k = self.task[0]
        T = self.toks_from
        self.want_w = None
        if k == "scalar":       # T[W] x;  const T[W] x = 1;   inside a scope kind
            _, ty, const, nd, where = self.task
            cs, w = self.sym_digits(ex, "w", nd)
            self.want_w = w
            decl = (f"const {ty} [ $w ] x = 1 ;" if const and ty != "bit" else f"const {ty} [ $w ] x = \"1\" ;") if const else f"{ty} [ $w ] x ;"
            if ty == "float" and const:
                decl = f"const float [ $w ] x = 1.0 ;"
            if ty == "angle" and const:
                decl = f"const angle [ $w ] x = 1.0 ;"
            if ty == "complex":
                decl = "complex [ float [ $w ] ] x ;"
            wrap = {"global": "%s", "if": "if ( true ) { %s }", "while": "while ( true ) { %s }", "for": "for int i in [ 0 : 1 ] { %s }",
                    "def": "def f ( ) { %s }", "else": "if ( true ) { } else { %s }"}[where]
            return T(wrap % decl, {"w": ("INT_NUMBER", cs)})
        if k == "radix":       # T[0x..] x; : the width literal in another radix
            _, ty, radix, nd = self.task
            cs, w = self.sym_digits_radix(ex, "w", nd, radix)
            self.want_w = w
            return T("qubit [ $w ] x ;" if ty == "qubit" else f"{ty} [ $w ] x ;", {"w": ("INT_NUMBER", cs)})
        if k == "nowidth":
            _, ty, const = self.task
            init = {"int": "1", "uint": "1", "float": "1.0", "angle": "1.0", "bit": '"1"', "bool": "true", "duration": "1 ns", "stretch": "1 ns", "complex": "1.0"}[ty]
            return T(f"const {ty} x = {init} ;" if const else f"{ty} x ;")
        if k == "qubit":
            _, nd = self.task
            if nd is None:
                return T("qubit x ;")
            cs, w = self.sym_digits(ex, "w", nd)
            self.want_w = w
            return T("qubit [ $w ] x ;", {"w": ("INT_NUMBER", cs)})
        if k == "io":
            _, ty, nd, io = self.task
            cs, w = self.sym_digits(ex, "w", nd)
            self.want_w = w
            return T(f"{io} {ty} [ $w ] x ;", {"w": ("INT_NUMBER", cs)})
        if k == "constid":      # const int n = [-]V; T[n] x;
            _, ty, nd, neg, nconst, ntype = self.task
            cs, w = self.sym_digits(ex, "v", nd)
            self.want_w = w
            pre = f"{'const ' if nconst else ''}{ntype} n = {'- ' if neg else ''}$v ;"
            decl = f"{ty} [ n ] x ;" if ty != "qubit" else "qubit [ n ] x ;"
            return T(pre + " " + decl, {"v": ("INT_NUMBER", cs)})
        if k == "gate":
            _, np_, nq = self.task
            ps = " , ".join(f"p{i}" for i in range(np_))
            qs = " , ".join(f"q{i}" for i in range(nq))
            return T(f"gate g {'( ' + ps + ' ) ' if np_ else ''}{qs} {{ }}")
        if k == "gate_parens0":
            return T("gate g ( ) q0 { }")
        if k == "def":
            _, ptypes, ret = self.task
            # old-style register parameters are written `creg a0 [ 4 ]` / `qreg a0 [ 2 ]`
            ps = " , ".join((f"{t[:4]} a{i} [ {t[5:]} ]" if t[:4] in ("creg", "qreg") else f"{t} a{i}") for i, t in enumerate(ptypes))
            return T(f"def f ( {ps} ) {'-> ' + ret + ' ' if ret else ''}{{ }}".replace("->", "-~ >"))
        if k == "defparam":     # def f(T[W] a0) { }  /  for T[W] a0 in [0:1] { }  : parameter and loop-variable symbols carry the written type
            _, ty, nd, form = self.task
            cs, w = self.sym_digits(ex, "w", nd)
            self.want_w = w
            if form == "def":
                return T(f"def f ( {ty} [ $w ] a0 ) {{ }}", {"w": ("INT_NUMBER", cs)})
            return T(f"for {ty} [ $w ] a0 in [ 0 : 1 ] {{ }}", {"w": ("INT_NUMBER", cs)})
        if k == "defret":       # const int n = V; def f(..) -> T[n] { [const int n = 4;] }  : the designator is resolved where the def is written
            _, ty, nd, shadow = self.task
            cs, w = self.sym_digits(ex, "v", nd)
            self.want_w = w
            params = {"none": "int a0", "body": "int a0", "param": "int n"}[shadow]
            body = "const int n = 4 ;" if shadow == "body" else ""
            return T(f"const int n = $v ; def f ( {params} ) -~ > {ty} [ n ] {{ {body} }}", {"v": ("INT_NUMBER", cs)})
        if k == "listing":
            _, np_, nq = self.task
            ps = " , ".join(f"p{i}" for i in range(np_))
            qs = " , ".join(f"q{i}" for i in range(nq))
            return T(f"include \"stdgates.inc\" ; gate g {'( ' + ps + ' ) ' if np_ else ''}{qs} {{ }} int v ; qubit w ;")
        raise ValueError(k)

    def find_symbol(self, R, name):
        hits = [i for i, s in enumerate(R.symbols) if s["name"] == name]
        return hits

    def check(self, ex, R):
        k = self.task[0]
        errs = R.kinds()
        U32 = z3.BitVecVal(0xFFFFFFFF, 128)

        def sym(name):
            hits = self.find_symbol(R, name)
            if len(hits) != 1:
                raise Violation(f"{len(hits)} symbols named `{name}` in the final table (expected one)")
            return R.symbols[hits[0]]["typ"]
        if k in ("scalar", "qubit", "io", "radix") and self.want_w is not None:
            w = self.want_w
            if k == "qubit" or (k == "radix" and self.task[1] == "qubit"):
                t = sym("x")
                ok = t.v == "QubitArray" and t[0].v == "D1"
                cond = val_eq(t[0][0], w) if ok else None
                const = False; ctor = "QubitArray"
            else:
                ty = self.task[1]; const = bool(self.task[2]) if k == "scalar" else False
                ctor = TY[ty]
                t = sym("x")
                ok, cond = type_matches(t, ctor, w, const)
            shown = repr(t)
            if not errs:
                if not ok:
                    raise Violation(f"`{self.label()}`: the symbol is recorded as {shown}, the declaration says {ctor}[W]{' const' if const else ''}")
                ex.prove(cond, f"`{self.label()}`: no diagnostic, but the recorded width/length {shown} is not the number written", {"t": shown})
            # a value that does not fit the representation must be diagnosed
            ex.prove(z3.ULE(w, U32) if not errs else z3.BoolVal(True), f"`{self.label()}`: a width/length above 2^32-1 is accepted without diagnostic (recorded {shown})", {"t": shown})
            return "width-checked"
        if k == "nowidth":
            _, ty, const = self.task
            t = sym("x")
            ok, cond = type_matches(t, TY[ty], None, bool(const))
            bad = [e for e in errs]
            if bad:
                raise Violation(f"`{self.label()}`: diagnostics {bad} on a plain declaration")
            if not ok:
                raise Violation(f"`{self.label()}`: the symbol is recorded as {t!r}, the declaration says {TY[ty]}{' const' if const else ''} without width")
            return "nowidth"
        if k == "qubit":
            t = sym("x")
            if t.v != "Qubit" or errs:
                raise Violation(f"`qubit x;` recorded as {t!r}, diagnostics {errs}")
            return "qubit"
        if k == "constid":
            _, ty, nd, neg, nconst, ntype = self.task
            w = self.want_w
            t = sym("x")
            shown = repr(t)
            ok_designator = nconst and not neg and ntype.split()[0] in ("int", "uint")            # a constant non-negative INTEGER
            if ty == "qubit":
                ok = t.v == "QubitArray" and t[0].v == "D1"
                cond = val_eq(t[0][0], w) if ok else None
            else:
                ok, cond = type_matches(t, TY[ty], w, False)
            if not errs:
                if not ok_designator:
                    raise Violation(f"`{self.label()}`: a {'negative' if neg else ('non-constant' if not nconst else 'non-integer (' + ntype + ')')} designator is accepted without diagnostic; recorded {shown}")
                if not ok:
                    raise Violation(f"`{self.label()}`: recorded {shown}, the declaration says {ty}[n] with n = V")
                ex.prove(cond, f"`{self.label()}`: no diagnostic, but the recorded width {shown} is not the value of the const designator", {"t": shown})
                ex.prove(z3.ULE(w, U32), f"`{self.label()}`: a designator value above 2^32-1 is accepted without diagnostic (recorded {shown})")
            return "constid"
        if k in ("gate", "gate_parens0"):
            np_, nq = (self.task[1], self.task[2]) if k == "gate" else (0, 1)
            t = sym("g")
            if errs:
                raise Violation(f"`{self.label()}`: diagnostics {errs} on a plain gate definition")
            if t.v != "Gate" or t[0] != np_ or t[1] != nq:
                raise Violation(f"`{self.label()}`: gate recorded as {t!r}, the definition has {np_} parameters and {nq} qubits")
            for i in range(np_):
                pt = sym(f"p{i}")
                if not (pt.v == "Angle" and pt[0] is None and pt[1].v == "True"):
                    raise Violation(f"gate parameter p{i} recorded as {pt!r} (expected const angle)")
            for i in range(nq):
                qt = sym(f"q{i}")
                if qt.v != "Qubit":
                    raise Violation(f"gate qubit q{i} recorded as {qt!r}")
            return "gate"
        if k == "defparam":
            _, ty, nd, form = self.task
            t = sym("a0")
            shown = repr(t)
            if not errs:
                ok, cond = type_matches(t, TY[ty], self.want_w, False)
                ok2, cond2 = type_matches(t, TY[ty], self.want_w, True)
                if not (ok or ok2):
                    raise Violation(f"`{self.label()}`: the {form} variable is recorded as {shown}, declared {ty}[W]")
                ex.prove(cond if ok else cond2, f"`{self.label()}`: no diagnostic, but the recorded width {shown} of the {form} variable is not the number written", {"t": shown})
            ex.prove(z3.ULE(self.want_w, U32) if not errs else z3.BoolVal(True), f"`{self.label()}`: a width above 2^32-1 is accepted without diagnostic (recorded {shown})")
            return "defparam"
        if k == "defret":
            _, ty, nd, shadow = self.task
            t = sym("f")
            if t.v != "SubroutineDef":
                raise Violation(f"`{self.label()}`: subroutine recorded as {t!r}")
            rt = t[0]["return_type"]
            shown = repr(rt)
            if not errs:
                ok, cond = type_matches(rt, TY[ty], self.want_w, True)
                ok2, cond2 = type_matches(rt, TY[ty], self.want_w, False)
                if not (ok or ok2):
                    raise Violation(f"`{self.label()}`: return type recorded as {shown}, declared {ty}[n] with the global const n")
                ex.prove(cond if ok else cond2, f"`{self.label()}`: no diagnostic, but the recorded return-type width {shown} is not the value of the designator `n` visible where the def is written", {"t": shown})
                ex.prove(z3.ULE(self.want_w, U32), f"`{self.label()}`: a return-type width above 2^32-1 is accepted without diagnostic")
            return "defret"
        if k == "def":
            _, ptypes, ret = self.task
            t = sym("f")
            if errs:
                raise Violation(f"`{self.label()}`: diagnostics {errs} on a plain subroutine definition")
            if t.v != "SubroutineDef":
                raise Violation(f"`{self.label()}`: subroutine recorded as {t!r}")
            sd = t[0]
            if sd["num_params"] != len(ptypes):
                raise Violation(f"`{self.label()}`: subroutine recorded with {sd['num_params']} parameters, declared {len(ptypes)}")
            rt = sd["return_type"]
            if ret is None:
                if rt.v != "Void":
                    raise Violation(f"`{self.label()}`: return type recorded as {rt!r}, none declared")
            else:
                ok, _ = type_matches(rt, TY[ret], None, True)
                ok2, _ = type_matches(rt, TY[ret], None, False)
                if not (ok or ok2):
                    raise Violation(f"`{self.label()}`: return type recorded as {rt!r}, declared {ret}")
            for i, pt_ in enumerate(ptypes):
                pt = sym(f"a{i}")
                if pt_ == "qubit":
                    okp = pt.v == "Qubit"
                elif pt_[:4] in ("creg", "qreg"):
                    okp = pt is not None and pt.v == ("BitArray" if pt_[:4] == "creg" else "QubitArray")
                else:
                    okp = type_matches(pt, TY[pt_], None, False)[0] or type_matches(pt, TY[pt_], None, True)[0]
                if not okp:
                    raise Violation(f"`{self.label()}`: parameter a{i} recorded as {pt!r}, declared {pt_}")
            return "def"
        if k == "listing":
            _, np_, nq = self.task
            fam = self.fam; kit = fam.kit
            f = kit.prog.methods.get(("SymbolTable", None, "gates"))
            if f is None:
                raise Unsupported("SymbolTable::gates not found")
            lst = ex.run(f, [Ref([self_ctx_table(R)], 0)])
            while isinstance(lst, Ref):
                lst = lst.get()
            got = {}
            from . import stdmodels
            itr = stdmodels.as_iter(ex, lst)
            listed = []
            while True:
                x = itr.next(ex)
                if x is None:
                    break
                while isinstance(x, Ref):
                    x = x.get()
                listed.append(x)
            for it in listed:
                nm = fam.dec.text(it[0])
                nm = nm[0] if isinstance(nm, tuple) else nm
                if nm in got:
                    raise Violation(f"gate `{nm}` listed twice")
                got[nm] = (it[2], it[3])
            want = dict(STDGATES); want["g"] = (np_, nq); want["U"] = (3, 1)
            miss = sorted(set(want) - set(got)); extra = sorted(set(got) - set(want))
            if "U" in miss:
                miss.remove("U")          # the built-in U is neither user-defined nor standard-library: either listing is accepted
            if miss or extra:
                raise Violation(f"gate listing: missing {miss}, unexpected {extra}")
            for n_, a in got.items():
                if tuple(a) != tuple(want[n_]):
                    raise Violation(f"gate `{n_}` listed with arity {tuple(a)}, defined with {want[n_]}")
            return "listing"
        raise ValueError(k)


def self_ctx_table(R):
    return R.raw_table


def build_tasks(quick):
    tasks = []
    digits = [1, 2, 3, 5, 9, 10, 11] if quick else list(range(1, 13))
    for ty in WIDTH_TYPES + ["complex"]:
        for const in ((False, True) if ty not in ("complex", "angle", "bit") else (False,)):       # a float literal does not initialise an angle (C08)
            for nd in digits:
                tasks.append(("scalar", ty, const, nd, "global"))
    for where in ("if", "else", "while", "for", "def"):
        for ty in ("int", "bit") if quick else WIDTH_TYPES:
            tasks.append(("scalar", ty, False, 10, where))
    for ty in TY:
        for const in (False, True):
            if not (const and ty in ("angle", "bit", "stretch")):
                tasks.append(("nowidth", ty, const))
    for ty in ("int", "bit", "qubit") if quick else WIDTH_TYPES + ["qubit"]:
        for radix, nds in ((16, (1, 2, 8, 9)), (8, (2, 11, 12)), (2, (3, 32, 33))):
            for nd in (nds[:2] + nds[-1:] if quick else nds):
                tasks.append(("radix", ty, radix, nd))
    tasks.append(("qubit", None))
    for nd in digits:
        tasks.append(("qubit", nd))
    for ty in ("int", "bit") if quick else WIDTH_TYPES:
        for io in ("input", "output"):
            tasks.append(("io", ty, 10, io))
    for ty in ("int", "bit", "qubit") if quick else WIDTH_TYPES + ["qubit"]:
        for nd in ([1, 10] if quick else digits):
            for neg in (False, True):
                for nconst in (True, False):
                    for ntype in (("int", "uint", "int [ 128 ]", "int [ 32 ]", "uint [ 128 ]", "float", "complex", "float [ 32 ]", "angle", "bool") if not quick or nconst else ("int",)):
                        if ntype in ("angle", "bool") and (neg or not nconst):
                            continue
                        tasks.append(("constid", ty, nd, neg, nconst, ntype))
    for np_ in range(0, 5):
        for nq in range(1, 5):
            tasks.append(("gate", np_, nq))
    pts = ["int", "float", "bit", "angle", "bool", "qubit"]
    for k in range(0, 5):
        for ret in (None, "int", "float", "bit", "bool"):
            tasks.append(("def", tuple(pts[(i + k) % len(pts)] for i in range(k)), ret))
    for ptypes in (("creg:4",), ("qreg:2",), ("int", "creg:4"), ("creg:4", "qreg:2", "int")):
        tasks.append(("def", ptypes, None))
    for ty in ("int", "uint") if quick else ("int", "uint", "float", "angle", "bit"):
        for shadow in ("none", "body", "param"):
            for nd in (1, 2):
                tasks.append(("defret", ty, nd, shadow))
    for ty in ("int", "uint", "bit") if quick else WIDTH_TYPES:
        for form in ("def", "for"):
            if form == "for" and ty == "bit":
                continue
            for nd in (2, 10):
                tasks.append(("defparam", ty, nd, form))
    tasks.append(("listing", 2, 3))
    tasks.append(("listing", 0, 1))
    return tasks


class Res2(semh.Res):
    pass


def run(ctx):
    res = Result()
    tasks = build_tasks(ctx.quick())
    if os.environ.get("VERIF_C09_ONLY"):
        tasks = [t for t in tasks if os.environ["VERIF_C09_ONLY"] in "/".join(map(str, t))]
    ctx.log(f"{len(tasks)} declaration templates")
    fails, counts, on_result = semh.collector(res, label_of=lambda t: "/".join(map(str, t)))
    st, errs = explore.explore_many(semh.famfactory(ctx.known, ctx.seed, H), tasks, workers=ctx.workers, max_paths=20000, on_result=on_result, log=ctx.log)
    res.merge_stats(st)
    ctx.log(f"{st.get('paths', 0)} paths: {dict(counts)} panic={st.get('panic', 0)} violation={st.get('violation', 0)} unsupported={st.get('unsupported', 0)} wall={st.get('wall', 0):.1f}s")
    semh.triage(ctx, res, "C09", fails)
    res.samples.append({"template": "int[W] x; with W = 10 symbolic digits", "outcome": "no diagnostic => Int(Some(W)) proved for all digit strings of each path"})
    res.functions_encoded += ["oq3_semantics::syntax_to_semantics::{scalar_type_to_type, designator_to_asg, classical_declaration_statement_to_asg_stmt, bind_parameter_list, bind_typed_parameter_list, stmt_to_asg_stmt (Gate, Def, QuantumDeclaration arms)}",
                              "oq3_semantics::asg::<impl TryFrom<&TExpr> for u32>", "oq3_semantics::symbols::SymbolTable::{new_binding, gates}", "oq3_semantics::context::Context::standard_library_gates",
                              "oq3_syntax::ast::token_ext::IntNumber::value (from_str_radix model, exact)"]
    res.bounds.update({"width_digits": "1..11 decimal digits (quick: 1,2,3,5,9,10,11; thorough 1..12); hex 1-9, octal 2-12, binary 3-33 digits", "gate_signatures": "0-4 parameters x 1-4 qubits", "def_signatures": "0-4 parameters, 5 return types", "templates": len(tasks)})
    res.stubs += ["rowan tree model", "hashbrown map model", "from_str_radix (exact arithmetic over the digit characters)"]
    res.outside_claim += ["underscores in width literals (C10 proves value_u128 for them)", "array declarations (the analyser does not support them; C03)"]
    res.exhaustive = not res.inconclusive
    return res


replay = semh.replay
