"""Shared stage-2 harness plumbing (C06, C08, C09, C13, C17): programs given as token lists with symbolic pieces,
parsed by the real parser (cached per token-kind shape), validated and analysed from MIR, decoded into named records;
failure triage with native confirmation (the engine's result for the concrete counterexample must equal the native
pipeline's) and known-finding matching."""
import json, os, hashlib, collections, re
import z3
from . import explore, native, asgview
from .interp import Exec, SV, SB, EnumV, VecV, Ref, Panic, Unsupported, Violation, StepLimit
from .sem_kit import SemKit


class Family:
    def __init__(self, known, seed, harness_cls, opts=None):
        self.kit = SemKit()
        self.dec = asgview.Decoder(self.kit)
        self.known = known; self.seed = seed; self.opts = opts or {}
        self.ex = self.kit.new_exec(max_steps=6000000)
        self.harness_cls = harness_cls
        self.trees = {}

    def harness(self, task):
        return self.harness_cls(self, task)

    def exec_for(self, h):
        return self.ex


def famfactory(known, seed, harness_cls, opts=None):
    def f():
        return Family(known, seed, harness_cls, opts)
    return f


class Piece:
    """token text: str (concrete) or list of code points (int / SV)"""


def lex_words(text):
    """splits a concrete program text written with single spaces into (kind-less) words; kinds are resolved by KINDS"""
    return text.split(" ")


class Base:
    """subclass: set self.task in __init__, implement program(ex) -> list of (kind_name, text_or_chars, joint) and check(ex, R)"""
    def __init__(self, fam, task):
        self.fam = fam; self.task = task

    # ---- helpers for building token lists
    def sym_name(self, ex, tag, pool):
        c = SV(z3.BitVec(tag, 32), 32)
        ex.add_constraint(z3.Or([c.e == ord(x) for x in pool]))
        self.symvars[tag] = c
        return [c]

    def sym_digits(self, ex, tag, n, first_nonzero=True):
        """n symbolic decimal digits (no leading zero): returns (chars, z3 Int value as 128-bit BV)"""
        cs = []
        Wc = max(33, (10 ** n).bit_length() + 1)
        val = z3.BitVecVal(0, Wc)
        for i in range(n):
            c = SV(z3.BitVec(f"{tag}_{i}", 32), 32)
            lo = ord("1") if (i == 0 and first_nonzero and n > 1) else ord("0")
            ex.add_constraint(z3.And(z3.UGE(c.e, lo), z3.ULE(c.e, ord("9"))))
            self.symvars[f"{tag}_{i}"] = c
            cs.append(c)
            weight = 10 ** (n - 1 - i)
            term = z3.BitVecVal(0, Wc)
            for k in range(9, 0, -1):
                term = z3.If(c.e == ord("0") + k, z3.BitVecVal(k * weight, Wc), term)
            val = val + term
        return cs, z3.ZeroExt(128 - Wc, val)

    def sym_digits_radix(self, ex, tag, n, radix):
        """prefix (0x / 0o / 0b) + n symbolic digits of that radix (first one non-zero): (chars, 128-bit value term)"""
        from .strmodel import digit_value
        pre = {16: "0x", 8: "0o", 2: "0b"}[radix]
        cs = [ord(c) for c in pre]
        Wc = 64
        val = z3.BitVecVal(0, Wc)
        for i in range(n):
            c = SV(z3.BitVec(f"{tag}_{i}", 32), 32)
            d = digit_value(c.e)
            ex.add_constraint(z3.And(z3.ULT(d, radix), z3.UGE(d, 1 if i == 0 else 0)))
            ex.add_constraint(z3.Or(z3.And(z3.UGE(c.e, 48), z3.ULE(c.e, 57)), z3.And(z3.UGE(c.e, 97), z3.ULE(c.e, 102)), z3.And(z3.UGE(c.e, 65), z3.ULE(c.e, 70))))
            self.symvars[f"{tag}_{i}"] = c
            cs.append(c)
            val = val * radix + z3.ZeroExt(Wc - 32, d)
        return cs, z3.ZeroExt(128 - Wc, val)

    def toks_from(self, text, subst=None):
        """`text`: words separated by blanks; a word `$x` is replaced by subst['x'] (chars or str).  `~` glues to the next word."""
        K = self.fam.kit
        out = []
        for w in text.split():
            joint = w.endswith("~") and len(w) > 1
            if joint:
                w = w[:-1]
            if w.startswith("$") and subst is not None and w[1:] in subst:
                v = subst[w[1:]]
                kind = v[0]; txt = v[1]
                out.append((kind, txt, joint))
            else:
                out.append((word_kind(self.fam, w), w, joint))
        return out

    # ---- run
    def run(self, ex):
        fam = self.fam; kit = fam.kit
        self.symvars = {}
        toks = self.program(ex)
        self.toks = toks
        src = kit.source()
        pos = 0; self.starts = []
        for kn, text, joint in toks:
            self.starts.append(pos)
            src.tok(kn, text, joint)
            pos += (len(text)) + (0 if joint else 1)
        key = tuple((k, tuple(c if isinstance(c, int) else "?" for c in cs), j) for k, cs, j in src.items)
        hit = fam.trees.get(key)
        if hit is None:
            nd0 = len(ex.decisions)
            root = src.build(ex)
            errors = list(src.errors)
            if not errors:
                errors += kit.validate(ex, root)
            if len(fam.trees) > 4000:
                fam.trees.clear()
            hit = (root, errors)
            if len(ex.decisions) == nd0:
                fam.trees[key] = hit          # sharing the tree is sound only if building it took no solver decision
        root, errors = hit
        if errors:
            return self.on_syntax_error(ex, errors)
        ctx, errs = kit.analyze(ex, root)
        R = Res(fam, ctx, errs)
        return self.check(ex, R) or "checked"

    def on_syntax_error(self, ex, errors):
        raise Unsupported("the template does not parse cleanly: " + self.render({}))

    def render(self, model):
        out = []
        for kn, text, joint in getattr(self, "toks", []):
            if isinstance(text, str):
                s = text
            else:
                s = "".join(chr(c) if isinstance(c, int) else chr(model.get(c.e.decl().name(), ord("?"))) for c in text)
            out.append(s + ("" if joint else " "))
        return "".join(out).strip()

    def site(self, outcome, detail):
        stack = detail.get("stack") or []
        fn = stack[-1].split("::")[-1] if stack else "?"
        msg = detail["msg"]
        return f"{outcome}|{fn if outcome != 'violation' else ''}|{msg[:200]}"

    def describe(self, ex, outcome, detail):
        if outcome == "ok":
            # a seed-chosen sample of passing paths is rendered for the engine-vs-native comparison (DESIGN 2.4)
            text = None
            import zlib
            h = zlib.crc32(repr((list(ex.decisions), self.label(), self.fam.seed)).encode()) % 40
            if h == 0 and detail not in ("preamble-diagnosed",):
                try:
                    text = self.render(ex.model() or {})
                except Exception:
                    text = None
            return ("ok", detail, ex.obligations, text)
        model = ex.model() or {}
        text = self.render(model)
        return ("fail", outcome, self.site(outcome, detail), text, self.label(), detail["msg"])

    def label(self):
        return str(self.task)


_WK = {}


def word_kind(fam, w):
    """kind of a concrete word (keywords / punctuation from the parser's tables, literals by shape)"""
    if not _WK:
        from .parser_kit import ParserKit
        pk = ParserKit()
        for k, t in pk.keyword_text.items():
            _WK[t] = fam.kit.names[k]
        for k, t in pk.punct_text.items():
            _WK[t] = fam.kit.names[k]
    if w in _WK:
        return _WK[w]
    if re.match(r"^[0-9][0-9_]*$|^0[xXbBoO][0-9a-fA-F_]+$", w):
        return "INT_NUMBER"
    if re.match(r"^[0-9.][0-9_.eE+-]*$", w):
        return "FLOAT_NUMBER"
    if w.startswith('"') and re.match(r'^"[01_]*"$', w):
        return "BIT_STRING"
    if w.startswith('"'):
        return "STRING"
    if w.startswith("$"):
        return "HARDWAREIDENT"
    return "IDENT"


class Res:
    """decoded analysis result"""
    def __init__(self, fam, ctx, errs):
        self.fam = fam
        self.ctx = fam.dec.decode(ctx, "Context")
        self.errlist = fam.dec.decode(errs, "SemanticErrorList")
        raw = ctx
        while isinstance(raw, Ref):
            raw = raw.get()
        names = [f for f, _ in fam.dec.defs.structs["Context"]]
        self.raw_table = raw[names.index("symbol_table")]
        self.program = self.ctx["program"]
        self.stmts = self.program["stmts"]
        self.symbols = self.ctx["symbol_table"]["all_symbols"]
        self.errors = [(e["error_kind"].v, e["node"].clo, e["node"].chi) for e in self.errlist["list"]]

    def kinds(self):
        return [k for k, _, _ in self.errors]

    def errors_in(self, lo, hi):
        return [k for k, a, b in self.errors if lo <= a < hi]

    def sym_type(self, res):
        """type record of a SymbolIdResult"""
        if res.v != "Ok":
            return None
        return self.symbols[res[0][0]]["typ"]


# ------------------------------------------------------------------------------------------------ triage
_CONF = {}


def native_check(text):
    return native.run_one("semantic " + native.hexs(text), "dev", timeout=20)


def engine_agrees_with_native(text):
    from . import s2validate
    if "kit" not in _CONF:
        _CONF["kit"] = SemKit(); _CONF["ex"] = _CONF["kit"].new_exec(max_steps=8000000)
        _CONF["sn"] = s2validate.structs(_CONF["kit"].prog)
    kit, ex = _CONF["kit"], _CONF["ex"]
    toks = s2validate.tokens_of(text)
    if toks is None:
        return "the text has lexical errors"
    nat = native_check(text)
    if native.failed(nat):
        return "native run failed: " + str(nat)[:200]
    ex.reset([])
    try:
        r = s2validate.engine_run(kit, ex, toks)
    except (Panic, Unsupported, StepLimit) as e:
        return "engine: " + repr(e)[:200]
    return s2validate.compare(kit, _CONF["sn"], r, nat)


def collector(res, label_of=str):
    fails = collections.OrderedDict(); counts = collections.Counter()

    def on_result(idx, task, recs, left, stats, err):
        if err:
            res.inconclusive.append(err[:600])
        if left:
            res.inconclusive.append(f"{label_of(task)} not exhausted")
        if stats.get("task_ms", 0) > 15000:
            res.extra.setdefault("slow_tasks", []).append(f"{label_of(task)}: {stats['task_ms'] / 1000:.0f}s, {stats.get('paths')} paths, solver {stats.get('solver_time_ms', 0) / 1000:.0f}s")
        if not err and not stats.get("paths"):
            res.inconclusive.append(f"vacuous task {label_of(task)}")
        for r in recs:
            if r[0] == "ok":
                counts[r[1]] += 1; res.obligations += r[2]
                if len(r) > 3 and r[3] and len(res.extra.setdefault("_ok_samples", [])) < 400:
                    res.extra["_ok_samples"].append(r[3])
            else:
                d = fails.setdefault(r[2], {"count": 0, "ex": []})
                d["count"] += 1
                if len(d["ex"]) < 3:
                    d["ex"].append(r)
    return fails, counts, on_result


def validate_samples(ctx, res, limit=24):
    """engine == native on a sample of PASSING paths' concrete programs (graph, diagnostics): keeps the models honest"""
    import random
    samples = res.extra.pop("_ok_samples", [])
    rnd = random.Random(ctx.seed)
    rnd.shuffle(samples)
    bad = 0
    for text in samples[:limit]:
        diff = engine_agrees_with_native(text)
        if diff is None:
            res.validated += 1
        elif diff.startswith("native run failed") or diff.startswith("the text has lexical"):
            continue
        else:
            bad += 1
            res.inconclusive.append(f"engine and native pipeline differ on a passing path's program `{text}`: {diff}")
    res.extra["engine_native_samples"] = {"compared": res.validated, "differ": bad}


def triage(ctx, res, pid, fails, panic_is="skip"):
    """panic_is: 'skip' (C03's subject: recorded, not judged here) or 'violation'"""
    validate_samples(ctx, res)
    known_by_id = {k["id"]: k for k in ctx.known}
    seen = collections.Counter()
    for site, info in fails.items():
        r0 = info["ex"][0]
        if r0[1] in ("unsupported", "stuck"):
            res.inconclusive.append(f"{r0[1]} ({info['count']} paths): {site[:240]} e.g. `{r0[3]}` [{r0[4]}]")
            continue
        if r0[1] == "panic" and panic_is == "skip":
            o = native_check(r0[3])
            if native.failed(o):
                res.extra.setdefault("skipped_because_analysis_panics", []).append({"site": site[:160], "paths": info["count"], "example": r0[3]})
                continue
            res.inconclusive.append(f"engine panic does not reproduce natively ({info['count']} paths): {site[:200]} e.g. `{r0[3]}`")
            continue
        confirmed = None
        for r in info["ex"]:
            if r[1] == "panic":
                o = native_check(r[3])
                diff = None if native.failed(o) else "the native analysis does not panic"
            else:
                diff = engine_agrees_with_native(r[3])
            if diff is None:
                confirmed = r; break
        if confirmed is None:
            res.inconclusive.append(f"counterexample not confirmed natively: engine and native differ on `{r0[3]}`: {diff}  [{site[:160]}]")
            continue
        r0 = confirmed
        res.validated += 1
        kid = None
        for k in ctx.known:
            if re.search(k["site"], site) and (not k.get("label") or re.search(k["label"], r0[4])):
                kid = k["id"]; break
        if kid:
            seen[kid] += info["count"]
            if seen[kid] == info["count"]:
                res.known_hits.append(f"{kid}: {known_by_id[kid].get('what', '')} (e.g. `{r0[3]}`)")
            continue
        o = native_check(r0[3])
        what = {"site": site, "paths": info["count"], "template": r0[4], "program": r0[3], "detail": r0[5],
                "native": {"errors": (o or {}).get("semantic_errors"), "program": str((o or {}).get("program"))[:800]}}
        rp = os.path.join(ctx.replay_dir, "sem_" + hashlib.sha1((site + r0[4]).encode()).hexdigest()[:10] + ".json")
        json.dump({"property": pid, "program": r0[3], "what": what}, open(rp, "w"), indent=1)
        res.violations.append({"what": json.dumps(what), "replay": rp})
        res.samples.append(what)


def replay(ctx, path):
    d = json.load(open(path))
    o = native_check(d["program"])
    print("program:", d["program"])
    print("native:", json.dumps(o)[:1500])
    print("violated obligation:", d["what"].get("detail"))
    return 1
