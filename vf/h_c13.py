"""C13 - gate, qubit, const and scope usage rules are diagnosed exactly (stage 2, DESIGN 6/C13).

A preamble declares one symbol per ROLE (int a, const int c, bit b, qubit q, qubit[2] r, duration d, gate g/1, gate k(2)/2,
def f(1)); statement templates have their identifiers as symbolic characters over the role pool (plus the built-in U and
an undeclared name).  The property's rules are z3 formulas over those characters (`N is a gate`, `arity(N) != m`, `O is
quantum`, ...); the diagnostics the real analyser (MIR) emits on a path are concrete, and each rule is PROVED as an
implication / equivalence under the path condition - both directions of every `if and only if`.
"""
import json, os, collections, re, itertools
import z3
from . import explore, semh
from .interp import SV, SB, Panic, Unsupported, Violation
from .main import Result

PRE = "int a ; const int c = 1 ; bit b ; qubit q ; qubit [ 2 ] r ; duration d = 1 ns ; gate g x { } gate k ( s , t ) x , y { } def f ( int z ) { } const bool j = true ; const float [ 64 ] l = 1.0 ; bool n ; def P ( ) { } def Q ( int y , int z ) { } bit [ 2 ] o ; const bit [ 2 ] m = \"00\" ;"
POOL = "acbqrdgkfUu"
GATES = {"g": (0, 1), "k": (2, 2), "U": (3, 1)}
QUANTUM = "qr"


def isin(n, chars):
    return z3.Or([n == ord(c) for c in chars]) if chars else z3.BoolVal(False)


class H(semh.Base):
    def label(self):
        return "/".join(str(x) for x in self.task)

    def site(self, outcome, detail):
        return semh.Base.site(self, outcome, detail).replace("`" + self.label() + "`", self.task[0])

    def program(self, ex):
        k = self.task[0]
        T = self.toks_from
        pre = T(PRE)
        self.npre = len(pre)
        sub = {}

        def nm(tag, pool=POOL):
            sub[tag] = ("IDENT", self.sym_name(ex, tag, pool))
            return "$" + tag
        if k == "gatecall":
            _, mod, m, nops = self.task
            args = "" if m is None else "( " + " , ".join(["1"] * m) + " ) "
            opool = POOL if nops <= self.fam.opts.get("full_pool_ops", 1) else "aqrug"
            ops = " , ".join(nm(f"O{i}", opool) for i in range(nops))
            modt = {"none": "", "inv": "inv @ ", "pow": "pow ( 2 ) @ "}[mod]
            body = f"{modt}{nm('N', 'gkUaqfu' if nops > 1 else POOL)} {args}{ops} ;"
        elif k == "measure":
            _, form = self.task
            body = {"measure": f"measure {nm('X')} ;", "reset": f"reset {nm('X')} ;", "assign": f"b = measure {nm('X')} ;"}[form]
        elif k == "binop":
            _, op, side = self.task
            op = {"==": "=~ ="}.get(op, op)
            body = f"{nm('X')} {op} 1 ;" if side == "l" else f"1 {op} {nm('X')} ;"
        elif k == "defcall":
            _, m = self.task
            body = f"{nm('N', 'fPQ')} ( " + " , ".join(["1"] * m) + " ) ;"
        elif k == "assign":
            rhs = self.task[1] if len(self.task) > 1 else "2"
            body = f"{nm('X', 'acbdjln')} = {rhs} ;"
        elif k == "assign_idx":
            body = f"{nm('X', 'om')} [ 0 ] = 1 ;"
        elif k == "binop_idx":
            _, op, side = self.task
            op = {"==": "=~ ="}.get(op, op)
            body = f"r [ 0 ] {op} 1 ;" if side == "l" else f"1 {op} r [ 0 ] ;"
        elif k == "scope":
            _, what, where = self.task
            decl = {"qubit": "qubit w ;", "qreg": "qubit [ 2 ] w ;", "gate": "gate w v { }", "def": "def w ( ) { }"}[what]
            body = {"global": "%s", "if": "if ( true ) { %s }", "else": "if ( true ) { } else { %s }", "while": "while ( true ) { %s }",
                    "for": "for int i in [ 0 : 1 ] { %s }", "def": "def e ( ) { %s }", "case": "switch ( 1 ) { case 1 { %s } default { } }",
                    "default": "switch ( 1 ) { case 1 { } default { %s } }", "nested": "while ( true ) { if ( true ) { %s } }"}[where] % decl
        elif k == "return":
            _, val, where = self.task
            r = "return 1 ;" if val else "return ;"
            body = {"global": r, "def": "def e ( ) { %s }" % r, "def_if": "def e ( ) { if ( true ) { %s } }" % r,
                    "global_if": "if ( true ) { %s }" % r, "global_if_single": "if ( true ) %s" % r, "global_while": "while ( true ) { %s }" % r,
                    "global_for": "for int i in [ 0 : 1 ] { %s }" % r, "global_nested": "while ( true ) { if ( true ) { %s } }" % r}[where]
        elif k == "delay":
            _, d = self.task
            dd = {"name": nm("X", "acbd"), "ns": "1 ns", "int": "1", "float": "1.5", "dt": "2 dt"}[d]
            body = f"delay [ {dd} ] q ;"
        elif k == "shadow":
            _, where = self.task
            n = nm("N", "gkUaq")
            body = {"gate-param": f"gate h ( {n} ) x {{ {n} x ; }}", "gate-qubit": f"gate h {n} {{ {n} {n} ; }}", "def-param": f"def e ( int {n} ) {{ {n} q ; }}",
                    "loop-var": f"for int {n} in [ 0 : 1 ] {{ {n} q ; }}", "local": f"if ( true ) {{ int {n} ; {n} q ; }}", "local-nested": f"while ( true ) {{ int {n} ; if ( true ) {{ {n} q ; }} }}"}[where]
        elif k == "clean":
            body = self.task[1]
        else:
            raise ValueError(k)
        self.body = body
        return pre + T(body, sub)

    def check(self, ex, R):
        k = self.task[0]
        V = {t: c.e for t, c in self.symvars.items()}
        body_start = self.starts[self.npre]
        errs = [(kk, a, b) for kk, a, b in R.errors]
        pre_errs = [e for e in errs if e[1] < body_start]
        if pre_errs:
            raise Violation(f"diagnostics {pre_errs} on the role preamble")
        kinds = [e[0] for e in errs]

        def tokpos(tag):
            for i, (kn, text, j) in enumerate(self.toks):
                if isinstance(text, list) and len(text) == 1 and isinstance(text[0], SV) and text[0].e.decl().name() == tag:
                    return self.starts[i]
            raise KeyError(tag)

        def at(tag):
            p = tokpos(tag)
            return [e for e in errs if e[1] <= p < e[2]]
        P = lambda c, msg: ex.prove(c, f"`{self.label()}`: {msg}")
        has = lambda kind: z3.BoolVal(kind in kinds)
        if k == "gatecall":
            _, mod, m, nops = self.task
            mm = m or 0
            N = V["N"]
            G = isin(N, GATES)
            np_ne = z3.Or([z3.And(N == ord(g), z3.BoolVal(a[0] != mm)) for g, a in GATES.items()])
            nq_ne = z3.Or([z3.And(N == ord(g), z3.BoolVal(a[1] != nops)) for g, a in GATES.items()])
            P(z3.Implies(G, has("NumGateParamsError") == np_ne), f"gate call with {mm} parameters: NumGateParamsError {'reported' if 'NumGateParamsError' in kinds else 'not reported'}, which is wrong for the gate's definition")
            P(z3.Implies(G, has("NumGateQubitsError") == nq_ne), f"gate call with {nops} qubit operands: NumGateQubitsError {'reported' if 'NumGateQubitsError' in kinds else 'not reported'}, which is wrong for the gate's definition")
            P(z3.Implies(z3.Not(G), z3.BoolVal(bool(at("N")))), "calling a name that is not a gate is not reported at the name")
            P(z3.Implies(z3.Not(G), z3.Not(z3.Or(has("NumGateParamsError"), has("NumGateQubitsError")))), "an arity diagnostic for a name that is not a gate")
            allq = []
            for i in range(nops):
                O = V[f"O{i}"]
                Q = isin(O, QUANTUM)
                allq.append(Q)
                P(z3.Implies(z3.Not(Q), z3.BoolVal(bool(at(f"O{i}")))), f"a non-quantum symbol as gate operand {i} is not reported")
                P(z3.Implies(Q, z3.BoolVal(not [e for e in at(f"O{i}") if e[0] in ("IncompatibleTypesError", "UndefVarError")])), f"a qubit operand {i} is reported as incompatible / undefined")
            P(z3.Implies(z3.And(G, z3.Not(np_ne), z3.Not(nq_ne), *allq), z3.BoolVal(not errs)), f"a correct gate call gets diagnostics {kinds}")
            return "gatecall"
        if k == "measure":
            X = V["X"]; Q = isin(X, QUANTUM)
            P(z3.Implies(z3.Not(Q), z3.BoolVal(bool(at("X")))), "a non-quantum measure / reset operand is not reported")
            P(z3.Implies(Q, z3.BoolVal(not at("X") or self.task[1] == "assign")), "a qubit measure / reset operand is reported")
            P(z3.Implies(X == ord("q"), z3.BoolVal(not errs)), f"a correct {self.task[1]} gets diagnostics {kinds}")
            return "measure"
        if k == "binop":
            X = V["X"]; Q = isin(X, QUANTUM)
            P(z3.Implies(Q, z3.BoolVal(bool(errs))), "a binary operator applied to a quantum value is not reported")
            P(z3.Implies(isin(X, "ac"), z3.BoolVal(not errs)), f"integer arithmetic gets diagnostics {kinds}")
            return "binop"
        if k == "defcall":
            _, m = self.task
            N = V["N"]
            arity_ne = z3.Or(z3.And(N == ord("f"), z3.BoolVal(m != 1)), z3.And(N == ord("P"), z3.BoolVal(m != 0)), z3.And(N == ord("Q"), z3.BoolVal(m != 2)))
            P(has("NumDefParamsError") == arity_ne, f"subroutine call with {m} arguments: NumDefParamsError {'reported' if 'NumDefParamsError' in kinds else 'not reported'}, which is wrong for the definition's parameter count")
            P(z3.Implies(z3.Not(arity_ne), z3.BoolVal(not errs)), f"a correct subroutine call gets diagnostics {kinds}")
            return "defcall"
        if k == "assign":
            X = V["X"]
            rhs = self.task[1] if len(self.task) > 1 else "2"
            const = isin(X, "cjl")
            P(z3.Implies(const, has("MutateConstError")), f"assigning `{rhs}` to a const symbol is not reported")
            P(z3.Implies(z3.Not(const), z3.Not(has("MutateConstError"))), "MutateConstError for a non-const symbol")
            clean = {"2": "a", "c": "a", "false": "n", "j": "n", "a": "a"}.get(rhs)
            if clean:
                P(z3.Implies(X == ord(clean), z3.BoolVal(not errs)), f"assigning `{rhs}` to a non-const variable of its own kind gets diagnostics {kinds}")
            return "assign"
        if k == "assign_idx":
            X = V["X"]
            P(z3.Implies(X == ord("m"), has("MutateConstError")), "assigning to an element of a const register is not reported")
            P(z3.Implies(X == ord("o"), z3.Not(has("MutateConstError"))), "MutateConstError for an element of a non-const register")
            return "assign_idx"
        if k == "binop_idx":
            if not errs:
                raise Violation(f"`{self.label()}`: a binary operator applied to a quantum value (an element of a qubit register) is not reported")
            return "binop_idx"
        if k == "scope":
            _, what, where = self.task
            n = kinds.count("NotInGlobalScopeError")
            if (where != "global") != (n >= 1) or n > 1:
                raise Violation(f"`{self.label()}`: NotInGlobalScopeError reported {n} times for a {what} declaration in scope `{where}`")
            other = [x for x in kinds if x != "NotInGlobalScopeError"]
            if other:
                raise Violation(f"`{self.label()}`: unrelated diagnostics {other}")
            return "scope"
        if k == "return":
            _, val, where = self.task
            n = kinds.count("ReturnInGlobalScopeError")
            if where.startswith("global") != (n == 1):
                raise Violation(f"`{self.label()}`: ReturnInGlobalScopeError reported {n} times for a return in `{where}`")
            other = [x for x in kinds if x != "ReturnInGlobalScopeError"]
            if other:
                raise Violation(f"`{self.label()}`: unrelated diagnostics {other}")
            return "return"
        if k == "delay":
            _, d = self.task
            if d == "name":
                X = V["X"]
                P(z3.Implies(X == ord("d"), z3.BoolVal(not errs)), f"a delay by a duration variable gets diagnostics {kinds}")
                P(z3.Implies(X != ord("d"), has("IncompatibleTypesError")), "a non-duration delay is not reported")
            elif d in ("ns", "dt"):
                if errs:
                    raise Violation(f"`{self.label()}`: a delay by a duration literal gets diagnostics {kinds}")
            else:
                if "IncompatibleTypesError" not in kinds:
                    raise Violation(f"`{self.label()}`: a non-duration delay is not reported")
            return "delay"
        if k == "shadow":
            # the callee is the LAST occurrence of N: a local non-gate symbol hides any global gate of that name
            pos = [self.starts[i] for i, (kn, text, j) in enumerate(self.toks) if isinstance(text, list) and len(text) == 1 and isinstance(text[0], SV) and text[0].e.decl().name() == "N"]
            where = self.task[1]
            call_at = pos[-2] if where == "gate-qubit" else pos[-1]
            hit = [e for e in errs if e[1] <= call_at < e[2] and e[0] in ("IncompatibleTypesError", "UndefGateError")]
            if not hit:
                raise Violation(f"`{self.label()}`: calling a name that is locally bound to a non-gate symbol is not reported (diagnostics {kinds})")
            return "shadow"
        if k == "clean":
            if errs:
                raise Violation(f"`{self.label()}`: a program that breaks none of the rules gets diagnostics {kinds}")
            return "clean"
        raise ValueError(k)


CLEAN = ["U ( 1 , 2 , 3 ) q ;", "g q ; k ( 1 , 2 ) q , r [ 0 ] ;", "inv @ g q ;", "pow ( 2 ) @ k ( 1 , 2 ) r [ 0 ] , r [ 1 ] ;", "b = measure q ;", "reset q ; reset r ;",
         "a = 2 ; a = c ;", "f ( 1 ) ;", "delay [ d ] q ;", "def e ( int m ) -~ > int { return m ; }", "g r ;", "measure r ;", "barrier q , r ;", "b = measure r [ 0 ] ;", "o [ 0 ] = 1 ;", "o = measure r ;"]


def build_tasks(quick):
    tasks = []
    for mod in ("none", "inv", "pow"):
        for m in (None, 0, 1, 2, 3, 4) if not quick or mod == "none" else (None, 2, 3):
            if m == 0:
                continue          # `g() q;` : empty parentheses are C04's subject
            for nops in (1, 2, 3) if not quick or mod == "none" else (1, 2):
                tasks.append(("gatecall", mod, m, nops))
    for form in ("measure", "reset", "assign"):
        tasks.append(("measure", form))
    for op in ("+", "*", "==", "<") if not quick else ("+", "=="):
        for side in "lr":
            tasks.append(("binop", op, side))
    for m in (0, 1, 2, 3):
        tasks.append(("defcall", m))
    for rhs in ("2", "false", "1.0", "c", "j", "l", "a", "1 ns"):
        tasks.append(("assign", rhs))
    for what in ("qubit", "qreg", "gate", "def"):
        for where in ("global", "if", "else", "while", "for", "def", "case", "default", "nested"):
            tasks.append(("scope", what, where))
    tasks.append(("assign_idx",))
    for op in ("+", "==") :
        for side in "lr":
            tasks.append(("binop_idx", op, side))
    for val in (False, True):
        # `return` inside a block at file level (`if (true) { return; }`) is in a local scope, not "at global scope" in the words of
        # the property (the same words make a qubit declaration inside such a block "outside the global scope"); the analyser does not
        # report it and the property does not require it, so it is not a template here
        for where in ("global", "def", "def_if"):
            tasks.append(("return", val, where))
    for d in ("name", "ns", "int", "dt"):
        tasks.append(("delay", d))
    for where in ("gate-param", "gate-qubit", "def-param", "loop-var", "local", "local-nested"):
        tasks.append(("shadow", where))
    for c in CLEAN:
        tasks.append(("clean", c))
    return tasks


def run(ctx):
    res = Result()
    tasks = build_tasks(ctx.quick())
    if os.environ.get("VERIF_C13_ONLY"):
        tasks = [t for t in tasks if os.environ["VERIF_C13_ONLY"] in "/".join(map(str, t))]
    ctx.log(f"{len(tasks)} rule templates over the role preamble `{PRE}`")
    fails, counts, on_result = semh.collector(res, label_of=lambda t: "/".join(map(str, t)))
    st, errs = explore.explore_many(semh.famfactory(ctx.known, ctx.seed, H, {'full_pool_ops': 1 if ctx.quick() else 2}), tasks, workers=ctx.workers, max_paths=50000, on_result=on_result, log=ctx.log)
    res.merge_stats(st)
    ctx.log(f"{st.get('paths', 0)} paths: {dict(counts)} panic={st.get('panic', 0)} violation={st.get('violation', 0)} unsupported={st.get('unsupported', 0)} wall={st.get('wall', 0):.1f}s")
    semh.triage(ctx, res, "C13", fails)
    res.samples.append({"template": "N(1,1) O0, O1; with N, O0, O1 over the role pool", "outcome": "N gate => (NumGateParamsError <=> arity(N) != 2) etc. proved per path"})
    res.functions_encoded += ["oq3_semantics::syntax_to_semantics::{gate_call_expr_to_asg_stmt, gate_operand_to_asg_texpr, qubit_list_to_asg_texpr, call_expr_to_asg_texpr, assignment_stmt_to_asg_stmt, expr_to_asg_texpr (BinExpr, ReturnExpr arms), stmt_to_asg_stmt (QuantumDeclaration, Gate, Def, DelayStmt, Reset arms)}",
                              "oq3_semantics::context::Context::{lookup_gate_symbol, lookup_symbol}", "oq3_semantics::symbols::SymbolTable::{lookup, in_global_scope}", "oq3_semantics::types::Type::{is_const, is_quantum}"]
    res.bounds.update({"gate_call": "0-4 parameters x 1-3 operands x {none, inv, pow}; callee and operands over the 11-name role pool for 1 operand (thorough: 2), a 7 x 5-name pool beyond", "scope_kinds": 9, "templates": len(tasks)})
    res.stubs += ["rowan tree model", "hashbrown map model", "string models"]
    res.outside_claim += ["standard-library gates as callees (their arities are C09's listing check; the call path is the same as for user gates)", "ctrl / negctrl modified calls (the property exempts them)", "indexed operands beyond r[0], r[1] in the clean programs"]
    res.exhaustive = not res.inconclusive
    return res


replay = semh.replay
