"""Top-level cut for parser explorations (DESIGN 5, "Top-level cut").

The file-level loops (`source_file_contents` calling `item`; `expr_block_statements` at depth 0 calling
`stmt`) process one construct and come back to the loop head.  A segment exploration starts at such a loop
head (mode A = source_file_contents, mode B = depth-0 expr_block_statements), with the parser positioned at
token index P, and stops a path when the loop is about to start the NEXT construct having consumed >= 1
token.  At the cut the harness checks the state claim: only loop frames are live, and the events pushed by
the construct are balanced when run through the real `event::process`.
"""
import z3
from .interp import SV, SB, VecV, Ref, EnumV, Cut, StepLimit, Panic, Unsupported, Violation, UNIT, shallow_copy

TOPSET_SUFFIX = ("parse", "source_file", "source_file_contents", "item", "expr_block_statements")


def _base(name):
    return name.split("::")[-1]


class SegRunner:
    def __init__(self, kit):
        self.kit = kit
        p = kit.prog
        self.f_item = self._fn("item")
        self.f_stmt = self._fn("stmt")
        self.f_sfc = self._fn("source_file_contents")
        self.f_ebs = self._fn("expr_block_statements")
        self.f_process = self._fn("process")
        self.f_start = p.methods.get(("Parser", None, "start"))
        self.f_new = p.methods.get(("Parser", None, "new"))
        self.f_complete = p.methods.get(("Marker", None, "complete"))
        for f in (self.f_start, self.f_new, self.f_complete):
            if f is None:
                raise RuntimeError("parser method not found in MIR")

    def _fn(self, base):
        c = [f for raw, f in self.kit.prog.funcs.items() if f.kind == "fn" and _base(raw) == base and "<impl" not in raw and "{closure" not in raw]
        if len(c) != 1:
            raise RuntimeError(f"cannot identify function {base} in MIR ({len(c)} candidates)")
        return c[0]

    def install(self, ex, state):
        """state: dict with P; filled with seg_start, heads"""
        def hook(ex_, f, args):
            if not all(_base(s) in TOPSET_SUFFIX for s in ex_.stack):
                return
            p = args[0].get()
            pos = p[1]
            ev = p[2].items
            if pos > state["P"]:
                raise Cut({"pos": pos, "events": ev, "fn": _base(f.rawname), "seg_start": state.get("seg_start", len(ev))})
            key = (_base(f.rawname), pos)
            if key in state["heads"]:
                raise StepLimit("no progress at top-level loop head in " + key[0])
            state["heads"].add(key)
            state.setdefault("seg_start", len(ev))
        ex.hooks[self.f_item.rawname] = hook
        ex.hooks[self.f_stmt.rawname] = hook

    def run(self, ex, toks, jwords, mode="A", P=0, pad_kind=None):
        """returns dict(kind='full'|'cut', steps=[decoded steps of the segment or whole output], consumed=..)"""
        kit = self.kit
        pad = kit.K["SEMICOLON"] if pad_kind is None else pad_kind
        kinds = [pad] * P + list(toks)
        inp = [VecV(kinds), VecV(list(jwords))]
        state = {"P": P, "heads": set()}
        self.install(ex, state)
        try:
            if mode == "A" and P == 0:
                out = ex.call("TopEntryPoint::parse", [Ref([0], 0), Ref([inp], 0)])
                return {"kind": "full", "steps": kit.decode(out), "consumed": len(toks)}
            parser = ex.run(self.f_new, [Ref([inp], 0)])
            parser[1] = P
            pref = Ref([parser], 0)
            m = ex.run(self.f_start, [pref])
            if mode == "B":
                ex.run(self.f_ebs, [pref])
            ex.run(self.f_sfc, [pref, False])
            ex.run(self.f_complete, [m, pref, kit.K["SOURCE_FILE"]])
            out = ex.run(self.f_process, [parser[2]])
            steps = kit.decode(out)
            self.check_balance(steps, whole=True)
            return {"kind": "full", "steps": steps, "consumed": len(toks)}
        except Cut as c:
            info = c.info
            seg = VecV(shallow_copy(info["events"][info["seg_start"]:]))
            ex.hooks = {}
            out = ex.run(self.f_process, [seg])
            steps = kit.decode(out)
            self.check_balance(steps, whole=False)
            return {"kind": "cut", "steps": steps, "consumed": info["pos"] - P, "next": info["fn"]}
        finally:
            ex.hooks = {}

    @staticmethod
    def check_balance(steps, whole):
        depth = 0
        for s in steps:
            if s[0] == "enter":
                depth += 1
            elif s[0] == "exit":
                depth -= 1
                if depth < 0:
                    raise Panic("segment events unbalanced: exit below segment start")
            elif s[0] == "floatsplit":
                raise Panic("FloatSplit event produced")
            elif s[0] == "token" and whole and depth <= 0:
                raise Panic("token outside the root node")
        if depth != 0:
            raise Panic(f"segment events unbalanced: depth {depth} at the cut")
