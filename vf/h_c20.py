"""C20 - type promotion is a join on the numeric tower and never narrows (DESIGN 6/C20), mirsym engine.

promote_types / can_cast_literal / implicit helpers of oq3_semantics::types are executed from MIR on every ordered pair
of type SHAPES (constructor, width present or absent, array rank) with SYMBOLIC widths (all u32), const flags, array
dimensions and gate arities.  The oracle is the order of the property text, written as SMT predicates below.
"""
import json, os, hashlib, collections, itertools
import z3
from . import explore, native, mirdump
from .interp import Program, Exec, SV, SB, EnumV, VecV, Ref, UNIT, Panic, Unsupported, Violation, StepLimit
from .models import Models
from .main import Result

WIDTH_TYPES = ["Int", "UInt", "Float", "Angle", "Complex"]
CONST_ONLY = ["Bit", "Bool", "Duration", "Stretch"]
ARRAYS = ["QubitArray", "IntArray", "UIntArray", "FloatArray", "AngleArray", "ComplexArray", "BoolArray", "DurationArray"]
UNITS = ["Qubit", "HardwareQubit", "Range", "Set", "Void", "ToDo", "Undefined"]
TOWER = {"Int": 0, "UInt": 0, "Float": 1, "Complex": 2}


def shapes(quick):
    out = []
    for t in WIDTH_TYPES:
        out += [(t, "w"), (t, "nw")]
    out += [(t, "") for t in CONST_ONLY]
    ranks = [1] if quick else [1, 2, 3]
    out += [("BitArray", f"d{r}") for r in ranks]
    for a in ARRAYS:
        out += [(a, f"d{r}") for r in ranks]
    out += [("Gate", ""), ("SubroutineDef", "void"), ("SubroutineDef", "int")]
    out += [(u, "") for u in UNITS]
    return out


class TInfo:
    """oracle-side description of a type value"""
    def __init__(self, ctor, width=None, has_width=False, const=None, dims=None, extra=None):
        self.ctor = ctor; self.width = width; self.has_width = has_width; self.const = const; self.dims = dims; self.extra = extra


def B(x):
    return x if not isinstance(x, bool) else z3.BoolVal(x)


def same_up_to_const(a, b):
    if a.ctor != b.ctor:
        return z3.BoolVal(False)
    cs = []
    if a.has_width != b.has_width:
        return z3.BoolVal(False)
    if a.has_width:
        cs.append(a.width == b.width)
    if (a.dims is None) != (b.dims is None):
        return z3.BoolVal(False)
    if a.dims is not None:
        if len(a.dims) != len(b.dims):
            return z3.BoolVal(False)
        cs += [x == y for x, y in zip(a.dims, b.dims)]
    if (a.extra is None) != (b.extra is None):
        return z3.BoolVal(False)
    if a.extra is not None:
        if len(a.extra) != len(b.extra):
            return z3.BoolVal(False)
        for x, y in zip(a.extra, b.extra):
            if isinstance(x, TInfo):
                cs.append(z3.And(same_up_to_const(x, y), const_of(x) == const_of(y)))
            else:
                cs.append(x == y)
    return z3.And(cs) if cs else z3.BoolVal(True)


def const_of(a):
    return z3.BoolVal(True) if a.const is None else a.const


def width_leq(a, b):
    if not b.has_width:
        return z3.BoolVal(True)        # 'no width' is above every width
    if not a.has_width:
        return z3.BoolVal(False)
    return z3.ULE(a.width, b.width)


def leq(a, b):
    """a <= b in the order of the property: int, uint < float < complex; same kind: by width; everything else: only itself"""
    if a.ctor in TOWER and b.ctor in TOWER:
        la, lb = TOWER[a.ctor], TOWER[b.ctor]
        if la < lb:
            return z3.BoolVal(True)
        if la > lb or a.ctor != b.ctor:
            return z3.BoolVal(False)
        return width_leq(a, b)
    return same_up_to_const(a, b)


def bound_exists(a, b):
    if a.ctor in TOWER and b.ctor in TOWER:
        return z3.BoolVal(True)        # complex without width is above all four kinds
    return same_up_to_const(a, b)


class Family:
    def __init__(self, seed):
        self.seed = seed
        self.prog = Program([mirdump.dump("oq3_semantics")], mirdump.REPO)
        self.models = Models()
        install_box_models(self.models)
        self.ex = Exec(self.prog, self.models, max_steps=200000)
        self.TV = self.prog.enums["Type"][0]
        self.f = {}
        for name in ("promote_types", "can_cast_literal", "equal_up_to_constness", "promote_types_not_equal"):
            c = [f for raw, f in self.prog.funcs.items() if raw.split("::")[-1] == name and f.kind == "fn"]
            if len(c) > 1:
                c = [f for f in c if f.rawname.startswith("types::")] or c
            if len(c) != 1:
                raise RuntimeError(f"{name}: {len(c)} candidates in MIR")
            self.f[name] = c[0]
        ic = [f for raw, f in self.prog.funcs.items() if raw.split("::")[-1] == "implicit_cast_type" and f.kind == "fn"]
        self.f["implicit_cast_type"] = ic[0] if len(ic) == 1 else None

    def harness(self, task):
        return PairHarness(self, task)

    def exec_for(self, h):
        return self.ex

    # ---- building values
    def mk(self, ex, shape, tag):
        ctor, var = shape
        idx = self.TV.index(ctor)

        def constflag():
            c = SV(z3.BitVec(f"{tag}_const", 64), 64)
            ex.add_constraint(z3.Or(c.e == 0, c.e == 1))
            return c, (c.e == 0)      # IsConst::True is the first variant

        def dims(n):
            ds = [SV(z3.BitVec(f"{tag}_d{i}", 64), 64) for i in range(n)]
            AD = self.prog.enums["ArrayDims"][0]
            return EnumV("ArrayDims", AD.index(f"D{n}"), list(ds)), [d.e for d in ds]
        if ctor in WIDTH_TYPES:
            c, cb = constflag()
            if var == "w":
                w = SV(z3.BitVec(f"{tag}_w", 32), 32)
                return EnumV("Type", idx, [EnumV("Option", 1, [w]), c]), TInfo(ctor, w.e, True, cb)
            return EnumV("Type", idx, [EnumV("Option", 0, []), c]), TInfo(ctor, None, False, cb)
        if ctor in CONST_ONLY:
            c, cb = constflag()
            return EnumV("Type", idx, [c]), TInfo(ctor, const=cb)
        if ctor == "BitArray":
            c, cb = constflag()
            d, de = dims(int(var[1]))
            return EnumV("Type", idx, [d, c]), TInfo(ctor, const=cb, dims=de)
        if ctor in ARRAYS:
            d, de = dims(int(var[1]))
            return EnumV("Type", idx, [d]), TInfo(ctor, dims=de)
        if ctor == "Gate":
            a, b = SV(z3.BitVec(f"{tag}_np", 64), 64), SV(z3.BitVec(f"{tag}_nq", 64), 64)
            return EnumV("Type", idx, [a, b]), TInfo(ctor, extra=[a.e, b.e])
        if ctor == "SubroutineDef":
            n = SV(z3.BitVec(f"{tag}_n", 64), 64)
            if var == "void":
                inner, ii = EnumV("Type", self.TV.index("Void"), []), TInfo("Void")
            else:
                inner, ii = self.mk(ex, ("Int", "w"), tag + "r")
            return EnumV("Type", idx, [[n, Ref([inner], 0)]]), TInfo(ctor, extra=[n.e, ii])
        return EnumV("Type", idx, []), TInfo(ctor)

    def info(self, v):
        """TInfo of a result value"""
        while isinstance(v, Ref):
            v = v.get()
        ctor = self.TV[v.idx]
        f = v.fields

        def cb(c):
            return z3.BoolVal(c == 0) if isinstance(c, int) else (c.e == 0)

        def term(x, w):
            return z3.BitVecVal(x, w) if isinstance(x, int) else x.e
        if ctor in WIDTH_TYPES:
            o = f[0]
            if o.idx == 1:
                return TInfo(ctor, term(o.fields[0], 32), True, cb(f[1]))
            return TInfo(ctor, None, False, cb(f[1]))
        if ctor in CONST_ONLY:
            return TInfo(ctor, const=cb(f[0]))
        if ctor == "BitArray":
            return TInfo(ctor, const=cb(f[1]), dims=[term(x, 64) for x in f[0].fields])
        if ctor in ARRAYS:
            return TInfo(ctor, dims=[term(x, 64) for x in f[0].fields])
        if ctor == "Gate":
            return TInfo(ctor, extra=[term(f[0], 64), term(f[1], 64)])
        if ctor == "SubroutineDef":
            sd = f[0]
            return TInfo(ctor, extra=[term(sd[0], 64), self.info(sd[1])])
        return TInfo(ctor)


def install_box_models(models):
    R = models.reg
    n0 = len(models.table)

    def deref(x):
        while isinstance(x, Ref):
            x = x.get()
        return x

    @R(r"^<Box<.*> as Clone>::clone$")
    def _box_clone(ex, c, a):
        inner = deref(a[0])
        m = __import__("re").match(r"^<Box<(.*)> as Clone>::clone$", c)
        f = ex.prog.resolve("<%s as Clone>::clone" % m.group(1))
        if f is None:
            raise Unsupported("clone of boxed " + m.group(1))
        return Ref([ex.run(f, [Ref([inner], 0)])], 0)

    @R(r"^<Box<.*> as PartialEq>::eq$")
    def _box_eq(ex, c, a):
        m = __import__("re").match(r"^<Box<(.*)> as PartialEq>::eq$", c)
        f = ex.prog.resolve("<%s as PartialEq>::eq" % m.group(1))
        if f is None:
            raise Unsupported("eq of boxed " + m.group(1))
        return ex.run(f, [Ref([deref(a[0])], 0), Ref([deref(a[1])], 0)])

    @R(r"^Box::<.*>::new$")
    def _box_new(ex, c, a):
        return Ref([a[0]], 0)
    new = models.table[n0:]
    del models.table[n0:]
    models.table[0:0] = new
    models._cache_lookup.clear()


class PairHarness:
    def __init__(self, fam, task):
        self.fam = fam; self.task = task

    def run(self, ex):
        fam = self.fam
        kind = self.task[0]
        if kind == "pair":
            _, sa, sb = self.task
            a, ia = fam.mk(ex, sa, "a")
            b, ib = fam.mk(ex, sb, "b")
            self.infos = (ia, ib)
            r1 = ex.run(fam.f["promote_types"], [Ref([a], 0), Ref([b], 0)])
            r2 = ex.run(fam.f["promote_types"], [Ref([b], 0), Ref([a], 0)])
            i1, i2 = fam.info(r1), fam.info(r2)
            self.result = i1
            P = lambda cond, msg: (ex.prove(B(cond), msg))
            P(same_up_to_const(i1, i2), "promotion is not symmetric up to const-ness")
            isvoid = i1.ctor == "Void"
            if not isvoid:
                P(leq(ia, i1), "the common type is not an upper bound of the first operand")
                P(leq(ib, i1), "the common type is not an upper bound of the second operand")
                P(z3.Implies(const_of(i1), z3.And(const_of(ia), const_of(ib))), "the common type is const although an operand is not")
            if isvoid and not (ia.ctor == "Void" and ib.ctor == "Void"):
                P(z3.Not(bound_exists(ia, ib)), "'no common type' although the operands have an upper bound in the order")
            if not isvoid:
                P(bound_exists(ia, ib), "a common type is reported for operands without an upper bound")
            # literal castability
            cc = ex.run(fam.f["can_cast_literal"], [Ref([a], 0), Ref([b], 0)])
            ccb = cc.e if isinstance(cc, SB) else z3.BoolVal(bool(cc))
            P(z3.Implies(z3.And(z3.BoolVal(not isvoid), same_up_to_const(i1, ia)), ccb), "literal castability does not include a promotion into the target type")
            if (ia.ctor in ("Int", "UInt") and ib.ctor in ("Float", "Complex")) or (ia.ctor == "Float" and ib.ctor == "Complex"):
                P(z3.Not(ccb), "literal castability narrows the kind (float/complex into integer, or complex into float)")
            return "pair"
        if kind == "same":
            _, sa = self.task
            a, ia = fam.mk(ex, sa, "a")
            self.infos = (ia, ia)
            r = ex.run(fam.f["promote_types"], [Ref([a], 0), Ref([a], 0)])
            ir = fam.info(r)
            self.result = ir
            ex.prove(B(z3.And(same_up_to_const(ir, ia), const_of(ir) == const_of(ia))), "promotion of a type with itself is not that type")
            return "same"
        if kind == "triple":
            _, sa, sb, sc = self.task
            a, ia = fam.mk(ex, sa, "a"); b, ib = fam.mk(ex, sb, "b"); c, ic = fam.mk(ex, sc, "c")
            self.infos = (ia, ib, ic)
            ab = ex.run(fam.f["promote_types"], [Ref([a], 0), Ref([b], 0)])
            bc = ex.run(fam.f["promote_types"], [Ref([b], 0), Ref([c], 0)])
            iab, ibc = fam.info(ab), fam.info(bc)
            self.result = iab
            if iab.ctor == "Void" or ibc.ctor == "Void":
                return "triple-vacuous"
            l = ex.run(fam.f["promote_types"], [Ref([ab], 0), Ref([c], 0)])
            r = ex.run(fam.f["promote_types"], [Ref([a], 0), Ref([bc], 0)])
            ex.prove(B(same_up_to_const(fam.info(l), fam.info(r))), "promotion is not associative where common types exist")
            return "triple"
        raise ValueError(kind)

    def describe(self, ex, outcome, detail):
        if outcome == "ok":
            return ("ok", detail, ex.obligations)
        model = ex.model() or {}
        desc = {k: v for k, v in model.items()}
        site = f"{outcome}|{detail['msg']}"
        return ("fail", outcome, site, [list(map(str, s)) if isinstance(s, tuple) else s for s in self.task], desc, getattr(self, "result", None) and self.result.ctor)


def famfactory(seed):
    def f():
        return Family(seed)
    return f


def rust_type(shape, tag, model):
    """Rust expression for the concrete counterexample type"""
    ctor, var = shape
    c = "IsConst::True" if model.get(f"{tag}_const", 1) == 0 else "IsConst::False"
    if ctor in WIDTH_TYPES:
        w = f"Some({model.get(tag + '_w', 0)})" if var == "w" else "None"
        return f"Type::{ctor}({w}, {c})"
    if ctor in CONST_ONLY:
        return f"Type::{ctor}({c})"
    if ctor == "BitArray" or ctor in ARRAYS:
        n = int(var[1])
        ds = ", ".join(str(model.get(f"{tag}_d{i}", 0)) for i in range(n))
        d = f"ArrayDims::D{n}({ds})"
        return f"Type::{ctor}({d}, {c})" if ctor == "BitArray" else f"Type::{ctor}({d})"
    if ctor == "Gate":
        return f"Type::Gate({model.get(tag + '_np', 0)}, {model.get(tag + '_nq', 0)})"
    if ctor == "SubroutineDef":
        inner = "Type::Void" if var == "void" else rust_type(("Int", "w"), tag + "r", model)
        return f"Type::SubroutineDef(SubroutineDef {{ num_params: {model.get(tag + '_n', 0)}, return_type: Box::new({inner}) }})"
    return f"Type::{ctor}"


def enc_type(shape, tag, model):
    """compact encoding understood by the native driver's `promote` command"""
    ctor, var = shape
    c = 1 if model.get(f"{tag}_const", 1) == 0 else 0
    if ctor in WIDTH_TYPES:
        return f"{ctor}/w={model.get(tag + '_w', 0) if var == 'w' else '-'}/c={c}"
    if ctor in CONST_ONLY:
        return f"{ctor}/c={c}"
    if ctor == "BitArray" or ctor in ARRAYS:
        n = int(var[1])
        ds = ";".join(str(model.get(f"{tag}_d{i}", 0)) for i in range(n))
        return f"{ctor}/d={ds}" + (f"/c={c}" if ctor == "BitArray" else "")
    if ctor == "Gate":
        return f"Gate/a={model.get(tag + '_np', 0)}/b={model.get(tag + '_nq', 0)}"
    if ctor == "SubroutineDef":
        inner = "Void" if var == "void" else enc_type(("Int", "w"), tag + "r", model).replace("/", "~")
        return f"SubroutineDef/n={model.get(tag + '_n', 0)}/r={inner}"
    return ctor


def parse_debug(s):
    """TInfo (concrete z3 values) from the Debug rendering of a Type"""
    import re
    s = s.strip()
    m = re.match(r"^(\w+)(?:\((.*)\))?$", s, flags=re.S)
    ctor, body = m.group(1), m.group(2)
    cb = lambda t: z3.BoolVal(t.strip() == "True")
    if ctor in WIDTH_TYPES:
        w, c = body.rsplit(",", 1)
        w = w.strip()
        if w == "None":
            return TInfo(ctor, None, False, cb(c))
        return TInfo(ctor, z3.BitVecVal(int(w[5:-1]), 32), True, cb(c))
    if ctor in CONST_ONLY:
        return TInfo(ctor, const=cb(body))
    if ctor == "BitArray":
        d, c = body.rsplit(",", 1)
        return TInfo(ctor, const=cb(c), dims=[z3.BitVecVal(int(x), 64) for x in re.findall(r"\d+", d[d.index("("):])])
    if ctor in ARRAYS:
        return TInfo(ctor, dims=[z3.BitVecVal(int(x), 64) for x in re.findall(r"\d+", body[body.index("("):])])
    if ctor == "Gate":
        a, b = body.split(",")
        return TInfo(ctor, extra=[z3.BitVecVal(int(a), 64), z3.BitVecVal(int(b), 64)])
    if ctor == "SubroutineDef":
        m2 = re.match(r"^SubroutineDef \{ num_params: (\d+), return_type: (.*) \}$", body, flags=re.S)
        return TInfo(ctor, extra=[z3.BitVecVal(int(m2.group(1)), 64), parse_debug(m2.group(2))])
    return TInfo(ctor)


def native_clause_check(clause, encs):
    """re-evaluates the refuted clause on the native results for the concrete operands: True if violated natively"""
    o = native.run_one(f"promote {encs[0]} {encs[1]}", "dev")
    if native.failed(o):
        return True, str(o)[:200]
    def dbg_of(enc):
        oo = native.run_one(f"promote {enc} {enc}", "dev")
        return oo
    T = lambda c: z3.is_true(z3.simplify(c))
    # operands as seen natively: promote(x, x) is only used to obtain their Debug form when idempotence holds; parse the encoding instead
    def from_enc(e):
        ctor = e.split("/")[0]
        f = dict(p.split("=", 1) for p in e.split("/")[1:])
        cbv = z3.BoolVal(f.get("c") == "1") if "c" in f else None
        if ctor in WIDTH_TYPES:
            return TInfo(ctor, None if f["w"] == "-" else z3.BitVecVal(int(f["w"]), 32), f["w"] != "-", cbv)
        if "d" in f:
            return TInfo(ctor, const=cbv, dims=[z3.BitVecVal(int(x), 64) for x in f["d"].split(";")])
        if ctor == "Gate":
            return TInfo(ctor, extra=[z3.BitVecVal(int(f["a"]), 64), z3.BitVecVal(int(f["b"]), 64)])
        if ctor == "SubroutineDef":
            return TInfo(ctor, extra=[z3.BitVecVal(int(f["n"]), 64), from_enc(f["r"].replace("~", "/"))])
        return TInfo(ctor, const=cbv)
    ia, ib = from_enc(encs[0]), from_enc(encs[1])
    r1, r2 = parse_debug(o["ab"]), parse_debug(o["ba"])
    isvoid = r1.ctor == "Void"
    bad = False
    if "symmetric" in clause:
        bad = not T(same_up_to_const(r1, r2))
    elif "upper bound of the first" in clause:
        bad = (not isvoid) and not T(leq(ia, r1))
    elif "upper bound of the second" in clause:
        bad = (not isvoid) and not T(leq(ib, r1))
    elif "const although" in clause:
        bad = (not isvoid) and T(const_of(r1)) and not (T(const_of(ia)) and T(const_of(ib)))
    elif "'no common type' although" in clause:
        bad = isvoid and T(bound_exists(ia, ib))
    elif "without an upper bound" in clause:
        bad = (not isvoid) and not T(bound_exists(ia, ib))
    elif "does not include a promotion" in clause:
        bad = (not isvoid) and T(same_up_to_const(r1, ia)) and not o["cast"]
    elif "narrows the kind" in clause:
        bad = bool(o["cast"])
    elif "with itself" in clause:
        bad = not (T(same_up_to_const(r1, ia)) and T(const_of(r1) == const_of(ia)))
    else:
        return None, "clause not re-evaluated natively"
    return bad, f"promote_types -> {o['ab']} / {o['ba']}, can_cast_literal -> {o['cast']}"


def classify(known, fact):
    for k in known:
        expr_ = k.get("match")
        if not expr_:
            continue
        try:
            if eval(expr_, {"__builtins__": {"any": any, "all": all, "len": len, "set": set}}, dict(fact)):
                return k["id"]
        except Exception:
            continue
    return None


def run(ctx):
    res = Result()
    sh = shapes(ctx.quick())
    tasks = [("pair", a, b) for a in sh for b in sh] + [("same", a) for a in sh]
    if not ctx.quick():
        tower = [s for s in sh if s[0] in TOWER or s[0] in ("Angle", "Bit")]
        tasks += [("triple", a, b, c) for a in tower for b in tower for c in tower]
    ctx.log(f"{len(sh)} type shapes, {len(tasks)} tasks")
    fails = collections.OrderedDict()
    counts = collections.Counter()

    def on_result(idx, task, recs, left, stats, err):
        if err:
            res.inconclusive.append(err[:500])
        if left:
            res.inconclusive.append(f"{task} not exhausted")
        if not err and not stats.get("paths"):
            res.inconclusive.append(f"vacuous task {task}")
        for r in recs:
            if r[0] == "ok":
                res.obligations += r[2]; counts[r[1]] += 1
            else:
                d = fails.setdefault((r[2], str(r[3])), {"count": 0, "ex": r})
                d["count"] += 1
    st, errs = explore.explore_many(famfactory(ctx.seed), tasks, workers=ctx.workers, on_result=on_result, log=ctx.log)
    res.merge_stats(st)
    ctx.log(f"{st.get('paths', 0)} paths: ok={st.get('ok', 0)} violation={st.get('violation', 0)} panic={st.get('panic', 0)} unsupported={st.get('unsupported', 0)} wall={st.get('wall', 0):.1f}s")
    known_by_id = {k["id"]: k for k in ctx.known}
    hits = collections.OrderedDict()
    reported = set()
    for (site, taskstr), info in fails.items():
        r = info["ex"]
        if r[1] == "unsupported":
            res.inconclusive.append(f"unsupported: {site} {taskstr}")
            continue
        task = r[3]
        shapes_ = [tuple(x) for x in task[1:]]
        model = r[4]
        tags = ["a", "b", "c"][:len(shapes_)]
        if task[0] == "same":
            shapes_ = shapes_ * 2; tags = ["a", "a"]
        exprs = [rust_type(s, t, model) for s, t in zip(shapes_, tags)]
        fact = {"clause": site.split("|", 1)[1], "ctors": [s[0] for s in shapes_], "shapes": [f"{s[0]}:{s[1]}" for s in shapes_], "result": r[5], "kind": task[0]}
        if task[0] in ("pair", "same"):
            encs = [enc_type(s_, t_, model) for s_, t_ in zip(shapes_, tags)]
            bad, msg = native_clause_check(fact["clause"], encs)
            if bad is False:
                res.inconclusive.append(f"counterexample does not reproduce natively: {fact['clause']} {exprs}: {msg}")
                continue
            if bad:
                res.validated += 1
        kid = classify(ctx.known, fact)
        if kid is not None:
            hits.setdefault(kid, []).append((exprs, fact))
            continue
        key = (fact["clause"], tuple(fact["ctors"]))
        if key in reported:
            continue
        reported.add(key)
        what = {"clause": fact["clause"], "operands": exprs, "result_constructor": r[5], "paths": info["count"]}
        rp = os.path.join(ctx.replay_dir, "promo_" + hashlib.sha1(json.dumps(what, sort_keys=True).encode()).hexdigest()[:10] + ".json")
        json.dump({"property": "C20", "what": what}, open(rp, "w"), indent=1)
        res.violations.append({"what": json.dumps(what), "replay": rp})
        if len(res.samples) < 6:
            res.samples.append(what)
    for kid, lst in hits.items():
        e = lst[0]
        res.known_hits.append(f"{kid}: {known_by_id[kid].get('what', '')} ({len(lst)} shape pairs, e.g. promote_types({e[0][0]}, {e[0][1]}))")
    res.samples.append({"task": "pair (Int:w, Float:nw)", "outcome": "all clauses proved for every width and const flag"})
    res.extra["clauses_proved_by_kind"] = dict(counts)
    res.functions_encoded += ["oq3_semantics::types::{promote_types, promote_type_width, promote_base_type, promote_width, promote_constness, can_cast_literal, equal_up_to_constness, equal_base_type}",
                              "Type::{width,is_const,base_type}", "derived PartialEq/Clone of Type, ArrayDims, SubroutineDef, IsConst"]
    res.bounds.update({"type_shapes": len(sh), "ordered_pairs": len(sh) ** 2, "widths": "all u32 (symbolic) or absent", "const_flags": "symbolic",
                       "array_dims": "all usize (symbolic), rank " + ("1" if ctx.quick() else "1-3"), "subroutine_return_type": "Void or Int[w] (one level)",
                       "triples": 0 if ctx.quick() else "tower kinds + Angle + Bit"})
    res.stubs += ["std::cmp::max", "Box::new / Box clone / Box eq forward to the boxed type's own code", "Option<u32> equality structural"]
    res.outside_claim += ["SubroutineDef return types nested deeper than one level"]
    res.exhaustive = not res.inconclusive
    return res


def replay(ctx, path):
    print(open(path).read())
    return 1
