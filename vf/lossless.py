"""Shared harness for C02 (lossless tree) and C12 (a: error positions, b: error node <=> error event).

Raw token kinds R[0..r) over the token alphabet plus trivia are symbolic.  A LexedStr{kind: R+[EOF],
start: 0,1,..,r} is built directly (offsets are opaque to this code), then the REAL code runs:
LexedStr::to_input -> TopEntryPoint::parse -> LexedStr::intersperse_trivia with a recording sink.
"""
import json, os, hashlib, collections
import z3
from . import explore, native, findings
from .interp import Exec, SV, SB, VecV, Ref, PyFn, EnumV, UNIT, Panic, Unsupported, Violation, StepLimit
from .parser_kit import ParserKit

COMPOSITES = json.load(open(os.path.join(os.path.dirname(os.path.dirname(os.path.abspath(__file__))), "spec", "composites.json")))


class Slice:
    __slots__ = ("lo", "hi")

    def __init__(self, lo, hi):
        self.lo = lo; self.hi = hi

    def __repr__(self):
        return f"text[{self.lo}..{self.hi}]"


def install_text_models(models):
    R = models.reg
    n0 = len(models.table)

    @R(r"^<str as Index<std::ops::Range<usize>>>::index$")
    def _idx(ex, c, a):
        r = a[1]
        lo, hi = r[0], r[1]
        if not (isinstance(lo, int) and isinstance(hi, int)):
            raise Unsupported("symbolic text range")
        if lo > hi:
            raise Panic("slice index starts after end")
        return Slice(lo, hi)

    @R(r"^core::str::<impl str>::ends_with::<char>$")
    def _ew(ex, c, a):
        s = a[0]
        while isinstance(s, Ref):
            s = s.get()
        if isinstance(s, Slice):
            return SB(z3.Bool(f"endsdot{s.lo}"))
        raise Unsupported("ends_with on " + repr(s))

    @R(r"^core::str::<impl str>::(contains|starts_with)::<&str>$")
    def _ct(ex, c, a):
        s = a[0]
        while isinstance(s, Ref):
            s = s.get()
        pat = a[1]
        while isinstance(pat, Ref):
            pat = pat.get()
        if isinstance(s, Slice):
            return SB(z3.Bool(f"txt{s.lo}_{'c' if 'contains' in c else 's'}_{abs(hash(pat)) % 100000}"))
        if isinstance(s, str):
            return (pat in s) if "contains" in c else s.startswith(pat)
        raise Unsupported("str predicate on " + repr(s))
    new = models.table[n0:]
    del models.table[n0:]
    models.table[0:0] = new
    models._cache_lookup.clear()


class LosslessHarness:
    def __init__(self, r, known, seed, alphabet_names=None, check=("c02",)):
        self.r = r; self.known = known; self.seed = seed
        self.alphabet_names = alphabet_names
        self.check = check
        self.kit = None

    def make_exec(self):
        self.kit = ParserKit()
        install_text_models(self.kit.models)
        kit = self.kit
        if self.alphabet_names:
            self.alpha = [kit.K[n] for n in self.alphabet_names]
        else:
            self.alpha = kit.alphabet + kit.trivia
        self.SS = kit.prog.enums["StrStep"][0]
        return Exec(kit.prog, kit.models, max_steps=60000 * (self.r + 2))

    def run(self, ex):
        kit = self.kit; K = kit.K; r = self.r
        self.raw = kit.sym_tokens(r, "r")
        kit.constrain_alphabet(ex, self.raw, self.alpha)
        lexed = ["<text>", VecV(list(self.raw) + [K["EOF"]]), VecV(list(range(r + 1))), VecV([])]
        lref = Ref([lexed], 0)
        inp = ex.call("LexedStr::<'_>::to_input", [lref])
        out = ex.call("TopEntryPoint::parse", [Ref([0], 0), Ref([inp], 0)])
        psteps = kit.decode(out)
        steps = []

        def sink(step):
            steps.append(step); return UNIT
        eof = ex.call("LexedStr::<'_>::intersperse_trivia", [lref, Ref([out], 0), Ref([PyFn(sink)], 0)])
        self.obligations(ex, psteps, steps, eof)
        return len(steps)

    # ------------------------------------------------------------------ obligations
    def kind_e(self, k):
        return k.e if isinstance(k, SV) else z3.BitVecVal(k, 16)

    def obligations(self, ex, psteps, steps, eof):
        kit = self.kit; K = kit.K; r = self.r; SS = self.SS
        pos = 0; depth = 0
        n_err_ev = 0
        err_nodes = 0
        err_tok_conds = []
        for i, s in enumerate(steps):
            nm = SS[s.idx]
            if nm == "Token":
                kind, sl = s.fields[0], s.fields[1]
                if not isinstance(sl, Slice):
                    raise Unsupported("token text " + repr(sl))
                if "c02" in self.check:
                    if sl.lo != pos or sl.hi <= sl.lo:
                        raise Violation(f"leaves do not tile the input: token step covers raw [{sl.lo},{sl.hi}) but {pos} raw tokens were emitted so far")
                    if depth <= 0:
                        raise Violation("token emitted outside the root node")
                    n = sl.hi - sl.lo
                    if n == 1:
                        ex.prove(self.kind_e(kind) == self.kind_e(self.raw[sl.lo]), f"token kind differs from the raw token kind at raw index {sl.lo}")
                    else:
                        if isinstance(kind, SV):
                            raise Violation("composite token with symbolic kind")
                        spell = COMPOSITES.get(kit.names.get(kind, "?"))
                        if spell is None or len(spell) != n:
                            raise Violation(f"token {kit.names.get(kind)} spans {n} raw tokens")
                        ex.prove(z3.And([self.kind_e(self.raw[sl.lo + j]) == K[spell[j]] for j in range(n)]),
                                 f"composite {kit.names.get(kind)} glued from raw tokens that do not spell it (trivia or other tokens inside)")
                if "c12" in self.check:
                    err_tok_conds.append(self.kind_e(kind) == K["ERROR"])
                pos = sl.hi
            elif nm == "Enter":
                depth += 1
                if i == 0 and "c02" in self.check:
                    if isinstance(s.fields[0], SV) or s.fields[0] != K["SOURCE_FILE"]:
                        raise Violation("first step is not Enter(SOURCE_FILE)")
                if s.fields[0] == K["ERROR"]:
                    err_nodes += 1
            elif nm == "Exit":
                depth -= 1
                if "c02" in self.check and (depth < 0 or (depth == 0 and i != len(steps) - 1)):
                    raise Violation("root node closed before the last step (more than one tree)")
            elif nm == "Error":
                n_err_ev += 1
                p = s.fields[1]
                if "c12" in self.check:
                    if not isinstance(p, int) or not (0 <= p <= r):
                        raise Violation(f"syntax error position {p} is not the start of a raw token nor the end of input")
        if "c02" in self.check:
            if steps and SS[steps[0].idx] != "Enter":
                raise Violation("first step is not Enter")
            if pos != r:
                raise Violation(f"only {pos} of {r} raw tokens were put into the tree")
            if depth != 0:
                raise Violation("unbalanced tree")
            if not (eof is True or eof == 1):
                raise Violation("intersperse_trivia reports that not all tokens were consumed")
        if "c12" in self.check:
            if n_err_ev == 0:
                if err_nodes:
                    raise Violation("ERROR node in a tree without any syntax diagnostic")
                if err_tok_conds:
                    ex.prove(z3.Not(z3.Or(err_tok_conds)), "ERROR token in a tree without any syntax diagnostic")
        self.stats = (n_err_ev, err_nodes)

    def describe(self, ex, outcome, detail):
        kit = self.kit
        if outcome == "ok":
            h = hashlib.sha256((str(self.seed) + ":" + ",".join(map(str, ex.decisions))).encode()).digest()
            if h[0] / 256.0 >= (0.004 if self.r >= 3 else 0.05):
                return ("ok", detail, ex.steps, getattr(ex, "obligations", 0))
            model = ex.model() or {}
            ks = kit.model_tokens(model, self.r, "r")
            dots = [bool(model.get(f"endsdot{i}", False)) for i in range(self.r)]
            return ("sample", detail, ex.steps, getattr(ex, "obligations", 0), ks, dots)
        model = ex.model() or {}
        ks = kit.model_tokens(model, self.r, "r")
        dots = [bool(model.get(f"endsdot{i}", False)) for i in range(self.r)]
        fn = detail["stack"][-1] if detail.get("stack") else "?"
        site = f"{outcome}|{fn}|{detail['msg']}"
        kid = None
        if outcome in ("panic", "stuck", "violation"):
            from .h_c01 import PEnv
            kid = findings.match_known(ex, self.known, site, PEnv(kit, self.raw).env())
        return ("fail", outcome, site, ks, dots, kid)


def hfactory(r, known, seed, alphabet_names, check):
    def f():
        return LosslessHarness(r, known, seed, alphabet_names, check)
    return f


# ---------------------------------------------------------------------- native side
def raw_text(kit, ks, dots):
    """a source text whose RAW token kinds are exactly ks (trivia included); None if no such text"""
    out = []
    for i, k in enumerate(ks):
        nm = kit.names.get(k)
        if nm == "FLOAT_NUMBER":
            t = "1." if dots[i] else "1.5"
        elif nm == "WHITESPACE":
            t = " "
        elif nm == "COMMENT":
            t = "/*c*/"
        else:
            t = kit.kind_text(k)
        if t is None:
            return None
        out.append(t)
    return "".join(out)


def native_tree_check(kit, text):
    """runs the real parse on text; returns (ok, message): leaves spell the input, ranges tile, root spans all"""
    o = native.run_one("parse " + native.hexs(text), "dev")
    if native.failed(o):
        return False, f"native parse failed: {o}"
    tree = o["tree"]
    b = text.encode("utf-8")
    leaves = []

    def walk(n):
        # node: [kind, lo, hi, [children]] ; token: [kind, lo, hi, "text"]
        if isinstance(n[3], str):
            leaves.append(n)
            return
        cur = n[1]
        for ch in n[3]:
            if ch[1] != cur:
                raise ValueError(f"children do not tile parent at {cur}: child starts at {ch[1]}")
            walk(ch)
            cur = ch[2]
        if n[3] and cur != n[2]:
            raise ValueError(f"children end at {cur} but parent ends at {n[2]}")
    try:
        walk(tree)
    except ValueError as e:
        return False, str(e)
    if tree[0] != kit.K["SOURCE_FILE"]:
        return False, "root is not SOURCE_FILE"
    if tree[1] != 0 or tree[2] != len(b):
        return False, f"root spans [{tree[1]},{tree[2]}) but the input has {len(b)} bytes"
    s = "".join(l[3] for l in leaves)
    if s != text:
        return False, f"leaves spell {s!r}, input is {text!r}"
    # C12 part: errors in range, error nodes accompanied by diagnostics
    errs = o["errors"]
    for e in errs:
        if not (0 <= e[0] <= e[1] <= len(b)):
            return False, f"diagnostic range {e[0]}..{e[1]} outside the text"
    # a tree with an ERROR node or token is always accompanied by a diagnostic
    ERR = kit.K["ERROR"]

    def has_error(n):
        if n[0] == ERR:
            return True
        return (not isinstance(n[3], str)) and any(has_error(ch) for ch in n[3])
    if not errs and has_error(tree):
        return False, "the native tree contains an ERROR node / token but the parse reports no diagnostic"
    return True, ""


def run_lossless(ctx, res, plan, check, label):
    """plan: list of (r, alphabet_names|None).  Explores, validates, triages."""
    from .h_c01 import names_of, _short
    kit = ParserKit()
    fails = {}
    samples = []
    for (r, alpha) in plan:
        tag = f"{label} r={r}" + (f" over {len(alpha)}-kind sub-alphabet" if alpha else "")

        def on_records(recs):
            for rec in recs:
                if rec[0] in ("ok", "sample"):
                    res.obligations += rec[3]
                    if rec[0] == "sample":
                        samples.append(rec)
                else:
                    key = (rec[2], rec[5])
                    d = fails.setdefault(key, {"count": 0, "examples": []})
                    d["count"] += 1
                    if len(d["examples"]) < 3:
                        d["examples"].append(rec)
        st, exhaustive, err = explore.explore(hfactory(r, ctx.known, ctx.seed, alpha, check), workers=ctx.workers, seed=ctx.seed,
                                              on_records=on_records, log=ctx.log)
        res.merge_stats(st)
        ctx.log(f"{tag}: {st.get('paths', 0)} paths ok={st.get('ok', 0)} violation={st.get('violation', 0)} panic={st.get('panic', 0)} "
                f"stuck={st.get('stuck', 0)} unsupported={st.get('unsupported', 0)} wall={st.get('wall', 0):.1f}s")
        if err:
            res.inconclusive.append(err[:500])
        if not exhaustive:
            res.inconclusive.append(f"{tag} not exhausted")
    # engine validation on sampled passing paths: the real pipeline on a text with these raw kinds
    nval = 0
    for s in samples[:400]:
        text = raw_text(kit, s[4], s[5])
        if text is None:
            continue
        lx = native.run_one("lexed " + native.hexs(text), "dev")
        if lx.get("kinds") != list(s[4]):
            continue     # this kind sequence has no such spelling (e.g. two adjacent identifiers)
        ok, msg = native_tree_check(kit, text)
        if not ok:
            res.inconclusive.append(f"engine proved the obligations on a path but the native tree check fails for {text!r}: {msg}")
        else:
            nval += 1
    res.validated += nval
    for s in samples[:3]:
        res.samples.append({"raw_kinds": names_of(kit, s[4]), "float_ends_in_dot": s[5], "outcome": "all obligations proved", "str_steps": s[1]})
    known_by_id = {k["id"]: k for k in ctx.known}
    seen = set()
    for (site, kid), info in sorted(fails.items()):
        e0 = info["examples"][0]
        outcome = e0[1]
        toks = names_of(kit, e0[3])
        if outcome == "unsupported":
            res.inconclusive.append(f"unsupported construct ({info['count']} paths): {site} e.g. {toks}")
            continue
        reproduced = None
        for e in info["examples"]:
            text = raw_text(kit, e[3], e[4])
            if text is None:
                continue
            lx = native.run_one("lexed " + native.hexs(text), "dev")
            if lx.get("kinds") != list(e[3]):
                continue
            if outcome in ("panic", "stuck"):
                o = native.run_one("parse " + native.hexs(text), "dev")
                if native.failed(o):
                    reproduced = (text, str(_short(o)))
                    break
            else:
                ok, msg = native_tree_check(kit, text)
                if not ok:
                    reproduced = (text, msg)
                    break
        if reproduced is None:
            res.inconclusive.append(f"counterexample does not reproduce natively ({info['count']} paths): {site} e.g. {toks}")
            continue
        res.validated += 1
        if kid is not None:
            if kid not in seen:
                seen.add(kid)
                res.known_hits.append(f"{kid}: {known_by_id[kid].get('what', site)} (e.g. {reproduced[0]!r})")
            continue
        what = {"site": site, "paths": info["count"], "raw_kinds": toks, "source_text": reproduced[0], "native": reproduced[1]}
        rp = os.path.join(ctx.replay_dir, label + "_" + hashlib.sha1(site.encode()).hexdigest()[:10] + ".json")
        with open(rp, "w") as f:
            json.dump({"property": ctx.pid, "kind": "parse_text", "source_text": reproduced[0], "what": what}, f, indent=1)
        res.violations.append({"what": json.dumps(what), "replay": rp})
        res.samples.append(what)
    return kit


def composite_subalphabet(kit):
    """kinds that take part in composite operators + one atom, one literal, terminator, brackets, trivia"""
    names = set()
    for spell in COMPOSITES.values():
        names.update(spell)
    names.update(["IDENT", "INT_NUMBER", "FLOAT_NUMBER", "SEMICOLON", "WHITESPACE", "COMMENT"])
    return sorted(names, key=lambda n: kit.K[n])


def replay(ctx, path):
    d = json.load(open(path))
    kit = ParserKit()
    ok, msg = native_tree_check(kit, d["source_text"])
    print("native tree check:", "ok" if ok else msg)
    return 0 if ok else 1
