"""Parallel replay-based DFS driver for mirsym harnesses.

A harness object provides
    make_exec()            -> Exec (called once per process)
    run(ex)                -> picklable detail for a path that returned normally
                              (obligations are discharged inside with ex.prove / harness asserts)
    describe(ex, outcome, detail) -> picklable record for the path (model, site ...)
Exploration is exhaustive within the harness' bounds when the work list runs empty.
"""
import multiprocessing as mp, os, random, time, traceback, collections
import z3
from .interp import Panic, Unsupported, StepLimit, Infeasible, Violation

_H = None
_EX = None


def _one_path(h, ex, prefix):
    ex.reset(prefix)
    outcome = None
    detail = None
    try:
        detail = h.run(ex)
        outcome = "ok"
    except Violation as e:
        outcome = "violation"; detail = {"msg": str(e), "stack": list((getattr(e, "stack", None) or ex.stack)[-6:]), "info": getattr(e, "info", None)}
    except Panic as e:
        outcome = "panic"; detail = {"msg": str(e), "stack": list((getattr(e, "stack", None) or ex.stack)[-8:])}
    except StepLimit as e:
        outcome = "stuck"; detail = {"msg": str(e), "stack": list((getattr(e, "stack", None) or ex.stack)[-8:])}
    except Unsupported as e:
        outcome = "unsupported"; detail = {"msg": str(e), "stack": list((getattr(e, "stack", None) or ex.stack)[-4:])}
    except Infeasible:
        outcome = None
    except RecursionError:
        outcome = "unsupported"; detail = {"msg": "python recursion", "stack": list(ex.stack[-4:])}
    return outcome, detail


def _explore_subtree(h, ex, prefixes, max_paths, deadline):
    work = list(prefixes)
    recs = []
    stats = collections.Counter()
    n = 0
    while work:
        if n >= max_paths or time.time() > deadline:
            break
        prefix = work.pop()
        outcome, detail = _one_path(h, ex, prefix)
        work.extend(ex.pending)
        stats["solver_calls"] += ex.solver_calls
        stats["decisions"] += len(ex.decisions)
        stats["steps"] += ex.steps
        if outcome is None:
            stats["infeasible"] += 1
            continue
        n += 1
        stats["paths"] += 1
        stats[outcome] += 1
        rec = h.describe(ex, outcome, detail)
        if rec is not None:
            recs.append(rec)
    return recs, work, stats


_INIT_ERR = None


def _worker_init(hfactory):
    global _H, _EX, _INIT_ERR
    try:
        _H = hfactory()
        _EX = _H.make_exec()
    except Exception as e:      # an exception here would make the pool respawn workers forever
        _INIT_ERR = "worker initialisation failed: " + repr(e) + "\n" + traceback.format_exc()


def _xcheck_stats(ex, stats):
    """moves the cvc5 cross-check counters of this worker into the task statistics; a disagreement is an error string"""
    xc = getattr(ex.glob, "xcheck", None)
    if not xc:
        return None
    stats["xcheck_agree"] += xc["agree"]; stats["xcheck_unknown"] += xc["unknown"]
    err = None
    if xc["disagree"]:
        d = xc["disagree"][0]
        err = f"solver disagreement: z3 says {d[0]}, cvc5 says {d[1]} on a sampled query: {d[2][:600]}"
    ex.glob.xcheck = {"agree": 0, "unknown": 0, "disagree": []}
    return err


def _worker_task(args):
    prefixes, max_paths, deadline = args
    if _INIT_ERR:
        return [], [], {}, _INIT_ERR
    try:
        t0 = time.time()
        recs, left, stats = _explore_subtree(_H, _EX, prefixes, max_paths, deadline)
        stats["solver_time_ms"] += int(_EX.glob.solver_time * 1000)
        _EX.glob.solver_time = 0.0
        stats["cache_hits"] += _EX.glob.cache_hits
        _EX.glob.cache_hits = 0
        xerr = _xcheck_stats(_EX, stats)
        return recs, left, dict(stats), xerr
    except Exception as e:
        return [], [], {}, "worker error: " + repr(e) + "\n" + traceback.format_exc()


def explore(hfactory, workers=None, seed=0, time_budget=None, chunk_paths=400, on_records=None, log=None):
    """returns (stats, exhaustive: bool, error or None).  `on_records(list)` consumes path records."""
    workers = workers or min(16, os.cpu_count() or 1)
    t0 = time.time()
    deadline = t0 + time_budget if time_budget else t0 + 10 ** 9
    total = collections.Counter()
    rng = random.Random(seed)
    # phase 1: sequential seeding in a child (keeps z3 out of the parent before fork)
    ctx = mp.get_context("fork")
    with ctx.Pool(1, initializer=_worker_init, initargs=(hfactory,)) as p1:
        recs, work, stats, err = p1.apply(_worker_task, (([[]], 4 * workers, deadline),))
    if err:
        return dict(total), False, err
    total.update(stats)
    if on_records:
        on_records(recs)
    if not work:
        total["wall"] = time.time() - t0
        return dict(total), True, None
    rng.shuffle(work)
    err_out = None
    exhaustive = True
    with ctx.Pool(workers, initializer=_worker_init, initargs=(hfactory,)) as pool:
        pending = []
        queue = [[w] for w in work]
        last_log = time.time()
        while queue or pending:
            while queue and len(pending) < workers + 2:
                pfx = queue.pop()
                cp = max(8, min(chunk_paths, total["paths"] // (workers * 2)))
                pending.append(pool.apply_async(_worker_task, ((pfx, cp, deadline),)))
            done = [r for r in pending if r.ready()]
            if not done:
                time.sleep(0.01)
            for r in done:
                pending.remove(r)
                recs, left, stats, err = r.get()
                if err:
                    err_out = err
                total.update(stats)
                if on_records and recs:
                    on_records(recs)
                if left:
                    # split leftovers into a few tasks so that other workers can help
                    k = max(1, min(len(left), max(2, workers + 2 - len(pending) - len(queue))))
                    for i in range(k):
                        part = left[i::k]
                        if part:
                            queue.append(part)
            if time.time() > deadline:
                exhaustive = False
                break
            if err_out:
                exhaustive = False
                break
            if log and time.time() - last_log > 20:
                last_log = time.time()
                log(f"  ... {total['paths']} paths, queue {len(queue)}, {time.time() - t0:.0f}s")
        if not exhaustive:
            pool.terminate()
    total["wall"] = time.time() - t0
    return dict(total), exhaustive and not err_out, err_out


# ---------------------------------------------------------------------------------------------------
# many small explorations (one per skeleton): each worker keeps one harness "family" object alive and runs
# whole explorations in-process

_FAM = None


def _many_init(famfactory):
    global _FAM, _INIT_ERR
    try:
        _FAM = famfactory()
    except Exception as e:
        _INIT_ERR = "worker initialisation failed: " + repr(e) + "\n" + traceback.format_exc()


def _many_task(args):
    idx, task, max_paths = args
    if _INIT_ERR:
        return idx, [], 0, {}, _INIT_ERR
    try:
        h = _FAM.harness(task)
        ex = _FAM.exec_for(h)
        t0 = time.time()
        recs, left, stats = _explore_subtree(h, ex, [[]], max_paths, time.time() + float(os.environ.get("VERIF_TASK_BUDGET", 10 ** 8)))
        stats["task_ms"] = int((time.time() - t0) * 1000)
        stats["solver_time_ms"] += int(ex.glob.solver_time * 1000)
        ex.glob.solver_time = 0.0
        xerr = _xcheck_stats(ex, stats)
        return idx, recs, len(left), dict(stats), xerr
    except Exception as e:
        return idx, [], 0, {}, "worker error: " + repr(e) + "\n" + traceback.format_exc()


def explore_many(famfactory, tasks, workers=None, max_paths=200000, on_result=None, log=None):
    """tasks: list of picklable task descriptions.  on_result(idx, task, recs, leftover, stats, err)"""
    workers = workers or min(16, os.cpu_count() or 1)
    ctx = mp.get_context("fork")
    total = collections.Counter()
    t0 = time.time()
    errs = []
    with ctx.Pool(workers, initializer=_many_init, initargs=(famfactory,)) as pool:
        it = pool.imap_unordered(_many_task, [(i, t, max_paths) for i, t in enumerate(tasks)], chunksize=1)
        done = 0
        last = time.time()
        for idx, recs, left, stats, err in it:
            done += 1
            total.update(stats)
            if err:
                errs.append(err)
            if on_result:
                on_result(idx, tasks[idx], recs, left, stats, err)
            if log and time.time() - last > 20:
                last = time.time()
                log(f"  ... {done}/{len(tasks)} explorations, {total['paths']} paths, {time.time() - t0:.0f}s")
    total["wall"] = time.time() - t0
    return dict(total), errs
