"""C16 on whole statements: for every ordered pair (S1, S2) of statement skeletons (token classes, operator spellings and
joint bits symbolic) the real parser runs on S1, on S2 and on S1 S2; if both parts parse without diagnostics the whole must
too and its statement list must be the concatenation.  Reaches statement boundaries that the n-token windows cannot
(`{ x; } (a);`, `a; [1, 2];`, statement after a block / declaration / gate call ...)."""
import json, os, hashlib, re
import z3
from . import explore, native, findings, skel
from .interp import Exec, SV, SB, VecV, Ref, Panic, Unsupported, Violation
from .parser_kit import ParserKit
from .h_c01 import PEnv, names_of


class Family:
    def __init__(self, known, seed):
        self.kit = ParserKit()
        self.known = known; self.seed = seed
        self.ex = Exec(self.kit.prog, self.kit.models, max_steps=3000000)
        from .h_c16 import CompHarness
        self.comp = CompHarness(0, 0, "file", known, seed)
        self.comp.kit = self.kit

    def harness(self, task):
        return PairHarness(self, task)

    def exec_for(self, h):
        return self.ex


class PairHarness:
    def __init__(self, fam, task):
        self.fam = fam; self.n1name, self.sh1, self.n2name, self.sh2 = task[:4]
        self.ctxname = task[4] if len(task) > 4 else "file"

    def run(self, ex):
        fam = self.fam; kit = fam.kit; comp = fam.comp
        n1 = len(skel.instantiate(kit, list(self.sh1)).toks)
        inst = skel.instantiate(kit, list(self.sh1) + list(self.sh2))
        self.inst = inst; self.n1 = n1
        n = len(inst.toks)
        if n > 62:
            raise Unsupported("pair longer than one joint word")
        for c in inst.cons:
            ex.add_constraint(c)
        # the second statement's class slots take their first member (the n-token windows of the first part of this check
        # vary single tokens over the whole alphabet; here the subject is the boundary between whole statements)
        G = skel.spec()
        for i, cls in inst.slots:
            if i >= n1:
                ex.add_constraint(inst.toks[i].e == kit.K[G.CLASSES[cls][0]])
        words, jc = skel.joint_word(inst)
        for c in jc:
            ex.add_constraint(c)
        j = words[0]
        self.j = j
        toks = inst.toks

        def part(lo, hi):
            e = z3.LShR(j.e, lo) & z3.BitVecVal((1 << (hi - lo)) - 1, 64)
            inp = [VecV(list(toks[lo:hi])), VecV([SV(z3.simplify(e), 64)])]
            return kit.decode(ex.call("TopEntryPoint::parse", [Ref([0], 0), Ref([inp], 0)]))
        A = part(0, n1)
        if comp.has_error(A):
            return "vacuous"
        B = part(n1, n)
        if comp.has_error(B):
            return "vacuous"
        comp.ctxname = self.ctxname; comp.k = n1
        if self.ctxname == "file":
            W = part(0, n)
            got = None if comp.has_error(W) else comp.body(W)
        else:
            from .h_c16 import CONTEXTS
            K = kit.K
            pre, suf = CONTEXTS[self.ctxname]
            P = len(pre)
            wt = [K[x] for x in pre] + list(toks) + [K[x] for x in suf]
            e = (j.e & z3.BitVecVal((1 << n) - 1, 64)) << P
            inp = [VecV(wt), VecV([SV(z3.simplify(e), 64)])]
            W = kit.decode(ex.call("TopEntryPoint::parse", [Ref([0], 0), Ref([inp], 0)]))
            got = None if comp.has_error(W) else comp.inner_block(W, P, n)
        if got is None:
            raise Violation(f"both statements parse without diagnostics but their sequence ({self.ctxname} context) reports: " + "; ".join(str(s[1]) for s in W if s[0] == "error")[:160])
        comp.compare(ex, comp.body(A) + comp.body(B), got)
        return "checked"

    def describe(self, ex, outcome, detail):
        fam = self.fam; kit = fam.kit
        if outcome == "ok":
            return ("ok", detail, ex.obligations)
        model = ex.model() or {}
        toks = self.inst.toks if hasattr(self, "inst") else []
        ks = [t if isinstance(t, int) else model.get(t.e.decl().name(), kit.K["IDENT"]) for t in toks]
        jw = model.get("joint0", 0)
        js = [(jw >> i) & 1 for i in range(len(ks))]
        site = f"{outcome}|pair-{self.ctxname}|{re.sub(r'split [0-9]+', 'split', detail['msg'])[:200]}"
        kid = None
        if outcome in ("violation", "panic", "stuck") and toks:
            env = PEnv(kit, toks).env(); env["k"] = self.n1
            kid = findings.match_known(ex, fam.known, re.sub(r"\|pair-(\w+)\|", r"|\1|", site), env)
        return ("fail", outcome, site, ks, js, kid, getattr(self, "n1", 0), f"{self.n1name} ; {self.n2name}", self.ctxname)


def famfactory(known, seed):
    def f():
        return Family(known, seed)
    return f


def build_tasks(quick):
    G = skel.spec()
    sts = []
    for name, sk in G.statements(1):
        if len(sk) > 14:
            continue
        for shape in skel.expand_shapes(sk):
            if shape != sk and not (name.startswith("cmpassign") or name.startswith("expr_stmt")):
                continue
            sts.append((name, tuple(shape)))
    # statements that begin with a token an expression can continue with (the boundary is where a parser that keeps
    # extending the previous expression would go wrong)
    sts += [("paren_stmt", ("L_PAREN", "IDENT", "R_PAREN", "SEMICOLON")), ("neg_stmt", ("MINUS", "IDENT", "SEMICOLON")), ("not_stmt", ("BANG", "IDENT", "SEMICOLON")),
            ("index_like_stmt", ("L_BRACK", "INT_NUMBER", "R_BRACK", "SEMICOLON")), ("block_stmt_nonempty", ("L_CURLY", "IDENT", "SEMICOLON", "R_CURLY")),
            ("call_stmt", ("IDENT", "L_PAREN", "IDENT", "R_PAREN", "SEMICOLON")), ("plus_stmt", ("PLUS", "IDENT", "SEMICOLON")), ("empty_stmt", ("SEMICOLON",))]
    # second statements: one representative per distinct leading token (quick) / all (thorough)
    seen = set(); reps = []
    for name, sh in sts:
        lead = sh[0] if isinstance(sh[0], str) else sh[0][1]
        key = (lead, name.split("<")[0].split("_")[0])
        if key not in seen:
            seen.add(key); reps.append((name, sh))
    seconds = reps
    firsts = reps if quick else sts
    tasks = [(a[0], a[1], b[0], b[1]) for a in firsts for b in seconds]
    # block contexts: every first statement that may stand in a block, followed by the boundary-sensitive second statements
    boundary = [x for x in sts if x[0] in ("empty_stmt", "paren_stmt", "neg_stmt", "index_like_stmt", "block_stmt_nonempty", "call_stmt", "decl", "break", "assign<atom>", "gatecall_q", "if_emptyblock")]
    inblock = [x for x in (reps if quick else sts) if not x[0].startswith(("gate_", "def", "extern", "qubit", "qreg", "creg", "io", "version", "include", "pragma", "annotation", "const_decl"))]
    for c in (("gate",) if quick else ("gate", "def", "if", "while", "for", "case")):
        tasks += [(a[0], a[1], b[0], b[1], c) for a in inblock for b in boundary]
    return tasks


def run_pairs(ctx, res):
    from .h_c16 import native_compositional
    kit = ParserKit()
    tasks = build_tasks(ctx.quick())
    if os.environ.get("VERIF_C16_PAIR"):
        a, b = os.environ["VERIF_C16_PAIR"].split(";")
        tasks = [t for t in tasks if a in t[0] and b in t[2]]
    fails = {}
    counts = {"checked": 0, "vacuous": 0}

    def on_result(idx, task, recs, left, stats, err):
        if err:
            res.inconclusive.append(err[:500])
        if left:
            res.inconclusive.append(f"pair {task[0]} ; {task[2]} not exhausted")
        for r in recs:
            if r[0] == "ok":
                counts[r[1]] = counts.get(r[1], 0) + 1; res.obligations += r[2]
            else:
                d = fails.setdefault((r[2], r[5]), {"count": 0, "examples": []})
                d["count"] += 1
                if len(d["examples"]) < 3:
                    d["examples"].append(r)
    st, errs = explore.explore_many(famfactory(ctx.known, ctx.seed), tasks, workers=ctx.workers, max_paths=20000, on_result=on_result, log=ctx.log)
    res.merge_stats(st)
    ctx.log(f"statement pairs: {st.get('paths', 0)} paths over {len(tasks)} ordered skeleton pairs: {counts} violation={st.get('violation', 0)} panic={st.get('panic', 0)} unsupported={st.get('unsupported', 0)}")
    res.extra["statement_pairs_checked_paths"] = counts.get("checked", 0)
    known_by_id = {k_["id"]: k_ for k_ in ctx.known}
    seen = set()
    for (site, kid), info in sorted(fails.items(), key=lambda kv: str(kv[0])):
        e0 = info["examples"][0]
        if e0[1] in ("unsupported", "stuck"):
            res.inconclusive.append(f"{e0[1]} ({info['count']} paths): {site} [{e0[7]}]")
            continue
        rep = None
        for e in info["examples"]:
            bad, msg = native_compositional(kit, e[3], e[4], e[6], e[8] if len(e) > 8 else "file")
            if bad:
                rep = (e, msg); break
        if rep is None:
            res.inconclusive.append(f"counterexample does not reproduce natively ({info['count']} paths): {site} e.g. {' '.join(names_of(kit, e0[3]))} split {e0[6]}")
            continue
        res.validated += 1
        e, msg = rep
        if kid is not None:
            if ("pair", kid) not in seen:
                seen.add(("pair", kid))
                res.known_hits.append(f"{kid}: {known_by_id[kid].get('what', site)} (statement pairs, e.g. {' '.join(names_of(kit, e[3]))} split after {e[6]} tokens; {info['count']} paths)")
            continue
        what = {"site": site[:300], "paths": info["count"], "pair": e[7], "tokens": names_of(kit, e[3]), "joint": e[4], "split": e[6], "native": msg[:300], "source_text": kit.render(e[3], e[4])}
        rp = os.path.join(ctx.replay_dir, "pair_" + hashlib.sha1((site + e[7]).encode()).hexdigest()[:10] + ".json")
        json.dump({"property": "C16", "ks": e[3], "js": e[4], "k": e[6], "ctx": e[8] if len(e) > 8 else "file", "what": what}, open(rp, "w"), indent=1)
        res.violations.append({"what": json.dumps(what), "replay": rp})
        res.samples.append(what)
    res.bounds["statement_pairs"] = f"{len(tasks)} ordered pairs of statement skeletons (<= 14 tokens each, expression depth 0; operator statements with every spelling)"
