"""C04 - valid OpenQASM 3 programs are accepted with zero syntax diagnostics (DESIGN 6/C04).

Every statement skeleton of /verif/spec/grammar.py (terminals are token classes = solver variables; operator
slots are 1-3 raw tokens with their joint bits set, every other joint bit free) is run through the REAL parser
(MIR).  Obligation on every path: no Error event.  Each skeleton is also placed after another statement and
inside a block, so that the statement-level dispatch of both top-level loops and of block bodies is covered.
"""
import json, os, hashlib, collections
import z3
from . import explore, native, findings, skel
from .interp import Exec, SV, SB, VecV, Ref, Panic, Unsupported, Violation, StepLimit
from .main import Result
from .parser_kit import ParserKit
from .h_c01 import PEnv, names_of, _short

def _filler(n):
    """n tokens of valid filler statements (`g q;` and `a;`), so that the skeleton starts at token index n"""
    out = []
    while n >= 3 and n != 4 and n != 2:
        out += ["IDENT", "IDENT", "SEMICOLON"]; n -= 3
    while n >= 2:
        out += ["IDENT", "SEMICOLON"]; n -= 2
    assert n == 0
    return out


PLACEMENTS = {
    "at_61": (_filler(61), []),       # the 64-token words of the parser's joint-bit table: operators straddling the word boundary
    "at_62": (_filler(62), []),
    "at_63": (_filler(63), []),
    "alone": ([], []),
    "after_decl": (["INT_TY", "IDENT", "SEMICOLON"], []),
    "after_call": (["IDENT", "IDENT", "SEMICOLON"], []),
    "in_block": (["IF_KW", "L_PAREN", "IDENT", "R_PAREN", "L_CURLY"], ["R_CURLY"]),
    "before_stmt": ([], ["IDENT", "IDENT", "SEMICOLON"]),
}
# statements that are only valid at global scope / inside a subroutine are not placed in an `if` block
GLOBAL_ONLY = ("gate_", "def", "extern", "qubit", "qreg", "creg", "io", "iow", "include", "version", "pragma", "array_decl", "const_decl")


class Family:
    def __init__(self, known, seed):
        self.kit = ParserKit()
        self.known = known; self.seed = seed
        self.ex = Exec(self.kit.prog, self.kit.models, max_steps=3000000)

    def harness(self, task):
        return SkelHarness(self, task)

    def exec_for(self, h):
        return self.ex


class SkelHarness:
    def __init__(self, fam, task):
        self.fam = fam; self.kit = fam.kit
        self.name, self.shape, self.placement = task

    def run(self, ex):
        kit = self.kit; K = kit.K
        pre, suf = PLACEMENTS[self.placement]
        shape = list(pre) + list(self.shape) + list(suf)
        inst = skel.instantiate(kit, shape)
        self.inst = inst
        for c in inst.cons:
            ex.add_constraint(c)
        words, jc = skel.joint_word(inst)
        for c in jc:
            ex.add_constraint(c)
        self.words = words
        inp = [VecV(list(inst.toks)), VecV(list(words))]
        out = ex.call("TopEntryPoint::parse", [Ref([0], 0), Ref([inp], 0)])
        steps = kit.decode(out)
        errs = [s[1] for s in steps if s[0] == "error"]
        ex.obligations += 1
        if errs:
            e = 0
            for s_ in steps:
                if s_[0] == "error":
                    break
                if s_[0] == "token":
                    e += s_[2]
            first = errs[0] if isinstance(errs[0], str) else "expected <token> (formatted message)"
            self.err_at = e
            raise Violation("syntax diagnostic on a valid program: " + first, {"e": e, "n_errors": len(errs)})
        self.tree_obligations(ex, steps)
        return len(steps)

    def tree_obligations(self, ex, steps):
        """hand-derived preconditions of validation.rs / ast accessors (DESIGN C01, tree validation)"""
        K = self.kit.K
        stack = []
        for i, s in enumerate(steps):
            if s[0] == "enter":
                stack.append([s[1], []])
            elif s[0] == "exit":
                kind, ch = stack.pop()
                if stack:
                    stack[-1][1].append(("node", kind))
                if kind == K["TIMING_LITERAL"]:
                    ex.obligations += 1
                    if ("node", K["IDENTIFIER"]) not in ch:
                        raise Violation("TIMING_LITERAL without IDENTIFIER child (validate_timing_literal would unwrap None)")
                if kind == K["LITERAL"]:
                    ex.obligations += 1
                    if not ch or ch[0][0] != "token":
                        raise Violation("LITERAL node without a leading token (Literal::token would unwrap None)")
            elif s[0] == "token":
                if stack:
                    stack[-1][1].append(("token", s[1]))

    def describe(self, ex, outcome, detail):
        kit = self.kit
        n = len(self.inst.toks)
        if outcome == "ok":
            h = hashlib.sha256((str(self.fam.seed) + self.name + ":" + ",".join(map(str, ex.decisions))).encode()).digest()
            if h[0] >= 6:
                return ("ok", ex.obligations)
            model = ex.model() or {}
            return ("sample", ex.obligations, self.concrete(model), self.name, self.placement)
        model = ex.model() or {}
        ks, js = self.concrete(model)
        site = f"{outcome}|{self.name}@{self.placement}|{detail['msg']}"
        kid = None
        if outcome == "violation" and detail.get("info"):
            e = detail["info"]["e"]
            nm = lambda i: kit.names.get(ks[i], "?") if 0 <= i < len(ks) else "EOF"
            site = f"violation|{detail['msg']}|at {nm(e)} after {nm(e - 1)}"
        if outcome in ("violation", "panic", "stuck"):
            env = PEnv(kit, self.inst.toks).env()
            env["e"] = detail["info"]["e"] if detail.get("info") else 0
            kid = findings.match_known(ex, self.fam.known, site, env)
        ops = [skel.op_name(kit, self.inst, model, o) for o in self.inst.ops]
        return ("fail", outcome, site, ks, js, kid, self.name, self.placement, ops)

    def concrete(self, model):
        n = len(self.inst.toks)
        ks = [t if isinstance(t, int) else model.get(f"k{i}", self.kit.K["IDENT"]) for i, t in enumerate(self.inst.toks)]
        js = [(model.get(f"joint{i // 64}", 0) >> (i % 64)) & 1 for i in range(n)]
        for i, b in self.inst.forced_joint.items():
            js[i] = b
        return ks, js


def famfactory(known, seed):
    def f():
        return Family(known, seed)
    return f


def build_tasks(depth, placements, maxlen):
    G = skel.spec()
    tasks = []
    for name, sk in G.statements(depth):
        for shape in skel.expand_shapes(sk):
            tag = name + ("" if shape == sk else "/" + "".join(str(it[1]) for it in shape if isinstance(it, tuple) and it[0] in ("binop", "cmpassign")))
            for pl in placements:
                if pl == "in_block" and name.startswith(GLOBAL_ONLY):
                    continue
                if pl.startswith("at_"):
                    if shape == sk or name.split("<")[0] not in ("cmpassign", "cmpassign_pow", "expr_stmt", "decl_init", "alias_concat", "measure_arrow", "def1w_ret"):
                        continue      # word-boundary placements: statements that contain multi-token operators
                    tasks.append((tag, shape, pl))
                    continue
                if pl != "alone" and "<" in name and not name.endswith("<atom>"):
                    continue      # placement exercises statement dispatch; expression variants are placed alone
                if len(shape) + len(PLACEMENTS[pl][0]) + len(PLACEMENTS[pl][1]) > maxlen:
                    continue
                tasks.append((tag, shape, pl))
    return tasks


def native_errors(kit, ks, js):
    line = "parse_kinds " + ",".join(map(str, ks)) + " " + ",".join(map(str, js))
    o = native.run_one(line, "dev")
    if native.failed(o):
        return o, ["<native failure> " + str(_short(o))]
    return o, [s[1] for s in o["steps"] if s[0] == "error"]


def run(ctx):
    res = Result()
    kit = ParserKit()
    depth = 2 if ctx.quick() else 3
    maxlen = 16 if ctx.quick() else 28
    placements = ["alone", "after_call", "in_block", "at_62", "at_63"] if ctx.quick() else list(PLACEMENTS)
    depth = int(os.environ.get("VERIF_C04_DEPTH", depth))
    tasks = build_tasks(depth, placements, maxlen)
    if os.environ.get("VERIF_C04_ONLY"):
        tasks = [t for t in tasks if os.environ["VERIF_C04_ONLY"] in t[0]]
    ctx.log(f"{len(tasks)} skeleton instances (depth {depth}, <= {maxlen} tokens, placements {placements})")
    fails = {}
    samples = []
    programs = [0]

    def on_result(idx, task, recs, left, stats, err):
        if err:
            res.inconclusive.append(err[:400])
        if left:
            res.inconclusive.append(f"skeleton {task[0]} not exhausted")
        for r in recs:
            if r[0] in ("ok", "sample"):
                res.obligations += r[1]
                if r[0] == "sample":
                    samples.append(r)
            else:
                d = fails.setdefault((r[2], r[5]), {"count": 0, "examples": []})
                d["count"] += 1
                if len(d["examples"]) < 3:
                    d["examples"].append(r)
    st, errs = explore.explore_many(famfactory(ctx.known, ctx.seed), tasks, workers=ctx.workers, on_result=on_result, log=ctx.log)
    res.merge_stats(st)
    ctx.log(f"{st.get('paths', 0)} paths over {len(tasks)} skeleton instances: ok={st.get('ok', 0)} violation={st.get('violation', 0)} panic={st.get('panic', 0)} "
            f"unsupported={st.get('unsupported', 0)} wall={st.get('wall', 0):.1f}s")
    res.extra["skeleton_instances"] = len(tasks)
    # validation of passing samples: native parser must report no error for the concrete instance
    for s in samples[:300]:
        ks, js = s[2]
        o, errs_ = native_errors(kit, ks, js)
        if errs_:
            res.inconclusive.append(f"engine: no diagnostics, native: {errs_[:2]} for {names_of(kit, ks)}")
        else:
            res.validated += 1
    for s in samples[:4]:
        res.samples.append({"skeleton": s[3], "placement": s[4], "tokens": names_of(kit, s[2][0]), "text": kit.render(s[2][0], s[2][1]), "outcome": "no diagnostics (proved for every slot value on this path)"})
    known_by_id = {k["id"]: k for k in ctx.known}
    seen = collections.Counter()
    for (site, kid), info in sorted(fails.items()):
        e0 = info["examples"][0]
        if e0[1] == "unsupported":
            res.inconclusive.append(f"unsupported ({info['count']} paths): {site}")
            continue
        rep = None
        for e in info["examples"]:
            o, errs_ = native_errors(kit, e[3], e[4])
            if errs_:
                rep = (e, errs_); break
        if rep is None:
            res.inconclusive.append(f"counterexample does not reproduce natively: {site} e.g. {names_of(kit, e0[3])}")
            continue
        res.validated += 1
        e, errs_ = rep
        text = kit.render(e[3], e[4])
        if kid is not None:
            seen[kid] += info["count"]
            if seen[kid] == info["count"]:
                res.known_hits.append(f"{kid}: {known_by_id[kid].get('what', '')} (e.g. `{(text or '').strip()}` -> {errs_[0]})")
            continue
        what = {"site": site[:300], "paths": info["count"], "skeleton": e[6], "placement": e[7], "operators": e[8], "tokens": names_of(kit, e[3]),
                "source_text": text, "native_errors": errs_[:3]}
        rp = os.path.join(ctx.replay_dir, "valid_" + hashlib.sha1(site.encode()).hexdigest()[:10] + ".json")
        json.dump({"property": "C04", "ks": e[3], "js": e[4], "what": what}, open(rp, "w"), indent=1)
        res.violations.append({"what": json.dumps(what), "replay": rp})
        res.samples.append(what)
    res.extra["known_finding_paths"] = dict(seen)
    res.functions_encoded += ["oq3_parser::TopEntryPoint::parse (whole parser) on every skeleton instance"]
    res.bounds.update({"expression_depth": depth - 1, "max_tokens": maxlen, "placements": placements,
                       "slots": "every token class member; operator slots: all 19 binary / 10 compound-assignment spellings; joint bits free outside operators"})
    res.assumptions += ["/verif/spec/grammar.py is a faithful excerpt of the OpenQASM 3 grammar for the listed constructs"]
    res.outside_claim += ["constructs not in the skeleton grammar (cal/defcal/box/durationof)", "identifier and literal texts (lexical acceptance is C15)", "deeper nesting"]
    res.exhaustive = not res.inconclusive
    return res


def replay(ctx, path):
    d = json.load(open(path))
    kit = ParserKit()
    o, errs_ = native_errors(kit, d["ks"], d["js"])
    print(errs_)
    return 1 if errs_ else 0
