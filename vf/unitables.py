"""Unicode range tables read from the exact crate versions /repo builds against (Cargo.lock -> cargo registry).

is_xid_start / is_xid_continue (unicode-xid) and is_emoji_char (unicode-properties) are not left uninterpreted:
their tables become range disjunctions over the code point.
"""
import glob, os, re, functools

REG = os.path.expanduser("~/.cargo/registry/src")


def _crate_dir(name):
    lock = open(os.path.join(os.environ.get("VERIF_REPO", "/repo"), "Cargo.lock")).read()
    m = re.search(r'name = "%s"\nversion = "([^"]+)"' % re.escape(name), lock)
    if not m:
        raise RuntimeError(f"{name} not in /repo/Cargo.lock")
    ds = glob.glob(os.path.join(REG, "*", f"{name}-{m.group(1)}"))
    if not ds:
        raise RuntimeError(f"{name}-{m.group(1)} not in the cargo registry")
    return ds[0], m.group(1)


def _ch(s):
    s = s.strip()
    assert s[0] == "'" and s[-1] == "'", s
    s = s[1:-1]
    if s.startswith("\\u{"):
        return int(s[3:-1], 16)
    if s.startswith("\\"):
        return {"\\\\": 92, "\\'": 39, "\\n": 10, "\\t": 9, "\\r": 13, "\\0": 0}[s]
    return ord(s)


@functools.lru_cache(None)
def tables():
    d, v1 = _crate_dir("unicode-xid")
    txt = open(os.path.join(d, "src", "tables.rs"), encoding="utf-8").read()
    out = {"versions": {"unicode-xid": v1}}
    for name in ("XID_Continue", "XID_Start"):
        m = re.search(r"static %s_table: &\[\(char, char\)\] = &\[(.*?)\];" % name, txt, flags=re.S)
        rs = [(_ch(a), _ch(b)) for a, b in re.findall(r"\(('(?:\\u\{[0-9a-fA-F]+\}|\\.|[^'])')\s*,\s*('(?:\\u\{[0-9a-fA-F]+\}|\\.|[^'])')\)", m.group(1))]
        out[name] = rs
    d, v2 = _crate_dir("unicode-properties")
    out["versions"]["unicode-properties"] = v2
    txt = open(os.path.join(d, "src", "tables.rs"), encoding="utf-8").read()
    m = re.search(r"const EMOJI_STATUS: &\[\(char, char, EmojiStatus\)\] = &\[(.*?)\];", txt, flags=re.S)
    rs = []
    for a, b, st in re.findall(r"\(('(?:\\u\{[0-9a-fA-F]+\}|\\.|[^'])')\s*,\s*('(?:\\u\{[0-9a-fA-F]+\}|\\.|[^'])')\s*,\s*EmojiStatus::(\w+)\)", m.group(1)):
        if st not in ("NonEmoji", "NonEmojiButEmojiComponent"):
            rs.append((_ch(a), _ch(b)))
    out["Emoji_Char"] = merge(rs)
    out["XID_Start"] = merge(out["XID_Start"]); out["XID_Continue"] = merge(out["XID_Continue"])
    return out


def merge(rs):
    rs = sorted(rs)
    out = []
    for lo, hi in rs:
        if out and lo <= out[-1][1] + 1:
            out[-1] = (out[-1][0], max(out[-1][1], hi))
        else:
            out.append((lo, hi))
    return out


def member(table, c):
    import bisect
    rs = tables()[table]
    i = bisect.bisect_right(rs, (c, 0x7fffffff)) - 1
    return i >= 0 and rs[i][0] <= c <= rs[i][1]


if __name__ == "__main__":
    t = tables()
    print(t["versions"], {k: len(v) for k, v in t.items() if k != "versions"})
    assert member("XID_Start", ord("a")) and not member("XID_Start", ord("1")) and member("XID_Continue", ord("1"))
    assert member("XID_Start", 0xB5) and member("Emoji_Char", 0x1F600) and member("Emoji_Char", ord("#"))
