"""C10, literal -> graph arm (stage 2): literal tokens with SYMBOLIC digits are parsed by the real parser and translated by the
real literal_to_asg_texpr / expr_to_asg_texpr (unary minus folding) from MIR.  Proved for every digit string of a path: the graph
literal has the class of the source literal and its exact value (u128 for all four radices), a directly applied minus sign yields
the negated literal of the same class, duration and imaginary literals keep value, sign and unit (with and without a blank before
the unit), bit strings keep their bits and their bit count is the width, booleans their truth value, float texts are kept."""
import json, os, collections, re
import z3
from . import explore, semh
from .interp import SV, SB, Panic, Unsupported, Violation
from .asgview import N

UNITS = {"ns": "NanoSecond", "us": "MicroSecond", "µs": "MicroSecond", "ms": "MilliSecond", "s": "Second", "dt": "Cycle"}


def w128(v):
    if isinstance(v, SV):
        return z3.ZeroExt(128 - v.w, v.e) if v.w < 128 else v.e
    return z3.BitVecVal(int(v), 128)


class H(semh.Base):
    def label(self):
        return "/".join(str(x) for x in self.task)

    def site(self, outcome, detail):
        return semh.Base.site(self, outcome, detail).replace("`" + self.label() + "`", "")[:220] + " @" + "/".join(str(x) for x in self.task[:3])

    def program(self, ex):
        kind = self.task[0]
        T = self.toks_from
        self.want = None
        if kind == "int":
            _, radix, nd, neg, suffix, spaced = self.task
            if radix == 10:
                cs, v = self.sym_digits(ex, "d", nd)
            else:
                cs, v = self.sym_digits_radix(ex, "d", nd, radix)
            self.want = v
            sub = {"d": ("INT_NUMBER", cs)}
            num = "$d" + ("" if (spaced or not suffix) else "~")
            return T(f"{'- ' if neg else ''}{num} {suffix or ''} ;", sub)
        if kind == "float":
            _, text, neg, suffix, spaced = self.task
            num = text + ("" if (spaced or not suffix) else "~")
            return T(f"{'- ' if neg else ''}{num} {suffix or ''} ;")
        if kind == "bits":
            _, n, us = self.task
            cs = [ord('"')]
            self.bits = []
            for i in range(n):
                c = SV(z3.BitVec(f"b{i}", 32), 32)
                ex.add_constraint(z3.Or(c.e == 48, c.e == 49))
                self.symvars[f"b{i}"] = c
                cs.append(c); self.bits.append(c)
                if us and i == 0 and n > 1:
                    cs.append(ord("_"))
            cs.append(ord('"'))
            return T("bit [ %d ] x = $s ;" % n, {"s": ("BIT_STRING", cs)})
        if kind == "bool":
            return T(f"{self.task[1]} ;")
        if kind == "huge":      # an integer literal that does not fit 128 bits: a diagnostic, never a panic
            return T(f"{self.task[1]} ;")
        raise ValueError(kind)

    def check(self, ex, R):
        kind = self.task[0]
        P = lambda c, msg: ex.prove(c, f"`{self.label()}`: {msg}")
        if kind == "huge":
            if not R.errors:
                raise Violation(f"`{self.label()}`: an integer literal above 2^128-1 is accepted without diagnostic")
            return "huge"
        st = R.stmts[-1]
        if st.v == "ExprStmt":
            te = st[0]
        elif st.v == "DeclareClassical":
            te = st[0]["initializer"]
        else:
            raise Violation(f"`{self.label()}`: statement is {st.v}")
        e = te["expression"]
        while e.v == "Cast":
            e = e[0]["operand"]["expression"]
        if e.v != "Literal":
            raise Violation(f"`{self.label()}`: the literal is stored as {e.v} (a minus sign directly applied to a numeric literal must yield the negated literal)")
        lit = e[0]
        if kind == "int":
            _, radix, nd, neg, suffix, spaced = self.task
            want_cls = "Int" if not suffix else ("ImaginaryInt" if suffix == "im" else "TimingIntLiteral")
            if lit.v != want_cls:
                raise Violation(f"`{self.label()}`: an integer{' ' + suffix if suffix else ''} literal is stored as {lit.v}")
            P(w128(lit[0]["value"]) == self.want, "the stored integer value is not the mathematical value of the digits")
            if lit[0]["sign"] != (not neg):
                raise Violation(f"`{self.label()}`: sign stored as {lit[0]['sign']} for a {'negated' if neg else 'plain'} literal")
            if suffix and suffix != "im":
                if lit[0]["time_unit"].v != UNITS[suffix]:
                    raise Violation(f"`{self.label()}`: unit `{suffix}` stored as {lit[0]['time_unit'].v}")
            if R.errors:
                raise Violation(f"`{self.label()}`: diagnostics {R.kinds()} on a literal expression statement")
            return "int"
        if kind == "float":
            _, text, neg, suffix, spaced = self.task
            want_cls = "Float" if not suffix else ("ImaginaryFloat" if suffix == "im" else "TimingFloatLiteral")
            if lit.v != want_cls:
                raise Violation(f"`{self.label()}`: a float{' ' + suffix if suffix else ''} literal is stored as {lit.v}")
            if lit.v in ("Float", "ImaginaryFloat"):
                v = lit[0]["value"]
                if isinstance(v, str) and v.replace("_", "") != ("-" if neg else "") + text.replace("_", ""):
                    raise Violation(f"`{self.label()}`: float text stored as {v!r}")
            else:
                if lit[0]["sign"] != (not neg):
                    raise Violation(f"`{self.label()}`: sign stored as {lit[0]['sign']}")
                if lit[0]["time_unit"].v != UNITS[suffix]:
                    raise Violation(f"`{self.label()}`: unit `{suffix}` stored as {lit[0]['time_unit'].v}")
                v = lit[0]["value"]
                if isinstance(v, float) and abs(v - float(text.replace("_", ""))) > 0:
                    raise Violation(f"`{self.label()}`: duration value stored as {v!r}")
            return "float"
        if kind == "bits":
            _, n, us = self.task
            if lit.v != "BitString":
                raise Violation(f"`{self.label()}`: a bit string is stored as {lit.v}")
            v = lit[0]["value"]
            chars = v if isinstance(v, list) else [ord(c) for c in v]
            chars = [c for c in chars if c != ord("_")]          # separators may be kept in the stored text; they are not bits
            if len(chars) != n:
                raise Violation(f"`{self.label()}`: {n} bits written, {len(chars)} characters stored")
            for i, (c, b) in enumerate(zip(chars, self.bits)):
                ce = c.e if isinstance(c, SV) else z3.BitVecVal(c, 32)
                P(ce == b.e, f"bit {i} of the stored string is not the bit written")
            ty = te["ty"] if e is te["expression"] else None
            # the literal's own type: walk to the literal's TExpr
            t2 = te
            while t2["expression"].v == "Cast":
                t2 = t2["expression"][0]["operand"]
            lt = t2["ty"]
            if lt.v != "BitArray" or lt[0].v != "D1":
                raise Violation(f"`{self.label()}`: bit string typed {lt!r}")
            P(w128(lt[0][0]) == z3.BitVecVal(n, 128), f"the width of the bit string's type is not its bit count {n}")
            return "bits"
        if kind == "bool":
            if lit.v != "Bool" or lit[0]["value"] != (self.task[1] == "true"):
                raise Violation(f"`{self.label()}`: `{self.task[1]}` stored as {lit!r}")
            return "bool"


def build_tasks(quick):
    T = []
    for radix, nds in ((10, (1, 3, 9) if quick else (1, 2, 3, 5, 9, 12)), (16, (1, 4) if quick else (1, 2, 4, 8)), (8, (2,) if quick else (1, 2, 5)), (2, (3,) if quick else (1, 3, 8))):
        for nd in nds:
            for neg in (False, True):
                T.append(("int", radix, nd, neg, None, False))
    for suffix in list(UNITS) + ["im"]:
        for neg in (False, True):
            for spaced in (False, True):
                T.append(("int", 10, 2, neg, suffix, spaced))
    for text in ("1.5", ".5", "5.", "1e3", "1.5e-3", "2_0.2_5"):
        for neg in (False, True):
            T.append(("float", text, neg, None, False))
            for suffix in ("ns", "dt", "im") if quick else list(UNITS) + ["im"]:
                for spaced in (False, True):
                    if not spaced and text in ("5.", "1e3"):
                        continue          # `5.ns`, `1e3ns`: what the lexer does with these spellings is C15's subject
                    T.append(("float", text, neg, suffix, spaced))
    for n in (1, 2, 4, 8) if quick else (1, 2, 3, 4, 8, 10):          # every bit is a path split: 2^n paths
        T.append(("bits", n, False))
        if n > 1:
            T.append(("bits", n, True))
    T.append(("bool", "true")); T.append(("bool", "false"))
    T.append(("huge", str(2 ** 128))); T.append(("huge", "0x1" + "0" * 32)); T.append(("huge", "int x = " + str(2 ** 128)))
    return T


def run_asg(ctx, res):
    tasks = build_tasks(ctx.quick())
    if os.environ.get("VERIF_C10_ASG_ONLY"):
        tasks = [t for t in tasks if os.environ["VERIF_C10_ASG_ONLY"] in "/".join(map(str, t))]
    fails, counts, on_result = semh.collector(res, label_of=lambda t: "/".join(map(str, t)))
    st, errs = explore.explore_many(semh.famfactory(ctx.known, ctx.seed, H), tasks, workers=ctx.workers, max_paths=3000, on_result=on_result, log=ctx.log)
    res.merge_stats(st)
    ctx.log(f"literal -> graph: {st.get('paths', 0)} paths over {len(tasks)} literal templates: {dict(counts)} panic={st.get('panic', 0)} violation={st.get('violation', 0)} unsupported={st.get('unsupported', 0)}")
    semh.triage(ctx, res, "C10", fails, panic_is="violation")
    res.functions_encoded += ["oq3_semantics::syntax_to_semantics::{expr_to_asg_texpr (Literal, PrefixExpr, TimingLiteral arms), literal_to_asg_texpr, negative_int_to_asg_type, negative_float_number_to_asg_type}", "oq3_semantics::asg::{IntLiteral, FloatLiteral, BitStringLiteral, TimingIntLiteral, TimingFloatLiteral, BoolLiteral}", "oq3_syntax::ast::token_ext::{IntNumber::value_u128, BitString::str, TimingLiteral accessors}"]
    res.bounds.update({"graph_arm": "decimal <= 9 (quick) / 12 digits, hex <= 4 / 8, octal, binary; 6 units + im with and without blank; bit strings <= 8 / 10 bits"})
