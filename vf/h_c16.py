"""C16 - statement parsing is compositional (DESIGN 6/C16).

For symbolic tokens T[0..n) and a split point k: run the REAL parser on T[..k], on T[k..] and on T (and on
T wrapped in block contexts).  If the two parts parse without any Error event, the whole must parse without
Error and its statement list must be the concatenation of theirs - proved on the decoded event lists (kinds may
be symbolic terms; equality is a solver obligation).
"""
import json, os, hashlib
import z3
from . import explore, native, findings
from .interp import Exec, SV, SB, Panic, Unsupported, Violation, StepLimit
from .main import Result
from .parser_kit import ParserKit
from .h_c01 import PEnv, names_of, _short

CONTEXTS = {
    "file": ([], []),
    "gate": (["GATE_KW", "IDENT", "IDENT", "L_CURLY"], ["R_CURLY"]),
    "def": (["DEF_KW", "IDENT", "L_PAREN", "R_PAREN", "L_CURLY"], ["R_CURLY"]),
    "if": (["IF_KW", "L_PAREN", "IDENT", "R_PAREN", "L_CURLY"], ["R_CURLY"]),
    "while": (["WHILE_KW", "L_PAREN", "IDENT", "R_PAREN", "L_CURLY"], ["R_CURLY"]),
    "for": (["FOR_KW", "INT_TY", "IDENT", "IN_KW", "IDENT", "L_CURLY"], ["R_CURLY"]),
    "case": (["SWITCH_KW", "L_PAREN", "IDENT", "R_PAREN", "L_CURLY", "CASE_KW", "INT_NUMBER", "L_CURLY"], ["R_CURLY", "R_CURLY"]),
}


class CompHarness:
    def __init__(self, n, k, ctxname, known, seed):
        self.n = n; self.k = k; self.ctxname = ctxname; self.known = known; self.seed = seed

    def make_exec(self):
        self.kit = ParserKit()
        return Exec(self.kit.prog, self.kit.models, max_steps=50000 * (self.n + 10))

    def body(self, steps):
        """steps of a whole-file parse minus the SOURCE_FILE enter/exit"""
        return steps[1:-1]

    def has_error(self, steps):
        return any(s[0] == "error" for s in steps)

    def run(self, ex):
        kit = self.kit; K = kit.K; n = self.n; k = self.k
        self.toks = kit.sym_tokens(n)
        kit.constrain_alphabet(ex, self.toks)
        # one joint word for the whole sequence; parts see the corresponding bit windows
        self.j = SV(z3.BitVec("joint", 64), 64)
        pre, suf = CONTEXTS[self.ctxname]
        P = len(pre)

        def jword(lo, hi, shift_to=0):
            # bits lo..hi-1 of the symbolic joint word moved to position shift_to; the bit after the last token is free
            e = z3.LShR(self.j.e, lo) & z3.BitVecVal((1 << (hi - lo)) - 1, 64)
            if shift_to:
                e = e << shift_to
            return SV(z3.simplify(e), 64)
        A = kit.decode(kit.parse(ex, self.toks[:k], jword(0, k)))
        if self.has_error(A):
            return "vacuous"
        B = []
        if k < n:
            B = kit.decode(kit.parse(ex, self.toks[k:], jword(k, n)))
            if self.has_error(B):
                return "vacuous"
        # the last token of part 1 must not be glued to the first token of part 2 in the parts; in the whole the
        # joint bit k-1 is symbolic (the statements may be written without a separator), which is what the
        # property quantifies over.
        whole_toks = [K[x] for x in pre] + list(self.toks) + [K[x] for x in suf]
        W = kit.decode(kit.parse(ex, whole_toks, jword(0, n, P)))
        expect = self.body(A) + (self.body(B) if B else [])
        if self.ctxname == "file":
            got = self.body(W)
        else:
            got = self.inner_block(W, P, n)
        if self.has_error(W):
            raise Violation(f"parts parse without diagnostics but the whole ({self.ctxname} context, split {k}) reports: " +
                            "; ".join(str(s[1]) for s in W if s[0] == "error")[:200])
        self.compare(ex, expect, got)
        return "checked"

    def inner_block(self, W, P, n):
        """steps strictly between the token event that consumes whole-token index P-1 ('{') and the one that consumes
        index P+n (the first '}' of the suffix); the BLOCK_EXPR enter directly precedes '{'"""
        pos = 0; start = None; end = None
        for i, s in enumerate(W):
            if s[0] == "token":
                if pos == P - 1:
                    start = i + 1
                if pos == P + n and end is None:
                    end = i
                pos += s[2]
        if start is None or end is None or end < start:
            raise Violation(f"block context {self.ctxname}: braces not found at their positions (statement consumed the closing brace?)")
        return W[start:end]

    def candidates(self, expect):
        """the two context effects inherited from rust-analyzer's statement grammar, as rewrites of the expected list"""
        K = self.kit.K
        out = []
        depth = 0; last_start = None
        for i, s in enumerate(expect):
            if depth == 0 and s[0] == "enter":
                last_start = i
            if s[0] == "enter":
                depth += 1
            elif s[0] == "exit":
                depth -= 1
        if last_start is not None and expect[last_start][1:] == (K["EXPR_STMT"],) and expect[-1] == ("exit",):
            out.append(("the last statement before `}` loses its EXPR_STMT wrapper (tail expression)", expect[:last_start] + expect[last_start + 1:-1]))
        for i in range(len(expect) - 1):
            if expect[i] == ("exit",) and expect[i + 1][0] == "token" and isinstance(expect[i + 1][1], int) and expect[i + 1][1] == K["SEMICOLON"]:
                out.append(("a `;` that is an empty statement on its own is absorbed into the preceding block statement",
                            expect[:i] + [expect[i + 1], expect[i]] + expect[i + 2:]))
        return out

    def same(self, ex, expect, got, prove):
        if len(expect) != len(got):
            return False
        conds = []
        for a, b in zip(expect, got):
            if a[0] != b[0] or (a[0] == "token" and a[2] != b[2]):
                return False
            if a[0] in ("enter", "token"):
                if isinstance(a[1], int) and isinstance(b[1], int):
                    if a[1] != b[1]:
                        return False
                else:
                    ka = a[1].e if isinstance(a[1], SV) else z3.BitVecVal(a[1], 16)
                    kb = b[1].e if isinstance(b[1], SV) else z3.BitVecVal(b[1], 16)
                    conds.append(ka == kb)
        if not conds:
            return True
        c = z3.And(conds)
        return ex.check_sat(z3.Not(c)) is None

    def compare(self, ex, expect, got):
        ex.obligations += 1
        if self.same(ex, expect, got, True):
            return
        for msg, cand in self.candidates(expect):
            if self.same(ex, cand, got, True):
                raise Violation(f"statement list differs: {msg}")
        raise Violation(f"statement list differs in {self.ctxname} context (split {self.k}): {self.fmt(expect)} vs {self.fmt(got)}")

    def fmt(self, steps):
        out = []
        for s in steps:
            if s[0] in ("enter", "token"):
                nm = self.kit.names.get(s[1], "?") if isinstance(s[1], int) else "<sym>"
                out.append(("+" if s[0] == "enter" else "") + nm)
            elif s[0] == "exit":
                out.append("-")
            else:
                out.append("ERR")
        return " ".join(out)

    def describe(self, ex, outcome, detail):
        kit = self.kit
        if outcome == "ok":
            if detail == "checked":
                h = hashlib.sha256((str(self.seed) + ":" + ",".join(map(str, ex.decisions))).encode()).digest()
                if h[0] < 8:
                    model = ex.model() or {}
                    return ("sample", detail, ex.obligations, kit.model_tokens(model, self.n), model.get("joint", 0))
            return ("ok", detail, ex.obligations)
        model = ex.model() or {}
        ks = kit.model_tokens(model, self.n)
        jw = model.get("joint", 0)
        fn = detail["stack"][-1] if detail.get("stack") else "?"
        site = f"{outcome}|{self.ctxname}|{detail['msg']}"
        kid = None
        if outcome in ("violation", "panic", "stuck"):
            env = PEnv(kit, self.toks).env()
            env["k"] = self.k
            kid = findings.match_known(ex, self.known, site, env)
        return ("fail", outcome, site, ks, [(jw >> i) & 1 for i in range(self.n)], kid, self.k, self.ctxname)


def hfactory(n, k, ctxname, known, seed):
    def f():
        return CompHarness(n, k, ctxname, known, seed)
    return f


def native_steps(ks, js):
    line = "parse_kinds " + (",".join(map(str, ks)) or "-") + " " + (",".join(map(str, js)) or "-")
    return native.run_one(line, "dev")


def native_compositional(kit, ks, js, k, ctxname):
    """re-evaluates the property natively on concrete tokens: returns (violated, message)"""
    K = kit.K
    pre, suf = CONTEXTS[ctxname]
    a = native_steps(ks[:k], js[:k - 1] + [0] if k else [])
    b = native_steps(ks[k:], js[k:]) if k < len(ks) else {"steps": [["enter", 0], ["exit"]]}
    w = native_steps([K[x] for x in pre] + ks + [K[x] for x in suf], [0] * len(pre) + js[:len(ks) - 1] + [0] + [0] * len(suf))
    for o in (a, b, w):
        if native.failed(o):
            return True, "native parse failed: " + str(_short(o))
    A, B, W = a["steps"], b["steps"], w["steps"]
    if any(s[0] == "error" for s in A + B):
        return False, "parts have diagnostics"
    if any(s[0] == "error" for s in W):
        return True, "parts parse clean, whole reports " + "; ".join(s[1] for s in W if s[0] == "error")
    expect = A[1:-1] + B[1:-1]
    if ctxname == "file":
        got = W[1:-1]
    else:
        P = len(pre); pos = 0; start = end = None
        for i, s in enumerate(W):
            if s[0] == "token":
                if pos == P - 1:
                    start = i + 1
                if pos == P + len(ks) and end is None:
                    end = i
                pos += s[2]
        if start is None or end is None:
            return True, "braces displaced"
        got = W[start:end]
    if expect != got:
        return True, f"statement lists differ: {expect} vs {got}"
    return False, ""


def run(ctx):
    res = Result()
    kit = ParserKit()
    N = 3 if ctx.quick() else 4
    N = int(os.environ.get("VERIF_C16_N", N))
    NB = int(os.environ.get("VERIF_C16_NB", 2 if ctx.quick() else 3))   # tokens inside block contexts
    ctxs = ["file", "gate"] if ctx.quick() else list(CONTEXTS)
    if os.environ.get("VERIF_C16_CTX"):
        ctxs = os.environ["VERIF_C16_CTX"].split(",")
    fails = {}
    samples = []
    checked = 0
    for n in range(1, N + 1):
        for k in range(1, n + 1):
            for c in ctxs:
                if c == "file" and k == n:
                    continue   # T alone at file level is the definition of its parse
                if c != "file" and n > NB:
                    continue
                if c != "file" and n == N and not ctx.quick() and k not in (1, n):
                    pass

                def on_records(recs):
                    nonlocal checked
                    for r in recs:
                        if r[0] in ("ok", "sample"):
                            res.obligations += r[2]
                            if r[1] == "checked":
                                checked += 1
                            if r[0] == "sample":
                                samples.append(r + (k, c))
                        else:
                            d = fails.setdefault((r[2], r[5]), {"count": 0, "examples": []})
                            d["count"] += 1
                            if len(d["examples"]) < 4:
                                d["examples"].append(r)
                st, exhaustive, err = explore.explore(hfactory(n, k, c, ctx.known, ctx.seed), workers=ctx.workers, seed=ctx.seed,
                                                      on_records=on_records, log=ctx.log)
                res.merge_stats(st)
                ctx.log(f"n={n} split={k} ctx={c}: {st.get('paths', 0)} paths ok={st.get('ok', 0)} violation={st.get('violation', 0)} "
                        f"panic={st.get('panic', 0)} unsupported={st.get('unsupported', 0)} wall={st.get('wall', 0):.1f}s")
                if err:
                    res.inconclusive.append(err[:400])
                if not exhaustive:
                    res.inconclusive.append(f"n={n} k={k} ctx={c} not exhausted")
    res.extra["paths_where_both_parts_parse_clean"] = checked
    # validation of passing samples
    for s in samples[:200]:
        ks, jw, k, c = s[3], s[4], s[5], s[6]
        js = [(jw >> i) & 1 for i in range(len(ks))]
        bad, msg = native_compositional(kit, ks, js, k, c)
        if bad:
            res.inconclusive.append(f"engine proved compositionality but native disagrees for {names_of(kit, ks)} split {k} ctx {c}: {msg}")
        else:
            res.validated += 1
    for s in samples[:3]:
        res.samples.append({"tokens": names_of(kit, s[3]), "split": s[5], "context": s[6], "outcome": "statement lists equal (proved)"})
    known_by_id = {k_["id"]: k_ for k_ in ctx.known}
    seen = set()
    for (site, kid), info in sorted(fails.items()):
        e0 = info["examples"][0]
        if e0[1] == "unsupported":
            res.inconclusive.append(f"unsupported ({info['count']} paths): {site}")
            continue
        rep = None
        for e in info["examples"]:
            bad, msg = native_compositional(kit, e[3], e[4], e[6], e[7])
            if bad:
                rep = (e, msg); break
        if rep is None:
            res.inconclusive.append(f"counterexample does not reproduce natively ({info['count']} paths): {site} e.g. {names_of(kit, e0[3])} split {e0[6]}")
            continue
        res.validated += 1
        e, msg = rep
        if kid is not None:
            if kid not in seen:
                seen.add(kid)
                res.known_hits.append(f"{kid}: {known_by_id[kid].get('what', site)} (e.g. {' '.join(names_of(kit, e[3]))} split after {e[6]} tokens, {e[7]} context; {info['count']} paths)")
            continue
        what = {"site": site[:300], "paths": info["count"], "tokens": names_of(kit, e[3]), "joint": e[4], "split": e[6], "context": e[7], "native": msg[:300],
                "source_text": kit.render(e[3], e[4])}
        rp = os.path.join(ctx.replay_dir, "comp_" + hashlib.sha1(site.encode()).hexdigest()[:10] + ".json")
        json.dump({"property": "C16", "ks": e[3], "js": e[4], "k": e[6], "ctx": e[7], "what": what}, open(rp, "w"), indent=1)
        res.violations.append({"what": json.dumps(what), "replay": rp})
        res.samples.append(what)
    from . import c16_pairs
    c16_pairs.run_pairs(ctx, res)
    res.functions_encoded += ["oq3_parser::TopEntryPoint::parse (whole parser), three runs on shared symbolic tokens"]
    res.bounds.update({"tokens": N, "tokens_in_block_contexts": NB, "split_points": "every k in 1..n", "contexts": ctxs, "alphabet": len(kit.alphabet), "joint_bits": "symbolic"})
    res.outside_claim += ["sequences longer than the bound", "statement texts (names, literal values) - invisible to the parser"]
    res.exhaustive = not res.inconclusive
    return res


def replay(ctx, path):
    d = json.load(open(path))
    kit = ParserKit()
    bad, msg = native_compositional(kit, d["ks"], d["js"], d["k"], d["ctx"])
    print("violated" if bad else "holds", msg)
    return 1 if bad else 0
