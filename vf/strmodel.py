"""Symbolic string model: a string is a list of code points (ints or 32-bit symbolic values) of concrete length.
Byte lengths and offsets are exact linear forms over the per-char UTF-8 lengths (LenV), so that char-boundary
questions (`&text[a..b]`) are decided structurally or by the solver - never assumed.
"""
import collections, re
import z3
from .interp import SV, SB, EnumV, VecV, Ref, Opaque, UNIT, Panic, Unsupported, mk
from . import unitables


class SymStr:
    def __init__(self, chars, name="s"):
        self.chars = list(chars); self.name = name

    def __deepcopy__(self, memo):
        return self

    def __repr__(self):
        return f"SymStr({self.name},{len(self.chars)})"


class StrSlice:
    """&str: chars [lo, hi) of a SymStr"""
    __slots__ = ("s", "lo", "hi")
    ref_like = True

    def __init__(self, s, lo, hi):
        self.s = s; self.lo = lo; self.hi = hi

    def __deepcopy__(self, memo):
        return self

    def chars(self):
        return self.s.chars[self.lo:self.hi]

    def __repr__(self):
        return f"{self.s.name}[{self.lo}..{self.hi}]"


class CharsV:
    """core::str::Chars: position i in s, end hi"""
    __slots__ = ("s", "i", "hi")

    def __init__(self, s, i, hi):
        self.s = s; self.i = i; self.hi = hi

    def __deepcopy__(self, memo):
        return CharsV(self.s, self.i, self.hi)

    def next(self, ex):
        if self.i < self.hi:
            c = self.s.chars[self.i]; self.i += 1
            return c
        return None


def len8_e(c):
    """z3 64-bit term for len_utf8 of a symbolic char"""
    e = c.e
    return z3.If(z3.ULT(e, 0x80), z3.BitVecVal(1, 64), z3.If(z3.ULT(e, 0x800), z3.BitVecVal(2, 64),
                 z3.If(z3.ULT(e, 0x10000), z3.BitVecVal(3, 64), z3.BitVecVal(4, 64))))


def len8_c(c):
    return 1 if c < 0x80 else 2 if c < 0x800 else 3 if c < 0x10000 else 4


class LenV:
    """const + sum coef_k * len_utf8(char k of string s)   (an exact byte length / offset)"""
    __slots__ = ("s", "terms", "const", "w")

    def __init__(self, s, terms, const=0, w=64):
        self.s = s; self.terms = {k: v for k, v in terms.items() if v}; self.const = const; self.w = w

    def __deepcopy__(self, memo):
        return self

    def norm(self):
        """fold concrete chars; return int when nothing symbolic is left"""
        t = {}
        c = self.const
        for k, v in self.terms.items():
            ch = self.s.chars[k]
            if isinstance(ch, int):
                c += v * len8_c(ch)
            else:
                t[k] = v
        if not t:
            return c
        return LenV(self.s, t, c, self.w)

    def to_sv(self):
        e = z3.BitVecVal(self.const % (1 << 64), 64)
        for k, v in sorted(self.terms.items()):
            e = e + z3.BitVecVal(v % (1 << 64), 64) * len8_e(self.s.chars[k])
        if self.w != 64:
            e = z3.Extract(self.w - 1, 0, e)
        return SV(z3.simplify(e), self.w)

    def maxval(self):
        return self.const + sum(4 * v if v > 0 else v for v in self.terms.values())

    def minval(self):
        return self.const + sum(v if v > 0 else 4 * v for v in self.terms.values())

    def __repr__(self):
        return f"LenV({self.const}+{self.terms})"


def span_len(s, a, b):
    return LenV(s, {k: 1 for k in range(a, b)}, 0).norm()


def lenv_binop(ex, op, a, b):
    """arithmetic on LenV operands; falls back to bit-vectors for anything not linear"""
    def parts(x):
        if isinstance(x, LenV):
            return x.s, dict(x.terms), x.const
        if isinstance(x, bool):
            x = int(x)
        if isinstance(x, int):
            return None, {}, x
        return "sv", None, None
    sa, ta, ca = parts(a)
    sb, tb, cb = parts(b)
    w = a.w if isinstance(a, LenV) else b.w
    if sa == "sv" or sb == "sv" or (sa is not None and sb is not None and sa is not sb):
        return None
    s = sa if sa is not None else sb
    if op in ("Add", "AddWithOverflow", "AddUnchecked", "Sub", "SubWithOverflow", "SubUnchecked"):
        sign = 1 if op.startswith("Add") else -1
        t = collections.Counter(ta)
        for k, v in tb.items():
            t[k] += sign * v
        r = LenV(s, dict(t), ca + sign * cb, w).norm()
        if not op.endswith("WithOverflow"):
            return r
        if isinstance(r, int):
            return [r % (1 << w), not (0 <= r < (1 << w))]
        if r.minval() >= 0 and r.maxval() < (1 << w):
            return [r, False]
        # may under/overflow: decide with the solver on the bit-vector form
        ea = a.to_sv().e if isinstance(a, LenV) else z3.BitVecVal(a, w)
        eb = b.to_sv().e if isinstance(b, LenV) else z3.BitVecVal(b, w)
        if sign == 1:
            return [r, SB(z3.Not(z3.BVAddNoOverflow(ea, eb, False)))]
        return [r, SB(z3.ULT(ea, eb))]
    if op in ("Eq", "Ne", "Lt", "Le", "Gt", "Ge"):
        d = LenV(s, dict(collections.Counter(ta) - collections.Counter() if False else {k: ta.get(k, 0) - tb.get(k, 0) for k in set(ta) | set(tb)}), ca - cb, w).norm()
        if isinstance(d, int):
            return {"Eq": d == 0, "Ne": d != 0, "Lt": d < 0, "Le": d <= 0, "Gt": d > 0, "Ge": d >= 0}[op]
        lo, hi = d.minval(), d.maxval()
        if op == "Eq" and (lo > 0 or hi < 0): return False
        if op == "Ne" and (lo > 0 or hi < 0): return True
        if op == "Lt" and hi < 0: return True
        if op == "Lt" and lo >= 0: return False
        if op == "Le" and hi <= 0: return True
        if op == "Le" and lo > 0: return False
        if op == "Gt" and lo > 0: return True
        if op == "Gt" and hi <= 0: return False
        if op == "Ge" and lo >= 0: return True
        if op == "Ge" and hi < 0: return False
        ea = a.to_sv().e if isinstance(a, LenV) else z3.BitVecVal(a, w)
        eb = b.to_sv().e if isinstance(b, LenV) else z3.BitVecVal(b, w)
        return SB({"Eq": ea == eb, "Ne": ea != eb, "Lt": z3.ULT(ea, eb), "Le": z3.ULE(ea, eb), "Gt": z3.UGT(ea, eb), "Ge": z3.UGE(ea, eb)}[op])
    return None


def as_slice(v):
    while isinstance(v, Ref):
        v = v.get()
    if isinstance(v, StrSlice):
        return v
    if isinstance(v, str):
        s = SymStr([ord(c) for c in v], "const")
        return StrSlice(s, 0, len(s.chars))
    raise Unsupported("not a string: " + repr(v))


def char_index(ex, sl, off, what):
    """char index j in sl (lo <= j <= hi) with byte offset `off` from sl.lo; Panic if off is no char boundary"""
    if isinstance(off, LenV):
        off = off.norm()
    if isinstance(off, int):
        acc = 0
        for j in range(sl.lo, sl.hi + 1):
            if acc == off and all(isinstance(c, int) for c in sl.s.chars[sl.lo:j]):
                return j
            if j < sl.hi:
                c = sl.s.chars[j]
                if not isinstance(c, int):
                    break
                acc += len8_c(c)
        else:
            raise Panic(f"byte index {off} is out of bounds or not a char boundary ({what})")
        # symbolic chars before the offset: fall through to the solver
        off = LenV(sl.s, {}, off)
    if isinstance(off, LenV) and off.s is sl.s:
        # structural match against the exact prefix sums (mixed concrete / symbolic chars)
        for j in range(sl.lo, sl.hi + 1):
            pj = span_len(sl.s, sl.lo, j)
            if isinstance(pj, LenV) and pj.terms == off.terms and pj.const == off.const:
                return j
    # general case: ask the solver which boundary (if any) the offset denotes
    def w64(e):
        return z3.ZeroExt(64 - e.size(), e) if e.size() < 64 else e
    oe = w64(off.to_sv().e) if isinstance(off, LenV) else (w64(off.e) if isinstance(off, SV) else z3.BitVecVal(off, 64))
    opts = []
    for j in range(sl.lo, sl.hi + 1):
        pe = span_len(sl.s, sl.lo, j)
        pe = pe.to_sv().e if isinstance(pe, LenV) else z3.BitVecVal(pe, 64)
        opts.append((j, oe == pe))
    opts.append((-1, z3.And([z3.Not(c) for _, c in opts])))
    j = ex.choose(opts)
    if j == -1:
        raise Panic(f"byte index is out of bounds or not a char boundary ({what})")
    return j


# --------------------------------------------------------------------------- char predicates
def in_ranges(c, ranges):
    if isinstance(c, int):
        return any(lo <= c <= hi for lo, hi in ranges)
    e = c.e
    return SB(z3.Or([(e == lo) if lo == hi else z3.And(z3.UGE(e, lo), z3.ULE(e, hi)) for lo, hi in ranges]))


_pred_cache = {}
DOMAIN_MAX = None      # when set, every symbolic char is constrained to be < DOMAIN_MAX and tables are clipped accordingly


def clipped(table):
    rs = unitables.tables()[table]
    if DOMAIN_MAX is None:
        return rs
    return [(lo, min(hi, DOMAIN_MAX - 1)) for lo, hi in rs if lo < DOMAIN_MAX]


def table_pred(c, table):
    if isinstance(c, int):
        return unitables.member(table, c)
    key = (c.e.get_id(), table, DOMAIN_MAX)
    r = _pred_cache.get(key)
    if r is None:
        r = (c.e, in_ranges(c, clipped(table)))
        _pred_cache[key] = r
    return r[1]


def fresh_char(name):
    return SV(z3.BitVec(name, 32), 32)


def char_domain(c):
    """Unicode scalar value (below DOMAIN_MAX when a check bounds the code-point range)"""
    if DOMAIN_MAX is not None and DOMAIN_MAX <= 0xD800:
        return z3.ULT(c.e, DOMAIN_MAX)
    return z3.And(z3.ULT(c.e, 0x110000), z3.Or(z3.ULT(c.e, 0xD800), z3.UGT(c.e, 0xDFFF)))


def install(models):
    R = models.reg
    n0 = len(models.table)

    def deref(x):
        while isinstance(x, Ref):
            x = x.get()
        return x

    def opt(x):
        return EnumV("Option", 0, []) if x is None else EnumV("Option", 1, [x])

    @R(r"^core::str::<impl str>::chars$")
    def _chars(ex, c, a):
        sl = as_slice(a[0])
        return CharsV(sl.s, sl.lo, sl.hi)

    @R(r"^<Chars<'_> as Iterator>::next$")
    def _chars_next(ex, c, a):
        it = deref(a[0])
        if it.i < it.hi:
            ch = it.s.chars[it.i]; it.i += 1
            return opt(ch)
        return opt(None)

    @R(r"^<Chars<'_> as Clone>::clone$")
    def _chars_clone(ex, c, a):
        it = deref(a[0])
        return CharsV(it.s, it.i, it.hi)

    @R(r"^Chars::<'_>::as_str$")
    def _chars_as_str(ex, c, a):
        it = deref(a[0])
        return StrSlice(it.s, it.i, it.hi)

    @R(r"^core::str::<impl str>::len$")
    def _len(ex, c, a):
        sl = as_slice(a[0])
        return span_len(sl.s, sl.lo, sl.hi)

    @R(r"^core::str::<impl str>::is_empty$")
    def _is_empty(ex, c, a):
        sl = as_slice(a[0])
        return sl.lo == sl.hi

    @R(r"^<str as Index<(std::ops::)?RangeFrom<usize>>>::index$")
    def _idx_from(ex, c, a):
        sl = as_slice(a[0])
        r = a[1]
        off = r[0] if isinstance(r, list) else r
        j = char_index(ex, sl, off, "&s[a..]")
        return StrSlice(sl.s, j, sl.hi)

    @R(r"^<str as Index<(std::ops::)?RangeTo<usize>>>::index$")
    def _idx_to(ex, c, a):
        sl = as_slice(a[0])
        r = a[1]
        off = r[0] if isinstance(r, list) else r
        j = char_index(ex, sl, off, "&s[..b]")
        return StrSlice(sl.s, sl.lo, j)

    @R(r"^<str as Index<(std::ops::)?Range<usize>>>::index$")
    def _idx_range(ex, c, a):
        sl = as_slice(a[0])
        r = a[1]
        j1 = char_index(ex, sl, r[0], "&s[a..b] start")
        j2 = char_index(ex, sl, r[1], "&s[a..b] end")
        if j2 < j1:
            raise Panic("slice index starts after end")
        return StrSlice(sl.s, j1, j2)

    @R(r"^core::str::<impl str>::get::<(std::ops::)?Range(From|To)?<usize>>$")
    def _str_get(ex, c, a):
        sl = as_slice(a[0])
        r = a[1]
        try:
            if "RangeFrom" in c:
                j = char_index(ex, sl, r[0] if isinstance(r, list) else r, "s.get(a..)")
                return opt(StrSlice(sl.s, j, sl.hi))
            if "RangeTo" in c:
                j = char_index(ex, sl, r[0] if isinstance(r, list) else r, "s.get(..b)")
                return opt(StrSlice(sl.s, sl.lo, j))
            j1 = char_index(ex, sl, r[0], "s.get(a..b)")
            j2 = char_index(ex, sl, r[1], "s.get(a..b)")
            if j2 < j1:
                return opt(None)
            return opt(StrSlice(sl.s, j1, j2))
        except Panic:
            return opt(None)

    @R(r"^Option::<&str>::and_then::<|^Option::<&str>::map::<")
    def _opt_str_and_then(ex, c, a):
        o = a[0]
        if o.idx == 0:
            return o
        r = ex.call_closure(a[1], [o.fields[0]])
        return r if "and_then" in c else opt(r)

    @R(r"^<str as PartialEq>::eq$|^<&str as PartialEq>::eq$|^<str as PartialEq<str>>::eq$|^<&str as PartialEq<&str>>::eq$")
    def _str_eq(ex, c, a):
        x, y = as_slice(a[0]), as_slice(a[1])
        cx, cy = x.chars(), y.chars()
        if len(cx) != len(cy):
            # equal byte strings have equal char sequences
            return False
        conds = []
        for p, q in zip(cx, cy):
            if isinstance(p, int) and isinstance(q, int):
                if p != q:
                    return False
            else:
                pe = p.e if isinstance(p, SV) else z3.BitVecVal(p, 32)
                qe = q.e if isinstance(q, SV) else z3.BitVecVal(q, 32)
                conds.append(pe == qe)
        if not conds:
            return True
        return SB(z3.And(conds) if len(conds) > 1 else conds[0])

    @R(r"^core::str::<impl str>::ends_with::<char>$")
    def _ends_with_char(ex, c, a):
        sl = as_slice(a[0])
        if sl.lo == sl.hi:
            return False
        last = sl.s.chars[sl.hi - 1]
        if isinstance(last, int):
            return last == a[1]
        return SB(last.e == a[1])

    @R(r"^core::str::<impl str>::(starts_with|contains)::<&str>$")
    def _sw(ex, c, a):
        sl = as_slice(a[0]); pat = as_slice(a[1])
        cs, ps = sl.chars(), pat.chars()
        if not all(isinstance(x, int) for x in cs + ps):
            raise Unsupported("starts_with/contains on symbolic text")
        s1 = "".join(map(chr, cs)); s2 = "".join(map(chr, ps))
        return s1.startswith(s2) if "starts_with" in c else (s2 in s1)

    @R(r"^Option::<char>::unwrap_or$|^Option::<usize>::unwrap_or$")
    def _unwrap_or(ex, c, a):
        o = a[0]
        return o.fields[0] if o.idx == 1 else a[1]

    @R(r"^Option::<char>::is_some$")
    def _is_some(ex, c, a):
        return deref(a[0]).idx == 1

    @R(r"^char::methods::<impl char>::is_ascii$")
    def _is_ascii(ex, c, a):
        ch = deref(a[0])
        return ch < 128 if isinstance(ch, int) else SB(z3.ULT(ch.e, 128))

    @R(r"^char::methods::<impl char>::is_ascii_digit$")
    def _is_ascii_digit(ex, c, a):
        ch = deref(a[0])
        return 48 <= ch <= 57 if isinstance(ch, int) else SB(z3.And(z3.UGE(ch.e, 48), z3.ULE(ch.e, 57)))

    @R(r"^char::methods::<impl char>::len_utf8$")
    def _len_utf8(ex, c, a):
        ch = a[0]
        return len8_c(ch) if isinstance(ch, int) else SV(z3.simplify(len8_e(ch)), 64)

    @R(r"^<char as UnicodeXID>::is_xid_start$")
    def _xid_start(ex, c, a):
        return table_pred(a[0], "XID_Start")

    @R(r"^<char as UnicodeXID>::is_xid_continue$")
    def _xid_continue(ex, c, a):
        return table_pred(a[0], "XID_Continue")

    @R(r"^<char as UnicodeEmoji>::is_emoji_char$")
    def _emoji(ex, c, a):
        return table_pred(a[0], "Emoji_Char")

    class ArrIter:
        def __init__(self, items):
            self.items = list(items); self.i = 0

        def next(self, ex):
            if self.i < len(self.items):
                x = self.items[self.i]; self.i += 1
                return x
            return None

    @R(r"^<\[.*; \d+\] as IntoIterator>::into_iter$")
    def _arr_into_iter(ex, c, a):
        v = deref(a[0])
        return ArrIter(v.items)

    @R(r"^<std::array::IntoIter<.*> as Iterator>::next$")
    def _arr_next(ex, c, a):
        return opt(deref(a[0]).next(ex))

    class FromFn:
        def __init__(self, f):
            self.f = f

    @R(r"^std::iter::from_fn::<")
    def _from_fn(ex, c, a):
        return FromFn(a[0])

    @R(r"^<std::iter::FromFn<.*> as Iterator>::next$|^<impl Iterator<Item = Token> as Iterator>::next$|^<impl Iterator<Item = oq3_lexer::Token> as Iterator>::next$")
    def _from_fn_next(ex, c, a):
        it = deref(a[0])
        if not isinstance(it, FromFn):
            raise Unsupported("next on " + repr(it))
        return ex.call_closure(Ref([it.f], 0), [])

    new = models.table[n0:]
    del models.table[n0:]
    models.table[0:0] = new
    models._cache_lookup.clear()
    models.FromFn = FromFn


# ------------------------------------------------------------------------------------------------ more str API (C10, stage 2)
class CharIndicesV:
    """str::char_indices: yields (byte offset from the slice start, char)"""
    def __init__(self, sl):
        self.sl = sl; self.i = sl.lo

    def next(self, ex):
        if self.i < self.sl.hi:
            off = span_len(self.sl.s, self.sl.lo, self.i)
            c = self.sl.s.chars[self.i]; self.i += 1
            return [off, c]
        return None


class BytesV:
    """str::as_bytes: only first/last byte and length are supported (exact UTF-8 lead / trail byte terms)"""
    ref_like = True

    def __init__(self, sl):
        self.sl = sl

    def __deepcopy__(self, memo):
        return self

    def len_sym(self):
        return span_len(self.sl.s, self.sl.lo, self.sl.hi)

    def index_sym(self, ex, idx):
        sl = self.sl
        if sl.hi == sl.lo:
            raise Panic("index out of bounds: the len is 0")
        i = idx.norm() if isinstance(idx, LenV) else idx
        if isinstance(i, int) and i == 0:
            return [first_byte(sl.s.chars[sl.lo])], 0
        n = self.len_sym()
        last = lenv_binop(ex, "Sub", n, 1) if isinstance(n, LenV) else n - 1
        same = (isinstance(i, LenV) and isinstance(last, LenV) and i.terms == last.terms and i.const == last.const) or (isinstance(i, int) and isinstance(last, int) and i == last)
        if same:
            return [last_byte(sl.s.chars[sl.hi - 1])], 0
        raise Unsupported("byte index other than 0 / len-1")


def first_byte(c):
    if isinstance(c, int):
        return chr(c).encode("utf-8")[0]
    e = c.e
    x = lambda v: z3.Extract(7, 0, v)
    return SV(z3.simplify(z3.If(z3.ULT(e, 0x80), x(e), z3.If(z3.ULT(e, 0x800), x(0xC0 | z3.LShR(e, 6)),
              z3.If(z3.ULT(e, 0x10000), x(0xE0 | z3.LShR(e, 12)), x(0xF0 | z3.LShR(e, 18)))))), 8)


def last_byte(c):
    if isinstance(c, int):
        return chr(c).encode("utf-8")[-1]
    e = c.e
    x = lambda v: z3.Extract(7, 0, v)
    return SV(z3.simplify(z3.If(z3.ULT(e, 0x80), x(e), x(0x80 | (e & 0x3F)))), 8)


def digit_value(e):
    """value of an ASCII alphanumeric as a digit (from_str_radix / to_digit), 255 if none"""
    return z3.If(z3.And(z3.UGE(e, 48), z3.ULE(e, 57)), e - 48,
                 z3.If(z3.And(z3.UGE(e, 97), z3.ULE(e, 122)), e - 87,
                       z3.If(z3.And(z3.UGE(e, 65), z3.ULE(e, 90)), e - 55, z3.BitVecVal(255, 32))))


def install_more(models):
    R = models.reg
    n0 = len(models.table)

    def deref(x):
        while isinstance(x, Ref):
            x = x.get()
        return x

    def opt(x):
        return EnumV("Option", 0, []) if x is None else EnumV("Option", 1, [x])

    @R(r"^core::str::<impl str>::char_indices$")
    def _char_indices(ex, c, a):
        return CharIndicesV(as_slice(a[0]))

    @R(r"^<CharIndices<'_> as Iterator>::next$")
    def _ci_next(ex, c, a):
        return opt(deref(a[0]).next(ex))

    @R(r"^core::str::<impl str>::split_at$")
    def _split_at(ex, c, a):
        sl = as_slice(a[0])
        j = char_index(ex, sl, a[1], "split_at")
        return [StrSlice(sl.s, sl.lo, j), StrSlice(sl.s, j, sl.hi)]

    @R(r"^core::str::<impl str>::as_bytes$")
    def _as_bytes(ex, c, a):
        return BytesV(as_slice(a[0]))

    @R(r"^char::methods::<impl char>::is_ascii_alphabetic$")
    def _is_alpha(ex, c, a):
        ch = deref(a[0])
        if isinstance(ch, int):
            return 65 <= ch <= 90 or 97 <= ch <= 122
        e = ch.e
        return SB(z3.Or(z3.And(z3.UGE(e, 65), z3.ULE(e, 90)), z3.And(z3.UGE(e, 97), z3.ULE(e, 122))))

    @R(r"^char::methods::<impl char>::is_ascii_alphanumeric$")
    def _is_alnum(ex, c, a):
        ch = deref(a[0])
        if isinstance(ch, int):
            return 65 <= ch <= 90 or 97 <= ch <= 122 or 48 <= ch <= 57
        e = ch.e
        return SB(z3.Or(z3.And(z3.UGE(e, 65), z3.ULE(e, 90)), z3.And(z3.UGE(e, 97), z3.ULE(e, 122)), z3.And(z3.UGE(e, 48), z3.ULE(e, 57))))

    @R(r"^(std::|core::|alloc::)?str::<impl str>::replace::<char>$")
    def _replace_char(ex, c, a):
        sl = as_slice(a[0]); frm = a[1]; to = as_slice(a[2]).chars()
        out = []
        for ch in sl.chars():
            if isinstance(ch, int) and isinstance(frm, int):
                hit = ch == frm
            else:
                ce = ch.e if isinstance(ch, SV) else z3.BitVecVal(ch, 32)
                fe = frm.e if isinstance(frm, SV) else z3.BitVecVal(frm, 32)
                hit = ex.branch_bool(SB(ce == fe))
            if hit:
                out += to
            else:
                out.append(ch)
        s = SymStr(out, sl.s.name + "'")
        return StrSlice(s, 0, len(out))

    @R(r"^core::num::<impl u(128|64|32)>::from_str_radix$")
    def _from_str_radix(ex, c, a):
        bits = int(re.search(r"impl u(\d+)", c).group(1))
        sl = as_slice(a[0]); radix = a[1]
        chars = sl.chars()
        err = lambda: EnumV("Result", 1, [Opaque("ParseIntError")])
        if not chars:
            return err()
        # an optional leading '+'
        c0 = chars[0]
        plus = (c0 == 43) if isinstance(c0, int) else ex.branch_bool(SB(c0.e == 43))
        if plus:
            chars = chars[1:]
            if not chars:
                return err()
        W = bits + 8
        bad = []
        re_ = radix if isinstance(radix, int) else None
        rterm = z3.BitVecVal(radix, 32) if isinstance(radix, int) else radix.e
        # the arithmetic is done in the narrowest width that holds radix^len (exact, then zero-extended): a 136-bit
        # multiplier chain stalls the bit-blaster for nothing when the text has a dozen digits
        Wc = W
        if re_ is not None:
            Wc = min(W, max(33, (re_ ** len(chars)).bit_length() + 1))
        val = z3.BitVecVal(0, Wc)
        n = len(chars)
        for pos, ch in enumerate(chars):
            e = ch.e if isinstance(ch, SV) else z3.BitVecVal(ch, 32)
            d = digit_value(e)
            bad.append(z3.UGE(d, rterm))
            if re_ is not None and (re_ & (re_ - 1)) != 0:
                # digit * radix^(n-1-pos) as a table look-up: the sum needs adders only (a multiplier chain by 10 makes
                # `value mod 2^32 == constant` queries take minutes)
                weight = re_ ** (n - 1 - pos)
                term = z3.BitVecVal(0, Wc)
                for k in range(re_ - 1, 0, -1):
                    term = z3.If(d == k, z3.BitVecVal((k * weight) & ((1 << Wc) - 1), Wc), term)
                val = val + term
            else:
                val = val * z3.ZeroExt(Wc - 32, rterm) + z3.ZeroExt(Wc - 32, d)
        if Wc < W:
            val = z3.ZeroExt(W - Wc, val)
        isbad = z3.simplify(z3.Or(bad))
        if z3.is_true(isbad) or (not z3.is_false(isbad) and ex.branch_bool(SB(isbad))):
            return err()
        # overflow cannot happen while radix^len < 2^bits; otherwise decide it
        maxr = re_ or 36
        if maxr ** len(chars) >= (1 << bits):
            ov = z3.UGE(val, z3.BitVecVal(1 << bits, W))
            if ex.branch_bool(SB(ov)):
                return err()
        v = z3.simplify(z3.Extract(bits - 1, 0, val))
        return EnumV("Result", 0, [v.as_long() if z3.is_bv_value(v) else SV(v, bits)])

    # ---- byte iteration as far as whole-character reasoning allows (used by unescape::skip_ascii_whitespace)
    class BytesItV:
        ref_like = True

        def __init__(self, sl):
            self.sl = sl; self.i = sl.lo

        def __deepcopy__(self, memo):
            return self

    @R(r"^core::str::<impl str>::bytes$")
    def _bytes(ex, c, a):
        return BytesItV(as_slice(a[0]))

    @R(r"^<(std::str::)?Bytes<'_> as Iterator>::position::<.*>$")
    def _bytes_position(ex, c, a):
        it = deref(a[0]); pred = a[1]
        sl = it.sl
        while it.i < sl.hi:
            ch = sl.s.chars[it.i]
            b = first_byte(ch)
            r = ex.call_closure(pred, [b])
            if isinstance(r, SB):
                r = ex.branch_bool(r)
            elif isinstance(r, SV):
                r = ex.branch_bool(SB(r.e != 0))
            if r:
                off = span_len(sl.s, sl.lo, it.i)
                return opt(off)
            # the predicate rejected the first byte: whole-character reasoning needs the character to be that single byte
            if isinstance(ch, int):
                if ch >= 0x80:
                    raise Unsupported("bytes().position() continues inside a multi-byte character")
            else:
                if ex.check_sat(z3.UGE(ch.e, 0x80)) is not None:
                    raise Unsupported("bytes().position() continues inside a multi-byte character")
            it.i += 1
        return opt(None)

    @R(r"^core::slice::<impl \[u8\]>::contains$")
    def _bytes_contains(ex, c, a):
        bs = deref(a[0]); needle = deref(a[1])
        sl = bs.sl if isinstance(bs, BytesV) else as_slice(bs)
        if not isinstance(needle, int) or needle >= 0x80:
            raise Unsupported("[u8]::contains of a non-ASCII byte")
        for k in range(sl.lo, sl.hi):
            ch = sl.s.chars[k]
            if isinstance(ch, int):
                if ch == needle:
                    return True
            elif ex.branch_bool(SB(ch.e == needle)):
                return True
        return False

    @R(r"^char::methods::<impl char>::is_whitespace$")
    def _is_ws(ex, c, a):
        ch = deref(a[0])
        WS = [(9, 13), (32, 32), (0x85, 0x85), (0xA0, 0xA0), (0x1680, 0x1680), (0x2000, 0x200A), (0x2028, 0x2029), (0x202F, 0x202F), (0x205F, 0x205F), (0x3000, 0x3000)]
        if isinstance(ch, int):
            return any(lo <= ch <= hi for lo, hi in WS)
        return SB(z3.Or([z3.And(z3.UGE(ch.e, lo), z3.ULE(ch.e, hi)) for lo, hi in WS]))

    @R(r"^core::num::<impl (usize|u8|u16|u32|u64|u128)>::(saturating_sub|saturating_add|wrapping_sub|wrapping_add|checked_sub|checked_add|min|max)$|^std::cmp::(min|max)::<(usize|u32|u64)>$|^<(usize|u32|u64) as Ord>::(min|max)$")
    def _num_methods(ex, c, a):
        m = re.search(r"(saturating_sub|saturating_add|wrapping_sub|wrapping_add|checked_sub|checked_add|min|max)", c).group(1)
        tm = re.search(r"impl (usize|u\d+)|::<(usize|u\d+)>|<(usize|u\d+) as", c)
        tn = next(g for g in tm.groups() if g)
        w = 64 if tn == "usize" else int(tn[1:])
        x, y = deref(a[0]), deref(a[1])

        def norm(v):
            if isinstance(v, LenV):
                v = v.norm()
            return v
        x, y = norm(x), norm(y)
        if isinstance(x, int) and isinstance(y, int):
            M = (1 << w) - 1
            if m == "saturating_sub": return max(x - y, 0)
            if m == "saturating_add": return min(x + y, M)
            if m == "wrapping_sub": return (x - y) & M
            if m == "wrapping_add": return (x + y) & M
            if m == "checked_sub": return opt(x - y if x >= y else None)
            if m == "checked_add": return opt(x + y if x + y <= M else None)
            return min(x, y) if m == "min" else max(x, y)

        def e(v):
            if isinstance(v, LenV):
                t = v.to_sv()
                return z3.ZeroExt(w - t.w, t.e) if t.w < w else (z3.Extract(w - 1, 0, t.e) if t.w > w else t.e)
            if isinstance(v, SV):
                return z3.ZeroExt(w - v.w, v.e) if v.w < w else v.e
            return z3.BitVecVal(v, w)
        xe, ye = e(x), e(y)

        def lin(op):
            r = lenv_binop(ex, op, x, y) if (isinstance(x, LenV) or isinstance(y, LenV)) else None
            return r
        if m in ("saturating_sub", "checked_sub"):
            ge = ex.branch_bool(SB(z3.UGE(xe, ye)))
            if ge:
                r = lin("Sub")
                r = r if r is not None else SV(z3.simplify(xe - ye), w)
                return r if m == "saturating_sub" else opt(r)
            return 0 if m == "saturating_sub" else opt(None)
        if m in ("min", "max"):
            le = ex.branch_bool(SB(z3.ULE(xe, ye)))
            return (x if le else y) if m == "min" else (y if le else x)
        if m in ("wrapping_sub",):
            return SV(z3.simplify(xe - ye), w)
        if m in ("wrapping_add",):
            return SV(z3.simplify(xe + ye), w)
        if m in ("saturating_add", "checked_add"):
            ok = ex.branch_bool(SB(z3.UGE(xe + ye, xe)))
            if ok:
                r = lin("Add")
                r = r if r is not None else SV(z3.simplify(xe + ye), w)
                return r if m == "saturating_add" else opt(r)
            return ((1 << w) - 1) if m == "saturating_add" else opt(None)
        raise Unsupported(c)

    WS_RANGES = [(9, 13), (32, 32), (0x85, 0x85), (0xA0, 0xA0), (0x1680, 0x1680), (0x2000, 0x200A), (0x2028, 0x2029), (0x202F, 0x202F), (0x205F, 0x205F), (0x3000, 0x3000)]

    def is_ws_char(ex, ch):
        if isinstance(ch, int):
            return any(lo <= ch <= hi for lo, hi in WS_RANGES)
        return ex.branch_bool(SB(z3.Or([z3.And(z3.UGE(ch.e, lo), z3.ULE(ch.e, hi)) for lo, hi in WS_RANGES])))

    @R(r"^core::str::<impl str>::(trim|trim_end|trim_start)$")
    def _trim(ex, c, a):
        sl = as_slice(a[0])
        lo, hi = sl.lo, sl.hi
        if not c.endswith("trim_start"):
            while hi > lo and is_ws_char(ex, sl.s.chars[hi - 1]):
                hi -= 1
        if not c.endswith("trim_end"):
            while lo < hi and is_ws_char(ex, sl.s.chars[lo]):
                lo += 1
        return StrSlice(sl.s, lo, hi)

    @R(r"^core::str::<impl str>::(strip_suffix|strip_prefix|trim_end_matches|trim_start_matches)::<char>$")
    def _strip_char(ex, c, a):
        sl = as_slice(a[0]); pat = a[1]
        pe = pat.e if isinstance(pat, SV) else z3.BitVecVal(pat, 32)

        def eq(ch):
            if isinstance(ch, int) and isinstance(pat, int):
                return ch == pat
            return ex.branch_bool(SB((ch.e if isinstance(ch, SV) else z3.BitVecVal(ch, 32)) == pe))
        m = re.search(r"(strip_suffix|strip_prefix|trim_end_matches|trim_start_matches)", c).group(1)
        lo, hi = sl.lo, sl.hi
        if m == "strip_suffix":
            if hi > lo and eq(sl.s.chars[hi - 1]):
                return opt(StrSlice(sl.s, lo, hi - 1))
            return opt(None)
        if m == "strip_prefix":
            if hi > lo and eq(sl.s.chars[lo]):
                return opt(StrSlice(sl.s, lo + 1, hi))
            return opt(None)
        if m == "trim_end_matches":
            while hi > lo and eq(sl.s.chars[hi - 1]):
                hi -= 1
        else:
            while lo < hi and eq(sl.s.chars[lo]):
                lo += 1
        return StrSlice(sl.s, lo, hi)

    @R(r"^core::str::<impl str>::(find|rfind|contains|starts_with|ends_with)::<(fn\(char\) -> bool.*|\{closure@.*\}|\[closure@.*\]|F)>$")
    def _find_pred(ex, c, a):
        """str::find(|c| pred(c)) and friends with a function / closure predicate on chars"""
        sl = as_slice(a[0]); pred = a[1]
        fm = re.search(r"\{(char::methods::<impl char>::\w+)\}", c)

        def holds(ch):
            if fm:
                r = ex.call(fm.group(1), [ch])
            else:
                r = ex.call_closure(pred, [ch])
            if isinstance(r, SB):
                return ex.branch_bool(r)
            if isinstance(r, SV):
                return ex.branch_bool(SB(r.e != 0))
            return bool(r)
        m = re.search(r"::(find|rfind|contains|starts_with|ends_with)::<", c).group(1)
        idx = range(sl.lo, sl.hi)
        if m == "rfind":
            idx = range(sl.hi - 1, sl.lo - 1, -1)
        if m == "starts_with":
            return sl.hi > sl.lo and holds(sl.s.chars[sl.lo])
        if m == "ends_with":
            return sl.hi > sl.lo and holds(sl.s.chars[sl.hi - 1])
        for k in idx:
            if holds(sl.s.chars[k]):
                return True if m == "contains" else opt(span_len(sl.s, sl.lo, k))
        return False if m == "contains" else opt(None)

    @R(r"^char::methods::<impl char>::(is_ascii_hexdigit|is_ascii_uppercase|is_ascii_lowercase|is_ascii_punctuation|is_ascii_whitespace|is_ascii_graphic|is_ascii_control|to_ascii_lowercase|to_ascii_uppercase|eq_ignore_ascii_case)$")
    def _ascii_class(ex, c, a):
        ch = deref(a[0])
        m = c.rsplit("::", 1)[1]
        R_ = {"is_ascii_hexdigit": [(48, 57), (65, 70), (97, 102)], "is_ascii_uppercase": [(65, 90)], "is_ascii_lowercase": [(97, 122)],
              "is_ascii_punctuation": [(33, 47), (58, 64), (91, 96), (123, 126)], "is_ascii_whitespace": [(9, 10), (12, 13), (32, 32)],
              "is_ascii_graphic": [(33, 126)], "is_ascii_control": [(0, 31), (127, 127)]}
        if m in R_:
            if isinstance(ch, int):
                return any(lo <= ch <= hi for lo, hi in R_[m])
            return SB(z3.Or([z3.And(z3.UGE(ch.e, lo), z3.ULE(ch.e, hi)) for lo, hi in R_[m]]))
        if m in ("to_ascii_lowercase", "to_ascii_uppercase"):
            lo, hi, d = (65, 90, 32) if m == "to_ascii_lowercase" else (97, 122, -32)
            if isinstance(ch, int):
                return ch + d if lo <= ch <= hi else ch
            return SV(z3.If(z3.And(z3.UGE(ch.e, lo), z3.ULE(ch.e, hi)), ch.e + d, ch.e), 32)
        other = deref(a[1])

        def low(x):
            if isinstance(x, int):
                return z3.BitVecVal(x + 32 if 65 <= x <= 90 else x, 32)
            return z3.If(z3.And(z3.UGE(x.e, 65), z3.ULE(x.e, 90)), x.e + 32, x.e)
        return SB(low(ch) == low(other))

    @R(r"^Option::<&str>::is_some_and::<.*>$")
    def _is_some_and(ex, c, a):
        o = deref(a[0])
        if o.idx == 0:
            return False
        return ex.call_closure(a[1], [o.fields[0]])

    @R(r"^(core::|std::)?str::<impl str>::parse::<u(128|64|32|size)>$")
    def _parse_uint(ex, c, a):
        bits = re.search(r"parse::<u(\d+|size)>", c).group(1)
        bits = "64" if bits == "size" else bits
        return _from_str_radix(ex, f"core::num::<impl u{bits}>::from_str_radix", [a[0], 10])

    @R(r"^char::methods::<impl char>::to_digit$")
    def _to_digit(ex, c, a):
        ch = a[0]; radix = a[1]
        e = ch.e if isinstance(ch, SV) else z3.BitVecVal(ch, 32)
        d = z3.simplify(digit_value(e))
        ok = z3.simplify(z3.ULT(d, radix))
        if z3.is_true(ok) or (not z3.is_false(ok) and ex.branch_bool(SB(ok))):
            return opt(d.as_long() if z3.is_bv_value(d) else SV(d, 32))
        return opt(None)

    @R(r"^core::str::<impl str>::(contains|starts_with|ends_with|find|rfind)::<char>$")
    def _char_pred(ex, c, a):
        sl = as_slice(a[0]); pat = a[1]
        chars = sl.chars()
        pe = pat.e if isinstance(pat, SV) else z3.BitVecVal(pat, 32)

        def eq(ch):
            if isinstance(ch, int) and isinstance(pat, int):
                return ch == pat
            return ex.branch_bool(SB((ch.e if isinstance(ch, SV) else z3.BitVecVal(ch, 32)) == pe))
        if "starts_with" in c:
            return bool(chars) and eq(chars[0])
        if "ends_with" in c:
            return bool(chars) and eq(chars[-1])
        if "rfind" in c:
            for k in range(len(chars) - 1, -1, -1):
                if eq(chars[k]):
                    return opt(span_len(sl.s, sl.lo, sl.lo + k))
            return opt(None)
        for k, ch in enumerate(chars):
            if eq(ch):
                return True if "contains" in c else opt(span_len(sl.s, sl.lo, sl.lo + k))
        return False if "contains" in c else opt(None)

    @R(r"^core::str::<impl str>::(starts_with|ends_with|contains)::<&&?str>$")
    def _str_pred(ex, c, a):
        sl = as_slice(a[0]); pat = as_slice(a[1])
        cs, ps = sl.chars(), pat.chars()

        def eq_at(k):
            for x, y in zip(cs[k:k + len(ps)], ps):
                if isinstance(x, int) and isinstance(y, int):
                    if x != y:
                        return False
                else:
                    xe = x.e if isinstance(x, SV) else z3.BitVecVal(x, 32)
                    ye = y.e if isinstance(y, SV) else z3.BitVecVal(y, 32)
                    if not ex.branch_bool(SB(xe == ye)):
                        return False
            return True
        if len(ps) > len(cs):
            return False
        if "starts_with" in c:
            return eq_at(0)
        if "ends_with" in c:
            return eq_at(len(cs) - len(ps))
        return any(eq_at(k) for k in range(len(cs) - len(ps) + 1))

    @R(r"^<std::string::String as Deref>::deref$|^<String as Deref>::deref$|^std::string::String::as_str$|^<std::string::String as Clone>::clone$|^<std::string::String as AsRef<str>>::as_ref$|^<std::string::String as Borrow<str>>::borrow$|^<.* as Into<(std::string::)?String>>::into$|^<(std::string::)?String as From<.*>>::from$")
    def _string_id(ex, c, a):
        return deref(a[0])

    @R(r"^<f64 as ToString>::to_string$")
    def _f64_to_string(ex, c, a):
        v = a[0]
        return repr(v) if isinstance(v, float) else "<f64>"

    @R(r"^<&*(str|std::string::String|String|TokenText<'_>|SmolStr) as ToString>::to_string$|^<(std::string::)?String as PartialEq<&str>>::eq_placeholder$")
    def _to_string(ex, c, a):
        v = deref(a[0])
        if isinstance(v, (StrSlice, str)):
            return v
        if isinstance(v, Opaque) and str(v.what).startswith("fmt"):
            return "<formatted>"
        raise Unsupported("to_string of " + repr(v)[:40])

    @R(r"^<(std::string::)?String as PartialEq(<&?str>)?>::(eq|ne)$|^<&?str as PartialEq<(std::string::)?String>>::(eq|ne)$|^<(std::string::)?String as PartialEq<(std::string::)?String>>::(eq|ne)$")
    def _string_eq(ex, c, a):
        h = ex.models.lookup("<str as PartialEq>::eq")
        r = h(ex, "<str as PartialEq>::eq", [deref(a[0]), deref(a[1])])
        if c.endswith("::ne"):
            return SB(z3.Not(r.e)) if isinstance(r, SB) else (not r)
        return r

    @R(r"^Option::<&str>::unwrap_or_default$")
    def _unwrap_or_default_str(ex, c, a):
        o = a[0]
        return o.fields[0] if o.idx == 1 else StrSlice(SymStr([], "empty"), 0, 0)

    @R(r"^<\[u8\] as Index<usize>>::index$")
    def _bytes_index(ex, c, a):
        b = deref(a[0]); i = a[1]
        if not isinstance(b, BytesV):
            raise Unsupported("byte index on " + repr(b)[:40])
        sl = b.sl
        n = span_len(sl.s, sl.lo, sl.hi)
        if isinstance(i, int) and i == 0 and sl.hi > sl.lo:
            return Ref([first_byte(sl.s.chars[sl.lo])], 0)
        raise Unsupported("byte index other than 0 / len-1")

    new = models.table[n0:]
    del models.table[n0:]
    models.table[0:0] = new
    models._cache_lookup.clear()


# ------------------------------------------------------------------------------------------------ String buffers
class StrBuf:
    """std::string::String built incrementally (String::new / push / push_str / reserve_exact / capacity)"""
    def __init__(self):
        self.chars = []; self.cap = 0

    def __deepcopy__(self, memo):
        b = StrBuf(); b.chars = list(self.chars); b.cap = self.cap
        return b

    def slice(self):
        return StrSlice(SymStr(self.chars, "buf"), 0, len(self.chars))


_as_slice_orig = as_slice


def as_slice(v):          # noqa: F811  (StrBuf-aware)
    w = v
    while isinstance(w, Ref):
        w = w.get()
    if isinstance(w, StrBuf):
        return w.slice()
    return _as_slice_orig(v)


def install_strbuf(models):
    R = models.reg
    n0 = len(models.table)

    def deref(x):
        while isinstance(x, Ref):
            x = x.get()
        return x

    @R(r"^std::string::String::new$|^String::new$")
    def _new(ex, c, a):
        return StrBuf()

    @R(r"^std::string::String::capacity$")
    def _cap(ex, c, a):
        b = deref(a[0])
        return b.cap if isinstance(b, StrBuf) else len(as_slice(b).chars())

    @R(r"^std::string::String::reserve_exact$|^std::string::String::reserve$")
    def _reserve(ex, c, a):
        b = deref(a[0])
        n = a[1]
        if isinstance(n, LenV):
            n = n.maxval()
        b.cap = max(b.cap, len(b.chars) + (n if isinstance(n, int) else 1), 1)
        return UNIT

    @R(r"^std::string::String::push$")
    def _push(ex, c, a):
        b = deref(a[0]); b.chars.append(a[1]); b.cap = max(b.cap, len(b.chars))
        return UNIT

    @R(r"^std::string::String::push_str$")
    def _push_str(ex, c, a):
        b = deref(a[0]); b.chars += as_slice(a[1]).chars(); b.cap = max(b.cap, len(b.chars))
        return UNIT

    @R(r"^<std::string::String as Deref>::deref$|^std::string::String::as_str$|^<std::string::String as AsRef<str>>::as_ref$|^<Cow<'_, str> as Deref>::deref$|^<Cow<'_, str> as ToString>::to_string$|^Cow::<'_, str>::into_owned$|^<Cow<'_, str> as AsRef<str>>::as_ref$")
    def _deref(ex, c, a):
        b = deref(a[0])
        if isinstance(b, StrBuf):
            return b.slice()
        if isinstance(b, EnumV) and b.ty == "Cow":
            return as_slice(b.fields[0])
        return b
    new = models.table[n0:]
    del models.table[n0:]
    models.table[0:0] = new
    models._cache_lookup.clear()
