"""Stage-2 engine validation (Serval style): programs of the repository's own test corpus are pushed through BOTH the
natively compiled pipeline (replay driver, `semantic` command) and the MIR engine (tree built by the interpreted parser,
analysis interpreted from MIR); the flattened graphs and diagnostic kinds must agree."""
import json, os, re, sys, time
from . import native, mirdump
from .sem_kit import SemKit
from .interp import EnumV, VecV, Ref, SV, SB, Panic, Unsupported, StepLimit
from .strmodel import StrSlice
from .treemodel import NodeV, LeafV

REPO = mirdump.REPO


def corpus():
    out = []
    p = os.path.join(REPO, "crates/oq3_semantics/tests/from_string_tests.rs")
    txt = open(p, encoding="utf-8").read()
    for m in re.finditer(r'r#*"(.*?)"#*\s*;', txt, flags=re.S):
        out.append(("from_string_tests", m.group(1)))
    root = os.path.join(REPO, "crates/pipeline-tests/tests/snippets")
    for d, _, files in os.walk(root):
        for fn in sorted(files):
            if fn.endswith(".qasm"):
                out.append((os.path.relpath(os.path.join(d, fn), root), open(os.path.join(d, fn), encoding="utf-8").read()))
    return out


def structs(prog):
    names = set(); tuples = set()
    for root, _, files in os.walk(os.path.join(REPO, "crates")):
        if "/target" in root:
            continue
        for fn in files:
            if fn.endswith(".rs"):
                t = open(os.path.join(root, fn), encoding="utf-8").read()
                for m in re.finditer(r"\bstruct\s+([A-Z][A-Za-z0-9_]*)\s*(\(|\{|<|;)", t):
                    names.add(m.group(1))
                    if m.group(2) == "(":
                        tuples.add(m.group(1))
    return names, tuples


def flatten_native(s, struct_names):
    toks = re.findall(r'"(?:[^"\\]|\\.)*"|[A-Za-z_][A-Za-z0-9_]*|-?\d+(?:\.\d+)?(?:e-?\d+)?|[{}()\[\]:,]', s)
    out = []
    i = 0
    while i < len(toks):
        t = toks[i]
        nxt = toks[i + 1] if i + 1 < len(toks) else ""
        if t in "{}()[],:":
            i += 1; continue
        if re.match(r"^[a-z_][a-z0-9_]*$", t) and nxt == ":":
            i += 1; continue                      # field name
        if t in struct_names[0] and nxt == "{":
            i += 1; continue                      # struct literal `Name { .. }`
        if t in struct_names[1] and nxt == "(" and not (i + 2 < len(toks) and toks[i + 2] == t):
            i += 1; continue                      # tuple struct `SymbolId(7)`
        out.append(t)
        i += 1
    return out


def flatten_value(kit, v, out, struct_names):
    while isinstance(v, Ref):
        v = v.get()
    if isinstance(v, EnumV):
        vs = kit.prog.enums[v.ty][0]
        name = vs[v.idx]
        # native prints `Variant(Struct { .. })`; the struct name was dropped on the native side only when it is a struct
        # name followed by a brace; the variant is kept unless it is itself such a struct literal position
        out.append(name)
        for x in v.fields:
            flatten_value(kit, x, out, struct_names)
    elif isinstance(v, VecV):
        for x in v.items:
            flatten_value(kit, x, out, struct_names)
    elif isinstance(v, list):
        for x in v:
            flatten_value(kit, x, out, struct_names)
    elif isinstance(v, bool):
        out.append("true" if v else "false")
    elif isinstance(v, int):
        out.append(str(v))
    elif isinstance(v, float):
        out.append(repr(v))
    elif isinstance(v, (StrSlice, str)):
        s = v if isinstance(v, str) else "".join(chr(c) if isinstance(c, int) else "?" for c in v.chars())
        out.append(json.dumps(s, ensure_ascii=False))
    elif isinstance(v, (NodeV, LeafV)):
        out.append("<node>")
    elif v == () or v is None:
        pass
    else:
        out.append("<" + type(v).__name__ + ">")


def tokens_of(text):
    o = native.run_one("lexed " + native.hexs(text), "dev")
    if native.failed(o) or o.get("errors"):
        return None
    return list(zip(o["kinds"], o["texts"]))


def engine_run(kit, ex, toks):
    from .treemodel import Source
    K = kit.K
    src = Source(kit)
    # feed the exact token table (trivia included): items are joint, whitespace comes as its own tokens
    for k, t in toks:
        src.items.append((k, [ord(c) for c in t], True))
    root = src.build(ex)
    if src.errors:
        return {"syntax_errors": True}
    ctx, errs = kit.analyze(ex, root)
    return {"syntax_errors": False, "program": ctx[0], "errors": errs[1], "ctx": ctx}


def compare(kit, struct_names, res, nat):
    if nat.get("syntax_errors") != res.get("syntax_errors"):
        return f"syntax error flag: native {nat.get('syntax_errors')} engine {res.get('syntax_errors')}"
    if res["syntax_errors"]:
        return None
    a = flatten_native(nat["program"], struct_names)
    b = []
    flatten_value(kit, res["program"], b, struct_names)
    # fieldless enums are ints on the engine side
    def same(x, y):
        if x == y:
            return True
        if re.match(r"^-?\d+$", y) and re.match(r"^[A-Z]", x):
            for en, (vs, hasf, discs) in kit.prog.enums.items():
                if x in vs and not any(hasf):
                    d = discs[vs.index(x)] if discs else vs.index(x)
                    if d == int(y):
                        return True
        xs, ys = x.strip('"'), y.strip('"')
        if re.match(r"^-?\d+(\.\d*)?(e-?\d+)?$", xs) or "<" in ys:
            try:
                return float(xs) == float(ys)
            except ValueError:
                return "<" in ys        # float values are declined: the engine carries an opaque float
        return False
    if len(a) != len(b) or not all(same(x, y) for x, y in zip(a, b)):
        k = next((i for i, (x, y) in enumerate(zip(a, b)) if not same(x, y)), min(len(a), len(b)))
        return f"graphs differ at token {k}: native ...{a[max(0,k-4):k+4]} engine ...{b[max(0,k-4):k+4]}"
    ne = [e[0].split("(")[0].split(" ")[0] for e in nat["semantic_errors"]]
    ee = []
    for e in res["errors"].items:
        kind = e[0] if isinstance(e, list) else e
        while isinstance(kind, Ref):
            kind = kind.get()
        ee.append(kit.prog.enums[kind.ty][0][kind.idx] if isinstance(kind, EnumV) else kit.prog.enums["SemanticErrorKind"][0][kind])
    if ne != ee:
        return f"diagnostic kinds differ: native {ne} engine {ee}"
    return None


def run(limit=None, verbose=False, only=None):
    kit = SemKit()
    ex = kit.new_exec(max_steps=5000000)
    sn = structs(kit.prog)
    stats = {"agree": 0, "engine_unsupported": 0, "differ": 0, "skipped": 0, "both_panic": 0, "panic_mismatch": 0}
    problems = []
    for name, text in corpus()[:limit]:
        if only and only not in name and only not in text:
            continue
        toks = tokens_of(text)
        if toks is None or "include" in text and "stdgates" not in text:
            stats["skipped"] += 1; continue
        nat = native.run_one("semantic " + native.hexs(text), "dev")
        ex.reset([])
        try:
            res = engine_run(kit, ex, toks)
        except (Unsupported, AttributeError, KeyError, IndexError, TypeError, ValueError, AssertionError) as e:
            if not isinstance(e, Unsupported):
                import traceback
                tb = traceback.extract_tb(e.__traceback__)[-1]
                e = Unsupported(f"engine error {type(e).__name__}: {e} at {tb.filename.split('/')[-1]}:{tb.lineno}")
                e.stack = list(ex.stack)
            stats["engine_unsupported"] += 1
            problems.append((name, "unsupported: " + str(e)[:150] + " @ " + str([s.split("::")[-1] for s in (getattr(e, "stack", None) or [])][-3:])))
            continue
        except RecursionError:
            stats["engine_unsupported"] += 1; problems.append((name, "python recursion")); continue
        except (Panic, StepLimit) as e:
            if "panic" in nat:
                stats["both_panic"] += 1
            else:
                stats["panic_mismatch"] += 1
                problems.append((name, "engine panics, native does not: " + str(e)[:120] + " @ " + str([s.split("::")[-1] for s in (getattr(e, "stack", None) or [])][-3:])))
            continue
        if "panic" in nat:
            stats["panic_mismatch"] += 1
            problems.append((name, "native panics, engine does not: " + str(nat["panic"])[:100]))
            continue
        d = compare(kit, sn, res, nat)
        if d:
            stats["differ"] += 1; problems.append((name, d[:400]))
        else:
            stats["agree"] += 1
    return stats, problems


if __name__ == "__main__":
    t0 = time.time()
    stats, problems = run(only=sys.argv[1] if len(sys.argv) > 1 else None)
    print(stats, round(time.time() - t0, 1), "s")
    seen = set()
    for n, p in problems:
        key = p[:60]
        if key in seen:
            continue
        seen.add(key)
        print(" -", n[:40], "|", p[:330])
