"""C05 part (b): the hand-written typed accessors return the right constituents in the right roles (stage 2).

Small programs are parsed by the real parser into the abstract tree; the hand-written accessors of
oq3_syntax::ast::{node_ext, expr_ext, type_ext} are then executed from MIR on the node in question and the syntax node each
returns is compared, by its text span, with the constituent the source has in that role.  Constituents are atoms whose token
kind is a solver choice (identifier, integer, float, bit string, boolean), so every `Expr::cast` arm the accessors go through
is exercised; roles: if condition / then / else in all block / single-statement combinations, while condition / body, for
body, range start / step / stop (2 and 3 components), binary lhs / rhs / operator for every operator spelling, prefix
operator, index base / index, indexed-identifier name, assignment target / value, gate-call name, call name, gate angle
parameters vs qubit parameters, literal kind, time unit, scalar type kind, file path, version.
"""
import os, re, json, collections
import z3
from . import explore, semh, skel
from .interp import SV, SB, EnumV, VecV, Ref, Panic, Unsupported, Violation
from .treemodel import NodeV, LeafV

ATOMS = [("IDENT", "a"), ("INT_NUMBER", "7"), ("FLOAT_NUMBER", "1.5"), ("BIT_STRING", '"01"'), ("TRUE_KW", "true")]

# case: (name, source words with constituents `<k>` (an atom chosen by the solver) , node kind to query, [(accessor type, method, expected role -> constituent index or (first,last) word span or None)])
CASES = [
    ("if-block-block", "if ( <0> ) { <1> ; } else { <2> ; }", "IF_STMT", [("IfStmt", "condition", 0), ("IfStmt", "true_body_block_or_stmt", ("{1", "}1")), ("IfStmt", "false_body_block_or_stmt", ("{2", "}2"))]),
    ("if-single-single", "if ( <0> ) <1> ; else <2> ;", "IF_STMT", [("IfStmt", "condition", 0), ("IfStmt", "true_body_block_or_stmt", (1, ";1")), ("IfStmt", "false_body_block_or_stmt", (2, ";2"))]),
    ("if-single-block", "if ( <0> ) <1> ; else { <2> ; }", "IF_STMT", [("IfStmt", "condition", 0), ("IfStmt", "true_body_block_or_stmt", (1, ";1")), ("IfStmt", "false_body_block_or_stmt", ("{1", "}1"))]),
    ("if-block-single", "if ( <0> ) { <1> ; } else <2> ;", "IF_STMT", [("IfStmt", "condition", 0), ("IfStmt", "true_body_block_or_stmt", ("{1", "}1")), ("IfStmt", "false_body_block_or_stmt", (2, ";2"))]),
    ("if-single-none", "if ( <0> ) <1> ;", "IF_STMT", [("IfStmt", "condition", 0), ("IfStmt", "true_body_block_or_stmt", (1, ";1")), ("IfStmt", "false_body_block_or_stmt", None)]),
    ("if-block-none", "if ( <0> ) { <1> ; }", "IF_STMT", [("IfStmt", "condition", 0), ("IfStmt", "true_body_block_or_stmt", ("{1", "}1")), ("IfStmt", "false_body_block_or_stmt", None)]),
    ("while-block", "while ( <0> ) { <1> ; }", "WHILE_STMT", [("WhileStmt", "condition", 0), ("WhileStmt", "block_or_stmt", ("{1", "}1"))]),
    ("while-single", "while ( <0> ) <1> ;", "WHILE_STMT", [("WhileStmt", "condition", 0), ("WhileStmt", "block_or_stmt", (1, ";1"))]),
    ("for-block", "for int i in [ <0> : <1> ] { <2> ; }", "FOR_STMT", [("ForStmt", "block_or_stmt", ("{1", "}1"))]),
    ("for-single", "for int i in [ <0> : <1> ] <2> ;", "FOR_STMT", [("ForStmt", "block_or_stmt", (2, ";1"))]),
    ("range2", "for int i in [ <0> : <1> ] { }", "RANGE_EXPR", [("RangeExpr", "start_step_stop", (0, None, 1))]),
    ("range3", "for int i in [ <0> : <1> : <2> ] { }", "RANGE_EXPR", [("RangeExpr", "start_step_stop", (0, 1, 2))]),
    # generated accessors (oq3_syntax::ast::generated::nodes) of the same roles
    ("range3-generated", "for int i in [ <0> : <1> : <2> ] { }", "RANGE_EXPR", [("RangeExpr", "thestart", 0), ("RangeExpr", "step", 1), ("RangeExpr", "stop", 2)]),
    ("gate-def-generated", "gate g ( s , t ) u , v , w { }", "GATE", [("Gate", "qubit_args", ("within", "u", "w", "t"))]),
    ("while-generated", "while ( <0> ) { <1> ; }", "WHILE_STMT", [("WhileStmt", "loop_body", ("{1", "}1"))]),
    ("assign-from-indexed-generated", "x = y [ <0> ] ;", "ASSIGNMENT_STMT", [("AssignmentStmt", "indexed_identifier", None)]),
    ("assign", "x = <0> ;", "ASSIGNMENT_STMT", [("AssignmentStmt", "identifier", ("x", "x")), ("AssignmentStmt", "rhs", 0)]),
    # an indexed target: there is no plain-identifier target, whatever the value is (an identifier value must not be taken for it)
    ("assign-indexed", "x [ <0> ] = <1> ;", "ASSIGNMENT_STMT", [("AssignmentStmt", "rhs", 1), ("AssignmentStmt", "identifier", None), ("AssignmentStmt", "indexed_identifier", ("x", "]1"))]),
    ("assign-from-indexed", "x = y [ <0> ] ;", "ASSIGNMENT_STMT", [("AssignmentStmt", "identifier", ("x", "x")), ("AssignmentStmt", "rhs", ("y", "]1"))]),
    ("indexed-identifier", "x [ <0> ] = <1> ;", "INDEXED_IDENTIFIER", [("IndexedIdentifier", "identifier", ("x", "x"))]),
    ("gatecall", "g ( <0> ) q ;", "GATE_CALL_EXPR", [("GateCallExpr", "identifier", ("g", "g"))]),
    ("call", "f ( <0> , <1> ) ;", "CALL_EXPR", [("CallExpr", "identifier", ("f", "f"))]),
    # postfix operators nest to the left: the OUTER index applies to the inner indexed expression
    ("double-index-call", "f ( <0> ) [ <1> ] [ <2> ] ;", "INDEX_EXPR", [("shape", ["INDEX_EXPR", "INDEX_EXPR", "CALL_EXPR"], None)]),
    ("double-index-paren", "( <0> ) [ <1> ] [ <2> ] ;", "INDEX_EXPR", [("shape", ["INDEX_EXPR", "INDEX_EXPR", "PAREN_EXPR"], None)]),
    ("double-index-cast", "int ( <0> ) [ <1> ] [ <2> ] ;", "INDEX_EXPR", [("shape", ["INDEX_EXPR", "INDEX_EXPR", "CAST_EXPRESSION"], None)]),
    # postfix binds tighter than a unary operator: the operand of `-` / `!` is the whole indexed / called expression
    ("unary-index", "- x [ <0> ] ;", "EXPR_STMT", [("shape", ["EXPR_STMT", "PREFIX_EXPR"], None)]),
    ("unary-call", "- f ( <0> ) ;", "EXPR_STMT", [("shape", ["EXPR_STMT", "PREFIX_EXPR", "CALL_EXPR"], None)]),
    ("not-call", "! f ( <0> ) ;", "EXPR_STMT", [("shape", ["EXPR_STMT", "PREFIX_EXPR", "CALL_EXPR"], None)]),
    ("unary-index-in-binary", "- x [ <0> ] * y ;", "EXPR_STMT", [("shape", ["EXPR_STMT", "BIN_EXPR", "PREFIX_EXPR"], None)]),
    ("call-of-index", "f ( <0> ) [ <1> ] ;", "INDEX_EXPR", [("shape", ["INDEX_EXPR", "CALL_EXPR"], None)]),
    ("gate-def", "gate g ( s , t ) u , v , w { }", "GATE", [("Gate", "angle_params", ("within", "s", "t", "u")), ("Gate", "qubit_params", ("within", "u", "w", "t"))]),
    ("gate-def-noparams", "gate g u , v { }", "GATE", [("Gate", "angle_params", None), ("Gate", "qubit_params", ("within", "u", "v", "g"))]),
]
BINOPS = {"+": "ArithOp(Add)", "-": "ArithOp(Sub)", "*": "ArithOp(Mul)", "/": "ArithOp(Div)", "%": "ArithOp(Rem)", "& &": "LogicOp(And)", "| |": "LogicOp(Or)",
          "= =": "CmpOp(Eq(negated: False))", "! =": "CmpOp(Eq(negated: True))", "<": "CmpOp(Ord(ordering: Less, strict: True))", ">": "CmpOp(Ord(ordering: Greater, strict: True))",
          "< =": "CmpOp(Ord(ordering: Less, strict: False))", "> =": "CmpOp(Ord(ordering: Greater, strict: False))", "* *": "PowerOp", "+ +": "ConcatenationOp",
          "&": "ArithOp(BitAnd)", "|": "ArithOp(BitOr)", "^": "ArithOp(BitXor)", "< <": "ArithOp(Shl)", "> >": "ArithOp(Shr)"}


class H(semh.Base):
    def label(self):
        return self.task[0]

    def site(self, outcome, detail):
        s_ = re.sub(r"\(?\b\d+\.\.\d+\)?", "N..M", semh.Base.site(self, outcome, detail))      # character positions depend on the atoms chosen
        s_ = re.sub(r"char \d+", "char N", s_)
        return s_[:220] + " @" + self.task[0].split(":")[0]

    def run(self, ex):
        fam = self.fam; kit = fam.kit
        self.symvars = {}
        name, text, nodekind, checks = self.task
        toks = []; wpos = []      # word -> token index
        constituents = {}
        counts = collections.Counter()
        marks = {}
        for w in text.split():
            m = re.match(r"^<(\d)>$", w)
            if m:
                kn, t = ex.choose([((kn, t), z3.BoolVal(True)) for kn, t in ATOMS])
                constituents[int(m.group(1))] = len(toks)
                toks.append((kn, t, False))
                continue
            joint = w.endswith("~") and len(w) > 1
            w_ = w[:-1] if joint else w
            if w_ in "{};]":
                counts[w_] += 1
                marks[w_ + str(counts[w_])] = len(toks)
            elif re.match(r"^[a-z]$", w_):
                marks[w_] = len(toks)
            toks.append((semh.word_kind(fam, w_), w_, joint))
        self.toks = toks
        src = kit.source()
        starts = []; pos = 0
        for kn, t, joint in toks:
            starts.append(pos)
            src.tok(kn, t, joint)
            pos += len(t) + (0 if joint else 1)
        root = src.build(ex)
        if src.errors:
            raise Unsupported("the role program does not parse cleanly: " + self.render({}))
        ends = [starts[i] + len(toks[i][1]) for i in range(len(toks))]

        def span_of(role):
            if isinstance(role, tuple) and role[0] == "within":
                lo = starts[marks[role[1]]]; hi = ends[marks[role[2]]]; other = starts[marks[role[3]]]
                return ("within", lo, hi, other)
            if isinstance(role, int):
                i = constituents[role]
                return (starts[i], ends[i])
            a, b = role
            ia = constituents[a] if isinstance(a, int) else marks[a]
            ib = constituents[b] if isinstance(b, int) else marks[b]
            return (starts[ia], ends[ib])
        node = find(root, kit.K[nodekind])
        if node is None:
            raise Violation(f"`{name}`: the tree has no {nodekind} node")
        for ty, method, role in checks:
            if ty == "shape":
                chain = []; cur = node
                while isinstance(cur, NodeV) and len(chain) < len(method):
                    chain.append(kit.names[cur.kind])
                    cur = next((c_ for c_ in cur.children if isinstance(c_, NodeV)), None)
                ex.obligations += 1
                if chain != method:
                    raise Violation(f"`{name}`: the expression nests as {chain} (outermost first), the postfix operators of the source nest as {method}")
                # each INDEX_EXPR holds exactly one index operator
                cur = node
                while isinstance(cur, NodeV) and kit.names[cur.kind] == "INDEX_EXPR":
                    nops = sum(1 for c_ in cur.children if isinstance(c_, NodeV) and kit.names[c_.kind] == "INDEX_OPERATOR")
                    if nops != 1:
                        raise Violation(f"`{name}`: an INDEX_EXPR node holds {nops} index operators")
                    cur = next((c_ for c_ in cur.children if isinstance(c_, NodeV)), None)
                continue
            f = globals()["method"](kit, ty, method)
            if f is None:
                raise Unsupported(f"accessor {ty}::{method} not found in the MIR")
            r = ex.run(f, [Ref([[node]], 0)])
            ex.obligations += 1
            if method == "start_step_stop":
                parts = r if isinstance(r, list) else list(r)
                for nm, got, want in zip(("start", "step", "stop"), parts, role):
                    self.expect(name, f"{ty}::{method} ({nm})", got, None if want is None else span_of(want))
            else:
                self.expect(name, f"{ty}::{method}", r, None if role is None else span_of(role))
        return "roles"

    def expect(self, name, what, got, want):
        n = first_node(got)
        if want is None:
            if n is not None:
                raise Violation(f"`{name}`: {what} returns a node ({n.clo}..{n.chi}) where the source has no such constituent")
            return
        if n is None:
            raise Violation(f"`{name}`: {what} returns nothing, the source has the constituent at chars {want[-3] if want[0] == 'within' else want[0]}..")
        if want[0] == "within":
            _, lo, hi, other = want
            if not (n.clo <= lo and hi <= n.chi) or (n.clo <= other < n.chi):
                raise Violation(f"`{name}`: {what} returns the node at chars {n.clo}..{n.chi}; the list in that role spans {lo}..{hi} (and must not reach char {other})")
            return
        if (n.clo, n.chi) != want:
            raise Violation(f"`{name}`: {what} returns the node at chars {n.clo}..{n.chi}, the constituent in that role is at {want[0]}..{want[1]}")


def method(kit, ty, name):
    """the accessor of oq3_syntax's ast type `ty` (asg.rs has types of the same names)"""
    cands = [f for f, _file in kit.prog.methods_all.get((ty, None, name), []) if getattr(f, "crate", None) == "oq3_syntax"]
    if len(cands) != 1:
        f = kit.prog.methods.get((ty, None, name))
        if f is not None and getattr(f, "crate", None) == "oq3_syntax":
            return f
        return None
    return cands[0]


def find(n, kind):
    if isinstance(n, NodeV):
        if n.kind == kind:
            return n
        for c in n.children:
            r = find(c, kind)
            if r is not None:
                return r
    return None


def first_node(v):
    """the syntax node inside an accessor's result (Option / enum / newtype wrappers), None for Option::None"""
    while isinstance(v, Ref):
        v = v.get()
    if isinstance(v, (NodeV, LeafV)):
        return v
    if isinstance(v, EnumV):
        if v.ty == "Option" and v.idx == 0:
            return None
        for f in v.fields:
            r = first_node(f)
            if r is not None:
                return r
        return None
    if isinstance(v, (list, tuple)):
        for f in v:
            r = first_node(f)
            if r is not None:
                return r
    return None


class HOp(H):
    """BinExpr::{lhs, rhs, op_kind}, PrefixExpr::op_kind for every operator spelling"""
    def run(self, ex):
        fam = self.fam; kit = fam.kit
        self.symvars = {}
        name, op, want = self.task
        words = ["x"] + [w + "~" for w in op.split()[:-1]] + [op.split()[-1]] + ["y", ";"] if name.startswith("bin") else [op, "y", ";"]
        toks = []
        for w in words:
            joint = w.endswith("~") and len(w) > 1
            w_ = w[:-1] if joint else w
            toks.append((semh.word_kind(fam, w_), w_, joint))
        self.toks = toks
        src = kit.source()
        for kn, t, joint in toks:
            src.tok(kn, t, joint)
        root = src.build(ex)
        if src.errors:
            return "rejected-by-parser"            # C04's subject
        if name.startswith("bin"):
            node = find(root, kit.K["BIN_EXPR"])
            if node is None:
                raise Violation(f"`{self.label()}`: `x {op} y` has no BIN_EXPR node")
            lhs = first_node(ex.run(method(kit, "BinExpr", "lhs"), [Ref([[node]], 0)]))
            rhs = first_node(ex.run(method(kit, "BinExpr", "rhs"), [Ref([[node]], 0)]))
            if lhs is None or rhs is None or not (lhs.clo == 0 and rhs.chi > rhs.clo > lhs.chi):
                raise Violation(f"`{self.label()}`: BinExpr::lhs / rhs of `x {op} y` are {lhs and (lhs.clo, lhs.chi)} / {rhs and (rhs.clo, rhs.chi)}")
            k = ex.run(method(kit, "BinExpr", "op_kind"), [Ref([[node]], 0)])
        else:
            node = find(root, kit.K["PREFIX_EXPR"])
            if node is None:
                raise Violation(f"`{self.label()}`: `{op} y` has no PREFIX_EXPR node")
            k = ex.run(method(kit, "PrefixExpr", "op_kind"), [Ref([[node]], 0)])
        ex.obligations += 1
        got = opname(kit, k, "Option<BinaryOp>" if name.startswith("bin") else "Option<UnaryOp>")
        if got != want:
            raise Violation(f"`{self.label()}`: op_kind of `{op}` is {got}, expected {want}")
        return "operator"


_DEC = {}


def opname(kit, v, ty):
    from . import asgview
    if "d" not in _DEC:
        _DEC["d"] = asgview.Decoder(kit, asgview.Defs(src=["crates/oq3_syntax/src/ast/operators.rs"]))
    r = _DEC["d"].decode(v, ty)
    return None if r is None else asgview.show(r)


def run_roles(ctx, res):
    tasks = list(CASES)
    fails, counts, on_result = semh.collector(res, label_of=lambda t: t[0])
    st, errs = explore.explore_many(semh.famfactory(ctx.known, ctx.seed, H), tasks, workers=min(ctx.workers, len(tasks)), max_paths=5000, on_result=on_result, log=ctx.log)
    res.merge_stats(st)
    otasks = [("bin:" + op, op, want) for op, want in BINOPS.items()] + [("un:-", "-", "Neg"), ("un:!", "!", "LogicNot"), ("un:~", "~", "Not")]
    st2, errs2 = explore.explore_many(semh.famfactory(ctx.known, ctx.seed, HOp), otasks, workers=min(ctx.workers, len(otasks)), max_paths=100, on_result=on_result, log=ctx.log)
    res.merge_stats(st2)
    ctx.log(f"accessor roles: {st.get('paths', 0)} + {st2.get('paths', 0)} paths over {len(tasks)} role programs and {len(otasks)} operators: {dict(counts)} violation={st.get('violation', 0) + st2.get('violation', 0)} unsupported={st.get('unsupported', 0) + st2.get('unsupported', 0)}")
    import hashlib
    for site, info in fails.items():
        r0 = info["ex"][0]
        if r0[1] in ("unsupported", "stuck", "panic"):
            res.inconclusive.append(f"{r0[1]} ({info['count']} paths): {site[:240]} e.g. `{r0[3]}`")
            continue
        kid = next((k["id"] for k in ctx.known if k.get("site") and re.search(k["site"], site)), None)
        if kid:
            res.known_hits.append(f"{kid}: {[k for k in ctx.known if k['id'] == kid][0].get('what', '')} (e.g. `{r0[3]}`)")
            continue
        what = {"site": site, "paths": info["count"], "program": r0[3], "detail": r0[5]}
        rp = os.path.join(ctx.replay_dir, "roles_" + hashlib.sha1(site.encode()).hexdigest()[:10] + ".json")
        json.dump({"property": "C05", "program": r0[3], "what": what}, open(rp, "w"), indent=1)
        res.violations.append({"what": json.dumps(what), "replay": rp})
    res.functions_encoded += ["oq3_syntax::ast::node_ext::{IfStmt::{condition, true_body_block_or_stmt, false_body_block_or_stmt}, WhileStmt::{condition, block_or_stmt}, ForStmt::block_or_stmt, AssignmentStmt::identifier}",
                              "oq3_syntax::ast::expr_ext::{BinExpr::{lhs, rhs, op_kind, op_details}, PrefixExpr::op_kind, RangeExpr::start_step_stop, IndexExpr::base, IndexedIdentifier::identifier, AssignmentStmt::rhs, GateCallExpr::identifier, CallExpr::identifier, Gate::{angle_params, qubit_params}}"]
    res.bounds["accessor_roles"] = f"{len(tasks)} role programs x 5 atom kinds per constituent, {len(otasks)} operator spellings"
    res.assumptions += ["part (b): a violated role is reported from the engine's execution of the accessor's MIR on the tree the real parser built; it is not re-run natively (the accessors have no observable other than the node they return; C06 observes the same roles through the analyser and is confirmed natively)"]
