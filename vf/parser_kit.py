"""Shared pieces of the parser-level harnesses (C01, C02, C04, C05, C12, C16, C17)."""
import os, re, collections
import z3
from . import mirdump
from .interp import (Program, Exec, SV, SB, EnumV, VecV, Ref, PyFn, UNIT, Panic, Unsupported, Violation,
                     StepLimit)
from .models import Models

PUNCT_CHARS = {}


class ParserKit:
    """loads the MIR of oq3_parser and derives the token alphabet and spelling tables from it"""

    def __init__(self, extra_crates=()):
        self.mirfiles = [mirdump.dump("oq3_parser")] + [mirdump.dump(c) for c in extra_crates]
        self.prog = Program(self.mirfiles, mirdump.REPO)
        self.models = Models()
        vs, hasf, discs = self.prog.enums["SyntaxKind"]
        self.K = {n: (discs[i] if discs else i) for i, n in enumerate(vs)}
        self.names = {v: k for k, v in self.K.items()}
        self._derive_alphabet()

    # ---- alphabet = every SyntaxKind the token table can hold (minus trivia), read from the MIR
    def _fn_text(self, suffix):
        for mf in self.mirfiles[:1]:
            txt = open(mf, encoding="utf-8").read()
            m = re.search(r"^fn [^\n]*" + re.escape(suffix) + r"\(_1[^\n]*\{\n(.*?)^\}", txt, flags=re.S | re.M)
            if m:
                return m.group(1)
        raise RuntimeError("function not found in MIR: " + suffix)

    def _derive_alphabet(self):
        kinds = set()
        self.keyword_text = {}
        for fn in ("inner_extend_token", "extend_literal_func"):
            for m in re.finditer(r"SyntaxKind::([A-Z_0-9a-z]+)", self._fn_text(fn)):
                if m.group(1) in self.K:
                    kinds.add(m.group(1))
        ex = Exec(self.prog, self.models)
        for fn in ("from_keyword", "from_scalar_type"):
            body = self._fn_text(fn)
            for m in re.finditer(r'const "([^"]*)"', body):
                s = m.group(1)
                r = ex.call("syntax_kind_enum::SyntaxKind::" + fn, [s]) if False else self._call_kw(ex, fn, s)
                if r is not None:
                    kinds.add(self.names[r]); self.keyword_text[r] = s
        # punctuation spelling from from_char
        self.punct_text = {}
        body = self._fn_text("from_char")
        ex.reset([])
        for c in "!#$%&()*+,-./:;<=>?@[]^_{|}~`\\'\"":
            try:
                ex.reset([])
                r = self._call_method(ex, "from_char", [ord(c)])
            except Exception:
                r = None
            if isinstance(r, EnumV) and r.idx == 1:
                self.punct_text[int(r.fields[0])] = c
        kinds -= {"WHITESPACE", "COMMENT", "EOF"}
        # literal kinds whose LiteralKind variant the lexer never constructs cannot occur in a token table
        lexmir = open(mirdump.dump("oq3_lexer"), encoding="utf-8").read()
        for variant, kind in (("Byte", "BYTE"),):
            if not re.search(r"= LiteralKind::%s\b" % variant, lexmir):
                kinds.discard(kind)
        self.alphabet_names = sorted(kinds, key=lambda n: self.K[n])
        self.alphabet = [self.K[n] for n in self.alphabet_names]
        self.trivia = [self.K["WHITESPACE"], self.K["COMMENT"]]

    def _call_method(self, ex, meth, args):
        f = self.prog.methods.get(("SyntaxKind", None, meth))
        if f is None:
            raise RuntimeError("no method " + meth)
        return ex.run(f, args)

    def _call_kw(self, ex, fn, s):
        ex.reset([])
        r = self._call_method(ex, fn, [s])
        if isinstance(r, EnumV) and r.idx == 1:
            return int(r.fields[0])
        return None

    # ---- symbolic inputs
    def sym_tokens(self, n, prefix="k"):
        return [SV(z3.BitVec(f"{prefix}{i}", 16), 16) for i in range(n)]

    def constrain_alphabet(self, ex, toks, alphabet=None):
        alphabet = alphabet or self.alphabet
        cache = self.__dict__.setdefault("_acache", {})
        for t in toks:
            if isinstance(t, SV):
                key = (t.e.get_id(), tuple(alphabet))
                c = cache.get(key)
                if c is None:
                    c = (t.e, z3.Or([t.e == a for a in alphabet]))
                    cache[key] = c
                ex.add_constraint(c[1])

    def make_input(self, toks, joint_word):
        return [VecV(list(toks)), VecV([joint_word] if toks else [])]

    def parse(self, ex, toks, joint_word):
        inp = self.make_input(toks, joint_word)
        return ex.call("TopEntryPoint::parse", [Ref([0], 0), Ref([inp], 0)])

    # ---- output decoding
    def decode(self, out):
        """Output{event: Vec<u32>, error: Vec<String>} -> list of steps; kinds may be SV"""
        ev, errs = out[0].items, out[1].items
        res = []
        for e in ev:
            if isinstance(e, SV):
                low = z3.simplify(z3.Extract(15, 0, e.e))
                if not z3.is_bv_value(low):
                    raise Unsupported("event word with symbolic tag")
                low = low.as_long()
                kind = z3.simplify(z3.Extract(31, 16, e.e))
                kind = kind.as_long() if z3.is_bv_value(kind) else SV(kind, 16)
                if low & 1 == 0:
                    raise Unsupported("symbolic error index")
                tag = (low & 0xF0) >> 4
                if tag == 0:
                    res.append(("token", kind, (low & 0xFF00) >> 8))
                elif tag == 1:
                    res.append(("enter", kind))
                elif tag == 2:
                    res.append(("exit",))
                else:
                    res.append(("floatsplit", bool(low & 0xFF00)))
                continue
            if e & 1 == 0:
                res.append(("error", errs[e >> 1]))
                continue
            tag = (e & 0xF0) >> 4
            if tag == 0:
                res.append(("token", e >> 16, (e & 0xFF00) >> 8))
            elif tag == 1:
                res.append(("enter", e >> 16))
            elif tag == 2:
                res.append(("exit",))
            elif tag == 3:
                res.append(("floatsplit", bool(e & 0xFF00)))
            else:
                raise Panic("unreachable event tag")
        return res

    # ---- rendering a kind sequence as source text
    def kind_text(self, k):
        n = self.names.get(k, "?")
        if k in self.keyword_text:
            return self.keyword_text[k]
        if k in self.punct_text:
            return self.punct_text[k]
        return {"IDENT": "x", "HARDWAREIDENT": "$0", "INT_NUMBER": "1", "FLOAT_NUMBER": "1.5",
                "BIT_STRING": '"01"', "STRING": '"s"', "ANNOTATION": "@a\n", "PRAGMA": "pragma p\n",
                "ERROR": "`", "VERSION_STRING": "OPENQASM 3.0", "DIM_KW": "#dim", "BYTE": "b'a'",
                "WHITESPACE": " ", "COMMENT": "/*c*/"}.get(n)

    def render(self, kinds, joints):
        """source text whose non-trivia kinds are `kinds` with the requested jointness where a text can
        express it; returns text"""
        out = []
        for i, k in enumerate(kinds):
            t = self.kind_text(k)
            if t is None:
                return None
            out.append(t)
            if i + 1 < len(kinds):
                j = joints[i] if i < len(joints) else 0
                if not j:
                    if not t.endswith("\n"):
                        out.append(" ")
                else:
                    a, b = t[-1], (self.kind_text(kinds[i + 1]) or " ")[0]
                    wordy = lambda c: c.isalnum() or c in "_$"
                    if wordy(a) and wordy(b):
                        out.append(" ")
                    elif a == "/" and b in "/*":
                        out.append(" ")
                    elif a == "." and b.isdigit():
                        out.append(" ")
                    elif a.isdigit() and b == ".":
                        out.append(" ")
        return "".join(out)

    def model_tokens(self, model, n, prefix="k"):
        ks = []
        for i in range(n):
            v = model.get(f"{prefix}{i}")
            if v is None:
                v = self.K["IDENT"]
            ks.append(v)
        return ks
