"""C10 - literal values reach the semantic graph exactly (stage-1 part: the literal accessors on token TEXT).

The real IntNumber::{radix, split_into_parts, value_u128, suffix}, FloatNumber::split_into_parts, BitString::str,
QuoteOffsets::new and asg::BitStringLiteral::to_texpr are executed from MIR on symbolic token texts:
 (1) well-formed integer lexemes of every radix / prefix case / underscore placement (regex-constrained symbolic
     strings): value_u128() = Some(v) with v the SMT-defined value of the digit string, radix and parts as written;
 (2) ANY text the real lexer accepts as an INT_NUMBER without a lexical error (lexer run on symbolic chars first):
     value_u128() is Some - so the unwrap()s of the analyser are safe;
 (3) bit-string lexemes: str() is the text between the quotes and the graph width counts exactly its 0/1 digits;
 (4) float lexemes with and without unit-like suffix: split_into_parts partitions the text at the suffix.
Negation folding and the literal -> ASG arm need the AST boundary (stage 2).  Float rounding is declined.
"""
import json, os, hashlib, collections, re
import z3
from . import explore, native, strmodel, textmodels, rx, mirdump
from .interp import Program, Exec, SV, SB, EnumV, VecV, Ref, UNIT, Panic, Unsupported, Violation, StepLimit
from .models import Models
from .main import Result
from .lexcheck import lexeme_spec
from .strmodel import SymStr, StrSlice, LenV, span_len
from .textmodels import TokV, TR

DIG = rx.rng("0", "9")
HEXD = rx.alt(rx.rng("0", "9"), rx.rng("a", "f"), rx.rng("A", "F"))
BIND = rx.anyof("01")
OCTD = rx.rng("0", "7")
US = rx.ch("_")


def digits(d, n):
    """regexes for n-char digit strings with optional single underscores between digits"""
    return rx.seq(d, rx.star(rx.seq(rx.opt(US), d)))


INT_CLASSES = {
    # name: (prefix regex, digit class, radix, prefix length)
    "decimal": (rx.seq(), DIG, 10, 0),
    "binary": (rx.seq(rx.ch("0"), rx.anyof("bB")), BIND, 2, 2),
    "octal": (rx.seq(rx.ch("0"), rx.anyof("oO")), OCTD, 8, 2),
    "hex": (rx.seq(rx.ch("0"), rx.anyof("xX")), HEXD, 16, 2),
}


def oracle_value(chars, radix):
    """value of the digit characters (underscores skipped) as a 128-bit term - the definition, not the code"""
    val = z3.BitVecVal(0, 128)
    for c in chars:
        e = c.e if isinstance(c, SV) else z3.BitVecVal(c, 32)
        d = z3.ZeroExt(96, strmodel.digit_value(e))
        val = z3.If(e == ord("_"), val, val * radix + d)
    return val


class Family:
    def __init__(self, seed):
        self.seed = seed
        self.prog = Program([mirdump.dump("oq3_lexer"), mirdump.dump("oq3_parser"), mirdump.dump("oq3_syntax"), mirdump.dump("oq3_semantics")], mirdump.REPO)
        self.models = Models()
        from . import stdmodels
        stdmodels.install(self.models, front=True)
        strmodel.install(self.models)
        strmodel.install_more(self.models)
        textmodels.install(self.models)
        self.ex = Exec(self.prog, self.models, max_steps=500000)
        self.ex.use_inc = False
        M = self.prog.methods
        self.f = {
            "radix": M.get(("IntNumber", None, "radix")), "value_u128": M.get(("IntNumber", None, "value_u128")),
            "int_parts": M.get(("IntNumber", None, "split_into_parts")), "int_suffix": M.get(("IntNumber", None, "suffix")),
            "float_parts": M.get(("FloatNumber", None, "split_into_parts")),
            "bit_str": M.get(("BitString", None, "str")),
            "cursor_new": M.get(("Cursor", None, "new")), "advance": M.get(("Cursor", None, "advance_token")),
            "bits_new": None, "bits_to_texpr": M.get(("BitStringLiteral", None, "to_texpr")),
        }
        for k, v in self.f.items():
            if v is None and k != "bits_new":
                raise RuntimeError(f"{k} not found in MIR")
        self.RADIX = self.prog.enums["Radix"]
        self.TK = self.prog.enums["TokenKind"][0]
        self.LK = self.prog.enums["LiteralKind"][0]
        self._cons = {}

    def harness(self, task):
        return LitHarness(self, task)

    def exec_for(self, h):
        return self.ex


class LitHarness:
    def __init__(self, fam, task):
        self.fam = fam; self.task = task

    def sym(self, ex, n, rgx, key):
        chars = [strmodel.fresh_char(f"c{i}") for i in range(n)]
        c = self.fam._cons.get(key)
        if c is None:
            c = z3.simplify(z3.And([rx.matches(rgx, chars)] + [strmodel.char_domain(x) for x in chars]))
            self.fam._cons[key] = c
        ex.add_constraint(c)
        return chars

    def tok(self, chars, lo=0, hi=None, start=0):
        s = SymStr(chars, "T")
        self.s = s
        t = TokV(0, StrSlice(s, lo, len(chars) if hi is None else hi), start)
        return Ref([[t]], 0)

    def slice_range(self, v):
        while isinstance(v, Ref):
            v = v.get()
        sl = strmodel.as_slice(v)
        return sl.lo, sl.hi, sl.s

    def run(self, ex):
        fam = self.fam; f = fam.f
        kind = self.task[0]
        if kind == "int":
            _, cname, n, suffix = self.task
            pre, dcls, radix, plen = INT_CLASSES[cname]
            body = rx.seq(pre, digits(dcls, n))
            rgx = body if not suffix else rx.seq(body, rx.lit(suffix))
            total = n + plen + len(suffix)
            chars = self.sym(ex, total, rgx, self.task)
            tref = self.tok(chars)
            r = ex.run(f["radix"], [tref])
            vs, hasf, discs = fam.RADIX
            ex.obligations += 1
            if r != radix:
                raise Violation(f"radix() = {r} for a {cname} literal")
            parts = ex.run(f["int_parts"], [tref])
            p0, p1, p2 = [self.slice_range(x) for x in parts]
            ex.obligations += 1
            okp = (p0[1] - p0[0] == plen) and (p0[0] == 0 or plen == 0) and (p1[0], p1[1]) == (plen, total - len(suffix)) and p1[2] is self.s and \
                (p2[1] - p2[0] == len(suffix)) and (not suffix or (p2[0] == total - len(suffix) and p2[2] is self.s))
            if not okp:
                raise Violation(f"split_into_parts does not partition the text into prefix/digits/suffix: {(p0[:2], p1[:2], p2[:2])}")
            v = ex.run(f["value_u128"], [tref])
            if v.idx != 1:
                raise Violation("value_u128() is None for a well-formed integer literal")
            got = v.fields[0]
            ge = got.e if isinstance(got, SV) else z3.BitVecVal(got, 128)
            ex.prove(ge == oracle_value(chars[plen:total - len(suffix)], radix), "value_u128() differs from the mathematical value of the digits")
            sfx = ex.run(f["int_suffix"], [tref])
            ex.obligations += 1
            if bool(suffix) != (sfx.idx == 1):
                raise Violation("suffix() presence differs from the text")
            return "int"
        if kind == "lexed_int":
            _, n = self.task
            chars = [strmodel.fresh_char(f"c{i}") for i in range(n)]
            for c in chars:
                ex.add_constraint(strmodel.char_domain(c))
            s = SymStr(chars, "T")
            self.s = s
            cur = ex.run(f["cursor_new"], [StrSlice(s, 0, n)])
            tok = ex.run(f["advance"], [Ref([cur], 0)])
            k = tok[0]
            if not isinstance(k, EnumV) or fam.TK[k.idx] != "Literal":
                return "other"
            lk = k.fields[0]
            if fam.LK[lk.idx] != "Int" or lk.fields[1] is True:
                return "other"
            j = [x for x in cur if isinstance(x, strmodel.CharsV)][0].i
            t = TokV(0, StrSlice(s, 0, j), 0)
            v = ex.run(f["value_u128"], [Ref([[t]], 0)])
            ex.obligations += 1
            if v.idx != 1:
                raise Violation("the lexer accepts this text as an integer literal without diagnostic, but value_u128() is None (the analyser unwraps it)")
            return "lexed_int"
        if kind == "bits":
            _, n, q = self.task
            rgx = rx.seq(rx.ch(q), digits(BIND, n), rx.ch(q))
            chars = self.sym(ex, n + 2, rgx, self.task)
            start = SV(z3.BitVec("start", 32), 32)
            ex.add_constraint(z3.ULT(start.e, 1 << 30))
            tref = self.tok(chars, start=start)
            r = ex.run(f["bit_str"], [tref])
            ex.obligations += 1
            if r.idx != 1:
                raise Violation("BitString::str() is None for a well-formed bit string")
            lo, hi, s = self.slice_range(r.fields[0])
            if (lo, hi) != (1, n + 1) or s is not self.s:
                raise Violation(f"BitString::str() returns chars [{lo},{hi}) instead of the text between the quotes")
            # width in the graph = number of 0/1 digits
            lit = [StrSlice(self.s, 1, n + 1)]
            te = ex.run(f["bits_to_texpr"], [lit])
            ty = self.find_type(te)
            width = ty.fields[0].fields[0]
            cnt = z3.BitVecVal(0, 64)
            for c in chars[1:n + 1]:
                cnt = cnt + z3.If(c.e == ord("_"), z3.BitVecVal(0, 64), z3.BitVecVal(1, 64))
            we = width.e if isinstance(width, SV) else z3.BitVecVal(width, 64)
            ex.prove(we == cnt, "bit-string width in the graph differs from the number of 0/1 digits")
            return "bits"
        if kind == "float":
            _, shape, suffix = self.task
            L = lexeme_spec()
            n, rgx = L.lexeme_classes()["float"][1][shape]
            rg = rgx if not suffix else rx.seq(rgx, rx.lit(suffix))
            chars = self.sym(ex, n + len(suffix), rg, self.task)
            tref = self.tok(chars)
            parts = ex.run(f["float_parts"], [tref])
            a, b = [self.slice_range(x) for x in parts]
            ex.obligations += 1
            if not ((a[0], a[1]) == (0, n) and a[2] is self.s and b[1] - b[0] == len(suffix) and (not suffix or b[0] == n)):
                raise Violation(f"FloatNumber::split_into_parts splits at {a[1]} instead of {n} (suffix {suffix!r})")
            return "float"
        raise ValueError(kind)

    def find_type(self, te):
        """the Type::BitArray value inside a TExpr"""
        TV = self.fam.prog.enums["Type"][0]
        stack = [te]
        while stack:
            v = stack.pop()
            while isinstance(v, Ref):
                v = v.get()
            if isinstance(v, EnumV):
                if v.ty == "Type" and TV[v.idx] == "BitArray":
                    return v
                stack += list(v.fields)
            elif isinstance(v, list):
                stack += v
        raise Unsupported("no BitArray type in the typed expression")

    def describe(self, ex, outcome, detail):
        if outcome == "ok":
            return ("ok", detail, ex.obligations)
        model = ex.model() or {}
        text = "".join(chr(c) if isinstance(c, int) else chr(model.get(c.e.decl().name(), 0x30)) for c in self.s.chars) if hasattr(self, "s") else ""
        cls = ""
        if self.task[0] == "lexed_int" and outcome == "violation":
            if re.search(r"[^\x00-\x7f]", text):
                cls = " [non-ASCII character in the literal's suffix position]"
            elif re.match(r"^0[BOX]", text):
                cls = " [upper-case base prefix]"
            elif re.match(r"^0b[0-9_]*[2-9]|^0o[0-9_]*[89]", text):
                cls = " [digit not valid in the literal's radix]"
        return ("fail", outcome, f"{outcome}|{self.task[0]}|{detail['msg']}{cls}", text, list(self.task))


def famfactory(seed):
    def f():
        return Family(seed)
    return f


def native_int_check(text):
    """lex + semantic analysis of `int x = <text>;` natively: (violated, msg)"""
    o = native.run_one("lexed " + native.hexs(text), "dev")
    if native.failed(o):
        return True, str(o)[:100]
    if o["errors"] or len(o["kinds"]) != 1:
        return False, "lexer reports an error / more than one token"
    s = native.run_one("semantic " + native.hexs(f"int[128] x = {text};"), "dev")
    if native.failed(s):
        return True, "semantic analysis of `int[128] x = " + text + ";`: " + str(s)[:160]
    # the value that reaches the graph against the mathematical value of the digits
    import re as _re
    m = _re.match(r"^0[xX]([0-9a-fA-F_]+)", text) or _re.match(r"^0[bB]([01_]+)", text) or _re.match(r"^0o([0-7_]+)", text) or _re.match(r"^([0-9][0-9_]*)", text)
    if m and not s.get("syntax_errors"):
        radix = 16 if text[:2] in ("0x", "0X") else 2 if text[:2] in ("0b", "0B") else 8 if text[:2] == "0o" else 10
        digits = m.group(1).replace("_", "")
        g = _re.search(r"IntLiteral \{ value: (\d+), sign: (true|false) \}", str(s.get("program", "")))
        if digits and g and int(g.group(1)) != int(digits, radix):
            return True, f"`int[128] x = {text};` stores the value {g.group(1)}, the digits denote {int(digits, radix)}"
    return False, ""


def run(ctx):
    res = Result()
    D = 3 if ctx.quick() else 4          # thorough: up to 7 digit characters (9 were measured at more than 80 minutes: single-task tails)
    tasks = []
    for cname in INT_CLASSES:
        for n in range(1, 2 * D):
            for sfx in ("", "q"):
                tasks.append(("int", cname, n, sfx))
    NL = 3 if ctx.quick() else 4
    for n in range(1, NL + 1):
        tasks.append(("lexed_int", n))
    for n in range(1, 2 * D):
        for q in ('"', "'"):
            tasks.append(("bits", n, q))
    L = lexeme_spec()
    for shape in range(len(L.lexeme_classes()["float"][1])):
        for sfx in ("", "q", "xy"):        # a FLOAT_NUMBER token never carries a unit (the lexer splits it off); other suffixes stay attached
            tasks.append(("float", shape, sfx))
    ctx.log(f"{len(tasks)} literal tasks")
    fails = collections.OrderedDict()
    counts = collections.Counter()

    def on_result(idx, task, recs, left, stats, err):
        if err:
            res.inconclusive.append(err[:500])
        if left:
            res.inconclusive.append(f"{task} not exhausted")
        if not err and not stats.get("paths"):
            res.inconclusive.append(f"vacuous task {task}")
        for r in recs:
            if r[0] == "ok":
                res.obligations += r[2]; counts[r[1]] += 1
            else:
                d = fails.setdefault(r[2], {"count": 0, "ex": []})
                d["count"] += 1
                if len(d["ex"]) < 4:
                    d["ex"].append(r)
    st, errs = explore.explore_many(famfactory(ctx.seed), tasks, workers=ctx.workers, on_result=on_result, log=ctx.log)
    res.merge_stats(st)
    ctx.log(f"{st.get('paths', 0)} paths: {dict(counts)} violation={st.get('violation', 0)} panic={st.get('panic', 0)} unsupported={st.get('unsupported', 0)} wall={st.get('wall', 0):.1f}s")
    known_by_id = {k["id"]: k for k in ctx.known}
    seen = set()
    for site, info in fails.items():
        r0 = info["ex"][0]
        if r0[1] == "unsupported":
            res.inconclusive.append(f"unsupported ({info['count']}): {site} e.g. {r0[3]!r}")
            continue
        kid = None
        for k in ctx.known:
            if re.search(k["site"], site):
                kid = k["id"]
        rep = None
        if r0[4][0] in ("lexed_int", "int"):
            for r in info["ex"]:
                bad, msg = native_int_check(r[3])
                if bad:
                    rep = (r[3], msg); break
            if rep is None:
                res.inconclusive.append(f"counterexample does not reproduce natively: {site} e.g. {r0[3]!r}")
                continue
            res.validated += 1
        else:
            rep = (r0[3], "not replayed natively (accessor needs a syntax tree)")
        if kid:
            if kid not in seen:
                seen.add(kid)
                res.known_hits.append(f"{kid}: {known_by_id[kid].get('what', '')} (e.g. `{rep[0]}`: {rep[1][:120]})")
            continue
        what = {"site": site, "paths": info["count"], "text": rep[0], "native": rep[1]}
        rp = os.path.join(ctx.replay_dir, "lit_" + hashlib.sha1(site.encode()).hexdigest()[:10] + ".json")
        json.dump({"property": "C10", "text": rep[0], "what": what}, open(rp, "w"), indent=1)
        res.violations.append({"what": json.dumps(what, ensure_ascii=False), "replay": rp})
        res.samples.append(what)
    res.samples.append({"task": "int hex, 5 digit chars incl. underscores, both prefix cases", "outcome": "value_u128 == SMT-defined value for every member of the class"})
    res.extra["paths_by_kind"] = dict(counts)
    res.functions_encoded += ["oq3_syntax::ast::token_ext::IntNumber::{radix, split_into_parts, value_u128, suffix}", "FloatNumber::split_into_parts", "BitString::str",
                              "IsString::{quote_offsets, text_range_between_quotes}", "QuoteOffsets::new", "Radix::prefix_len", "oq3_semantics::asg::BitStringLiteral::to_texpr",
                              "oq3_lexer::Cursor::advance_token (for the accepted-integer obligation)"]
    res.bounds.update({"digit_chars": 2 * D - 1, "lexer_accepted_text_chars": NL, "radices": list(INT_CLASSES), "float_shapes": len(L.lexeme_classes()["float"][1])})
    res.stubs += ["u128::from_str_radix: exact arithmetic model (digit values, radix check, leading '+', overflow)", "str::replace / char_indices / split_at / get / as_bytes (vf/strmodel.py)",
                  "text-size TextRange/TextSize arithmetic with its documented panics (vf/textmodels.py)", "AstToken::text/syntax and SyntaxToken::text_range on an abstract token (text, symbolic start offset)"]
    res.outside_claim += ["float values (rounding to the nearest double is std's dec2flt)", "integer literals with more digit characters than the bound (values near 2^64 / 2^128)",
                          "negation folding, unit mapping and the literal -> ASG arm (need the AST boundary)"]
    from . import c10_asg
    c10_asg.run_asg(ctx, res)
    res.exhaustive = not res.inconclusive
    return res


def replay(ctx, path):
    d = json.load(open(path))
    bad, msg = native_int_check(d["text"])
    print("violated: " + msg if bad else "holds")
    return 1 if bad else 0
