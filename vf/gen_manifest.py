"""writes /verif/MANIFEST.json from the table below (run: python3 -m vf.gen_manifest)"""
import json, os
ROOT = os.path.dirname(os.path.dirname(os.path.abspath(__file__)))

CHECKS = {
    "C01": dict(
        text="Bounded symbolic model checking of the real parser code: every token-kind sequence over the full token alphabet "
             "(kinds and joint bits are solver variables) is executed path by path through the MIR of oq3_parser; a path ends in "
             "'returns', 'panic' (incl. debug assertions, overflow checks, DropBomb) or 'stuck' (step/event budget). Within the "
             "stated token bound every value is covered by the solver; failures are replayed natively before being reported.",
        note="Trusted: rustc's MIR dump reflects the compiled code; the stubs for std/drop_bomb/limit listed in the evidence have "
             "the documented contracts; z3. Bounds: uncut sequences <= 2 (quick) / 3 (thorough) tokens, single constructs from a "
             "top-level loop head <= 3 / 4 tokens; every prefix of every depth-1 statement skeleton (quick); thorough: every prefix and every "
             "one-token substitution (token kind symbolic) of the depth-2 skeletons and one symbolic token inserted at every position of the "
             "depth-1 skeletons; the validation pass (oq3_syntax::validation::validate from MIR, run by both entry points) on 10 literal-postfix "
             "shapes. Longer inputs, deep nesting and rowan (tree building, Drop) are outside the claim.",
        technique="symbolic execution of rustc MIR (path enumeration) + z3 SMT feasibility/obligation queries, native replay",
        design="6/C01"),
}

MC = "symbolic execution of rustc MIR (path enumeration) + z3 SMT feasibility/obligation queries, native replay"
CHECKS.update({
    "C02": dict(
        text="Bounded symbolic model checking of the real code: raw token kinds (incl. whitespace/comments) are solver variables; "
             "LexedStr::to_input, the whole parser and LexedStr::intersperse_trivia (with Builder) are executed from MIR with a recording "
             "sink; on every path the Token steps are proved to tile the raw token table exactly once in order, composites to span exactly "
             "the raw tokens that spell them, and the tree to be a single SOURCE_FILE root.",
        note="Trusted: rowan's builder (concatenates token texts, derives ranges), MIR dump, stubs, z3. Token text is opaque. Bounds: "
             "<= 2 (quick) / 3 (thorough) raw tokens over the full alphabet, <= 4 / 5 over the composite-operator sub-alphabet.",
        technique=MC, design="6/C02"),
    "C04": dict(
        text="Every statement skeleton of the reference grammar (/verif/spec/grammar.py; terminals are token classes decided by the solver, "
             "operator slots cover all spellings, joint bits free) is executed through the real parser (MIR); obligation on every path: no "
             "Error event (incl. open-ended ranges, old-style registers without designator, identifier iterables, trailing commas in sets). Failures are replayed natively; parser gaps already known are listed in known_findings.json by solver-checked pattern.",
        note="Trusted: the skeleton grammar is a faithful excerpt of the OpenQASM 3 grammar; MIR dump, stubs, z3. Bounds: expression depth 1 "
             "(quick) / 2 (thorough), statements <= 16 / 28 tokens; identifier and literal texts are outside (C15).",
        technique=MC, design="6/C04"),
    "C05": dict(
        text="Part (a) precedence/associativity: expression skeletons with symbolic operator slots are parsed by the real parser (MIR); for "
             "every operator assignment the solver admits on a path (all 19x19 pairs, unary x binary, with call/index/paren/cast operands) "
             "the parser's nesting is compared with a reference precedence-climbing parser over the OpenQASM 3 table. Part (b): the hand-written "
             "typed accessors of oq3_syntax::ast (if condition / then / else in all block / single-statement combinations, while and for bodies, "
             "range start / step / stop, binary lhs / rhs / operator for every spelling, prefix operator, indexed-identifier name, assignment "
             "target / value with plain and indexed targets, gate-call and call names, gate angle vs qubit parameters) and the GENERATED accessors of the "
             "same roles (RangeExpr::thestart/step/stop, Gate::qubit_args, WhileStmt::loop_body, AssignmentStmt::indexed_identifier) are executed from MIR on the tree the real parser built "
             "and the node each returns is compared by text span with the constituent in that role; constituent atoms are solver choices.",
        note="Trusted: operator table in /verif/spec/grammar.py; rowan tree model (part b); MIR dump, stubs, z3. Bounds: <= 3 operators (quick) / 4 "
             "(thorough) per expression; 35 role programs x 5 atom kinds per constituent, 23 operator spellings. Part (b) violations are not re-run "
             "natively (the accessors' only observable is the node they return; C06 observes the same roles through the analyser).",
        technique=MC, design="6/C05"),
    "C10": dict(
        text="The literal accessors are executed from MIR on symbolic token texts: for every well-formed integer lexeme (4 radices, both prefix "
             "cases, underscores, optional suffix; regex-constrained symbolic strings) value_u128() is proved equal to the SMT-defined value of "
             "the digit string and radix/split_into_parts/suffix to match the text; for ANY text the real lexer accepts as an integer without "
             "diagnostic value_u128() must be Some; BitString::str() is the text between the quotes and the graph width counts its 0/1 digits; "
             "FloatNumber::split_into_parts partitions at the suffix. Literal -> graph arm (stage 2): `[-] <literal> [unit];` with symbolic digits in "
             "all four radices is parsed by the real parser and translated by expr_to_asg_texpr / literal_to_asg_texpr from MIR; proved: the "
             "graph literal has the source literal's class, exact u128 value, sign (a directly applied minus yields the negated literal), "
             "unit (6 units and im, with and without a blank), bit strings keep their bits and their bit count is the type's width.",
        note="Trusted: from_str_radix model (exact arithmetic), string and text-size models, abstract token (text + symbolic start offset), "
             "tree / map models, MIR dump, z3. Bounds: accessors <= 5 (quick) / 7 (thorough) digit characters; graph arm decimal <= 9 / 12, hex "
             "<= 4 / 8 digits, bit strings <= 8 / 10 bits; float rounding declined (float texts are compared, values are opaque).",
        technique=MC, design="6/C10"),
    "C11": dict(
        text="(a) one Cursor::advance_token followed by the real inner_extend_token, and LexedStr::new on whole strings, are executed from MIR "
             "on symbolic code points. Proved on every path: a token whose kind carries a malformation flag gets an error entry with its own "
             "index; and, independently of the lexer's flags, if the input starts with a malformed lexeme per the reference lexeme grammar "
             "(regex -> SMT, /verif/spec/lexemes.py: base prefix without digits, exponent without digits, unterminated string / block comment, "
             "identifier with forbidden character, malformed version header) the first token carries a diagnostic.",
        note="Trusted: MIR dump, string model and Unicode tables (read from the locked crate versions), z3. Bounds: tokens <= 4 (quick) / 6 "
             "(thorough) chars, whole strings <= 2 / 3 chars, version header prefix + 3 / 4 chars. Parts (b), (c): parse_text_check_lex / "
             "SourceFile::parse_check_lex and analyze_source::<SourceFile> with SourceTrait::have_syntax_errors are executed from MIR with the "
             "neighbouring stages as recording stubs (0-2 lexical errors; include trees <= 3/4 files, depth 3).",
        technique=MC, design="6/C11"),
    "C14": dict(
        text="One advance_token from an arbitrary string of n symbolic code points (the inductive step: the cursor carries no other state, "
             "which is asserted) and LexedStr::new on whole strings, executed from MIR. Proved on every path: at least one char consumed, "
             "token length = exact byte length of the consumed chars (so non-zero and on a char boundary), suffix_start <= len, table offsets "
             "strictly increasing char boundaries ending at |S|; no hidden state is read (MIR scan). Prefix-anchored whole strings (`//`, `/*`, "
             "`@a`, `pragma `, `#pragma `, `\"0`, `0x`, `1e`, `OPENQASM 3`, ... followed by 1 / 2 symbolic characters) reach the code that only runs "
             "deep inside a multi-character token (LexedStr::inner_extend_token's per-kind lengths).",
        note="Trusted: MIR dump, string model (byte lengths are exact linear forms over len_utf8), Unicode tables from the locked crates, std's "
             "Chars decoding, z3. Bounds: n <= 4 (quick) / 6 (thorough) chars per token step, whole strings <= 2 / 3 chars; every Unicode scalar value per position.",
        technique=MC, design="6/C14"),
    "C12": dict(
        text="(a) every StrStep::Error position is a raw-token start or the end of input; (b) a path with no Error event has no ERROR node and "
             "provably no ERROR token, proved on every path of the real to_input/parse/intersperse_trivia code with symbolic raw token kinds; "
             "(c) for `\"<n symbolic code points>\" ;` (STRING and BIT_STRING, every Unicode scalar value) oq3_syntax::validation with the real "
             "oq3_lexer::unescape runs from MIR and every diagnostic's range is proved to satisfy start <= end <= length with both ends on "
             "character boundaries (exact byte-length terms), also for unterminated literals (no panic); parser diagnostics: StrStep::Error goes "
             "through the REAL SyntaxTreeBuilder::error (MIR) for 11 erroneous shapes with a symbolic code point around the error position and "
             "the resulting SyntaxError ranges get the same obligations; (d) SemanticError::range is structurally node.text_range() in the MIR.",
        note="Trusted: rowan text ranges, MIR dump, stubs, z3. Raw-token starts are char boundaries by C14. Bounds: <= 2 / 3 raw tokens full "
             "alphabet, <= 3 / 4 over the error-recovery sub-alphabet; part (b) also on every one-token substitution of the depth-1 (quick) / "
             "depth-2 (thorough) statement skeletons and, thorough, one symbolic token inserted at every position of the depth-1 skeletons; "
             "escape literals of <= 3 / 4 code points.",
        technique=MC, design="6/C12"),
    "C15": dict(
        text="Pairs of lexemes from the reference lexeme grammar (/verif/spec/lexemes.py: each lexeme a list of symbolic code points "
             "constrained by its regex via an NFA->SMT encoding; keywords and punctuation verbatim) are written with every separator the "
             "fusion rules allow and run through the real LexedStr::new (MIR of oq3_lexer + oq3_parser). Proved on every path: the non-trivia "
             "tokens are exactly the lexemes with the expected kinds and exact texts, nothing but trivia in between, no lexical error; each "
             "keyword is also placed next to one fully symbolic character (keyword kind iff the character cannot continue an identifier); the "
             "run-to-end-of-line lexemes (pragma, #pragma, annotation, line comment with symbolic text) end before LF, CRLF and CR and the next "
             "line starts a new lexeme; block comments (whose text may contain `/*`) end at the first `*/`; the version header followed by `;` "
             "with every separator incl. comments.",
        note="Trusted: lexeme grammar excerpt, MIR dump, string model, Unicode tables clipped to the stated code-point range, z3. Bounds: "
             "symbolic characters in U+0000..U+03FF, identifiers <= 3 chars, literals <= 5 chars, pairs of lexemes (quick: every class against "
             "12 representative neighbours on both sides; thorough: all pairs).",
        technique=MC, design="6/C15"),
    "C18": dict(
        text="Part (a), ordered path search: resolve_file_path is executed from MIR with the file system as a symbolic oracle (is_absolute and "
             "is_file are free booleans; explicit list and environment list absent or 0-3 directories). Proved for all oracle answers: the "
             "result is the path itself if absolute, else the first existing dir/path of the explicit list if one is given (environment never "
             "consulted), else of the environment list, else the path as given. Parts (b), (c): include PROJECTS (virtual files including "
             "each other: sequences, nesting to depth 3, siblings with nested includes, the same file twice, stdgates.inc mixed with files, "
             "faults inside included files, empty files, includes below the global scope, annotations / pragmas ending an included file, before an "
             "include and inside a file) run through the real parse_source_and_includes / "
             "parse_included_files / SourceFile::new and ALL of syntax_to_semantic (Include arm) from MIR with every file's readability, "
             "existence and io::ErrorKind symbolic. For every oracle answer: no panic; graph and symbols equal those of the FLAT program "
             "(readable files written at the include sites); the same diagnostic kinds; one list per include occurrence tagged with the "
             "file's path in include order; each unreadable include reported once on its path node.",
        note="Trusted: Path/PathBuf abstract values with structural join, get_file_search_paths_from_env stubbed (env::split_paths not "
             "analysed), SourceFile::parse_check_lex as the parse boundary (lexer gating is C11's), fs::read_to_string / fs::canonicalize as "
             "symbolic oracles (readable => exists), tree / map / string models, MIR dump, z3. Part (a) violations are not replayed natively "
             "(no public entry point with an oracle file system). Bounds: 20 projects, include depth <= 3; include cycles outside.",
        technique=MC, design="6/C18"),
    "C19": dict(
        text="All of symbols.rs is executed from MIR with hashbrown::HashMap replaced by an abstract finite map; the history's opcodes and name "
             "characters are solver variables, so every history of the property's operations up to the bound is one explored path. After each "
             "operation look-up, binding, scope exit, id allocation, id stability (also after scope exit) and the built-ins are compared with a "
             "stack-of-maps oracle. A second family of histories binds gates and hardware qubits in nested scopes and compares the listing "
             "observers gates() / hardware_qubits() (real iterator chains from MIR) with the oracle: exactly the symbols bound, in id order, "
             "each under the id new_binding handed out, `U` left out. Violations are replayed natively through the oq3_verif hook.",
        note="Trusted: the abstract map has HashMap's documented contract (hashbrown itself is not analysed), MIR dump, z3. Bounds: histories of "
             "length <= 5 (quick) / 7 (thorough) over 6 opcodes x 2 names x 2 types, observer histories <= 4 / 5 over 5 opcodes; longer histories "
             "are outside the claim.",
        technique=MC, design="6/C19"),
    "C20": dict(
        text="promote_types and can_cast_literal (and the helpers they call, incl. the derived PartialEq/Clone) are executed from MIR on every "
             "ordered pair of type shapes (all 27 constructors; width present/absent; array rank) with symbolic widths (all u32), const flags, "
             "dimensions and arities. The property's clauses (symmetry up to const, idempotence, upper bound, const only if both, Void iff no "
             "bound, literal castability) are SMT obligations over an order written from the property text; refuted clauses are re-evaluated "
             "on the native functions for the concrete counterexample.",
        note="Trusted: MIR dump, stubs (cmp::max, Box forwarding), z3. Bounds: array rank 1 (quick) / 1-3 (thorough), SubroutineDef return type "
             "one level deep, triples (associativity) in the thorough tier only.",
        technique=MC, design="6/C20"),
    "C16": dict(
        text="Three runs of the real parser (MIR) on shared symbolic tokens: T[..k], T[k..] and T (also T inside gate/def/if/while/for/case "
             "block bodies). Whenever both parts parse without an Error event, the whole is proved to parse without Error and its statement "
             "list to be the concatenation (node kinds proved equal by the solver). Second part, whole statements: for every ordered pair of "
             "statement skeletons (token classes of the first, operator spellings and joint bits of both symbolic) S1, S2 and S1 S2 are parsed "
             "and compared the same way, which reaches boundaries the windows cannot (`{ x; } (a);`, `x = y; -x;`).",
        note="Trusted: MIR dump, stubs, z3. Bounds: windows of <= 3 (quick) / 4 (thorough) tokens, every split point, full alphabet, joint bits "
             "symbolic; 4753 (quick) / ~24 k ordered skeleton pairs of <= 14 tokens each (file level, and gate / def / if / while / for / case bodies "
             "for the boundary-sensitive second statements).",
        technique=MC, design="6/C16"),
})

S2 = ("symbolic execution of rustc MIR (path enumeration) of the parser, the oq3_syntax accessors and all of oq3_semantics on an abstract "
      "syntax tree built by the interpreted parser + z3 SMT feasibility/obligation queries, native replay")
CHECKS.update({
    "C03": dict(
        text="Programs = a fixed preamble of declarations followed by one statement skeleton of the reference grammar; token-class slots, "
             "operator spellings and identifier roles (int variable, qubit, gate, subroutine, undeclared) are solver choices. The real parser "
             "and validation (MIR) build the tree, programs with syntax diagnostics are skipped, then ALL of syntax_to_semantic runs from MIR. "
             "Obligations on every path: no panic/unwrap/todo!/unreachable!, bounded steps, symbol table back at the global scope. "
             "Panics are reproduced natively before they count; the analyser's documented crash sites are listed in known_findings.json "
             "by (function, message, skeleton).",
        note="Trusted: rowan tree model (ordered tree built from the parser's own events), hashbrown map model, string/text-range models, "
             "MIR dump, z3; engine validated differentially against the native pipeline on the repository's own test programs (vf/s2validate). "
             "Bounds: one statement after the preamble, expression depth 0 (quick) / 1 (thorough); skeletons with <= 600 / 3000 slot "
             "combinations completely, larger ones as Hamming balls of radius 2 around three base assignments; one spelling per literal class, "
             "four spellings of pragma / annotation lines.",
        technique=S2, design="6/C03"),
})
CHECKS.update({
    "C07": dict(
        text="Scope templates (declarations, uses as assignment target and as expression, if/else, while, for, gate, def, switch nested to a "
             "bound) with every identifier a symbolic character from a pool that contains built-in names (U, pi-sign) are parsed by the real "
             "parser and analysed by ALL of syntax_to_semantic from MIR. A stack-of-scopes reference model written from the property text "
             "gives, as z3 terms over the name characters, for each binding whether it succeeds and its id and for each use the symbol it must "
             "resolve to. On every path the engine's concrete answers (Ok(id) / AlreadyBound / MissingBinding, Undefined type, exactly one "
             "UndefVarError / RedeclarationError at the identifier, symbol names in the final table, only the global scope open) are PROVED "
             "equal to the model under the path condition, i.e. for every naming the path represents.",
        note="Trusted: reference scoping model (vf/h_c07.py Oracle), rowan tree / hashbrown / string models, MIR dump, z3; engine validated "
             "differentially against native (vf/s2validate) and each counterexample is confirmed by engine==native on the concrete text. "
             "Bounds: quick <= 3 items per program, nesting <= 2, names from a pool of 3; thorough 3 items nested to 3 plus all 4-item programs "
             "of nesting 1 (pool of 3), and the 2-item programs with a pool of 4 (second built-in name); use positions: assignment target, expression statement, initializer, gate / measure operand, indexed target, "
             "binary operand, if / while condition, width designator.",
        technique=S2, design="6/C07"),
    "C09": dict(
        text="Declarations whose width / register-length literal is a string of 1-11 SYMBOLIC decimal digits (all values up to 10^11 > 2^33), "
             "for every scalar type, const / non-const, qubit registers, input/output, inside every scope kind, and const-identifier "
             "designators (`const T n = V; int[n] x;` with T int / uint / widthed / float / complex / angle / bool, negative, non-const) are analysed from MIR. Proved for every digit string of a path: "
             "no diagnostic => the symbol table records exactly the written constructor, const-ness and width (absent when not written); a "
             "value above 2^32-1, a negative, non-constant or non-integer designator => a diagnostic. Gate (0-4 angle parameters x 1-4 qubits) and "
             "subroutine signatures and parameter types (incl. old-style creg / qreg parameters) are compared structurally; SymbolTable::gates() after `include \"stdgates.inc\"` "
             "is compared with the standard-library table written from the OpenQASM 3 specification.",
        note="Trusted: u128::from_str_radix model (exact bit-vector arithmetic over the digit characters), tree / map / string models, MIR dump, "
             "z3; counterexamples are confirmed by engine==native on the concrete text. Bounds: decimal widths of <= 11 (quick) / 12 digits; "
             "other radices are C10's; array declarations are unsupported by the analyser (C03).",
        technique=S2, design="6/C09"),
})
CHECKS.update({
    "C13": dict(
        text="A preamble declares one symbol per role (int, const int, bit, qubit, qubit register, duration, gates of arity 0/1 and 2/2, a "
             "one-parameter subroutine); in the statement templates (gate calls with 0-4 parameters, 1-3 operands, none/inv/pow modifiers; "
             "measure / reset / measure-assignment; binary operators on symbols and on register elements; subroutine calls; assignments to symbols "
             "and to elements of const / non-const registers; qubit / gate / def declarations in 9 scope kinds; return; delay) the identifiers are symbolic characters over the role pool plus the built-in U and an undeclared name. The "
             "rules of the property are z3 formulas over those characters and are PROVED per path against the concrete diagnostics of the real "
             "analyser (MIR): both directions of each if-and-only-if, and `a program that does none of these gets none of these diagnostics`.",
        note="Trusted: the rule formulas (vf/h_c13.py), tree / map / string models, MIR dump, z3; counterexamples confirmed by engine==native "
             "on the concrete text. Bounds: one rule-exercising statement after the preamble; callee/operand pools of 11 names for one "
             "operand (thorough: two), 7 x 5 beyond.",
        technique=S2, design="6/C13"),
})
CHECKS.update({
    "C08": dict(
        text="`T1[W1] v; T2[W2] x = VALUE;` and `...; x = VALUE;` for every ordered pair of the 9 scalar types, widths absent or SYMBOLIC decimal "
             "digits, const / non-const, VALUE a variable, const variable, arithmetic on it (two variables of different kinds with + - * /), "
             "negation, parenthesis, cast to the target and to the value's own type, a literal of each of 9 classes, or a measurement (qubit, "
             "register, register element), analysed from MIR. Proved for all widths of a path: identifier / literal / cast / arithmetic / "
             "measurement nodes carry the prescribed type; no diagnostic on the statement => the stored value's type equals the target type "
             "up to const-ness; kind-lowering conversions and negative literal -> uint are diagnosed; same kind, non-constant value, W2 < W1 "
             "=> diagnosed; an operand is never cast DOWN the numeric tower for an arithmetic operation; one element of a register measures "
             "to one bit.",
        note="Trusted: the conversion table written from the property text (vf/h_c08.py downward()), tree / map / string models, MIR dump, z3; "
             "counterexamples confirmed by engine==native on the concrete text. Bounds: widths of 1 (quick) / 1-2 digits, one value "
             "expression of depth <= 1; subroutine-call values and arrays outside.",
        technique=S2, design="6/C08"),
})
CHECKS.update({
    "C06": dict(
        text="Model programs from a statement algebra (marker assignments, gate calls with ordered parameters / operands / modifiers, subroutine "
             "calls, barrier, measure, reset, if/else with block and single-statement bodies in every combination, while, for over range / "
             "stepped range / set, switch with several cases and default, gate and def bodies, annotations at top level and inside blocks, pragmas, "
             "assignments with identifier / indexed target and identifier / indexed / literal value in every combination, every binary and unary "
             "operator, every literal class), nested to depth 3-4, are parsed by the real parser and analysed by ALL of syntax_to_semantic "
             "from MIR. Every marker is a symbolic decimal digit: `statement j of block B carries marker j` and `operand j is the j-th "
             "written` are solver obligations, so swapped, duplicated, dropped or misplaced statements cannot hide behind equal literals. The "
             "decoded graph is compared node by node with the skeleton predicted from the model.",
        note="Trusted: the skeleton predictor (vf/h_c06.py), tree / map / string models, MIR dump, z3; counterexamples confirmed by "
             "engine==native on the concrete text. Bounds: 222 (quick) / ~250 model programs, nesting <= 3 (one depth-4 program) instead of "
             "the property's 5; include expansion is C18's; operators the analyser rejects with a panic are C03 findings and skipped here.",
        technique=S2, design="6/C06"),
})
CHECKS.update({
    "C17": dict(
        text="(a) layout: in 16 base programs (valid and with semantic faults, incl. annotations, pragmas, include of stdgates, timing "
             "literals) every gap between tokens holds 1-2 trivia tokens whose kind (whitespace / comment) and character are solver "
             "variables; to_input, the parser, intersperse_trivia and ALL of syntax_to_semantic run from MIR on the symbolic layout and the "
             "graph, symbol table and diagnostic kinds are proved equal to the canonical layout's on every path. (b) renaming: every user "
             "identifier is a symbolic letter constrained injective and different from built-in / standard gate names; the result is proved "
             "equal to the base result with the same ids and each symbol (and each diagnostic payload) named by its variable. (c) one pass: "
             "for P and P + S (12 suffix statements with symbolic names) statements, symbols and diagnostics of P are a prefix. Lexical arm: (a)-(c) "
             "start from token tables, so the real lexer (LexedStr::new from MIR) is run on every spelling of the identifier lexeme (<= 3 "
             "symbolic code points, reference grammar incl. `_` and non-ASCII letters) alone and next to other lexemes with every permitted "
             "separator: always exactly one IDENT token, no diagnostic - the token table does not depend on the names chosen. (d) "
             "determinism: the MIR call graph from syntax_to_semantic (446 functions) contains no hash-map iteration, clock, randomness, "
             "environment, atomics or thread-local access; the map model refuses iteration.",
        note="Trusted: tree / map / string models, MIR dump, z3; the lexer maps layouts to the token tables used here (C14, C15). Bounds: "
             "22 base programs, 1-2 (quick) / 1-3 trivia tokens per gap with one ASCII character each, one-letter names in the relational runs, "
             "identifier spellings <= 3 code points in the lexical arm.",
        technique=S2, design="6/C17"),
})

NOT_YET = {}


def main():
    props = [json.loads(l) for l in open(os.path.join(ROOT, "properties.jsonl"))]
    checks = []
    na = []
    for p in props:
        pid = p["id"]
        c = CHECKS.get(pid)
        if c is None:
            na.append({"property_id": pid, "reason": NOT_YET.get(pid, "check not built yet (work in progress; see DESIGN.md section 6)")})
            continue
        checks.append({
            "property_id": pid,
            "quick_cmd": f"./check {pid} --tier quick",
            "thorough_cmd": f"./check {pid} --tier thorough",
            "evidence_file": f"/verif/evidence/{pid}.json",
            "replay_cmd_template": f"./check {pid} --replay {{path}}",
            "engine": c.get("engine", "mirsym"),
            "level_claimed": {"category": "model_checking", "text": c["text"], "design_ref": c["design"]},
            "level_note": c["note"],
            "technique": c["technique"],
        })
    man = {
        "version": 1,
        "setup_cmd": "./setup.sh",
        "hooks": {"guard": "oq3_verif (cargo feature of oq3_semantics, off by default)",
                  "enable": "the native replay driver /verif/replay depends on oq3_semantics with features=[\"oq3_verif\"]; the MIR-based checks need no hook (private functions are reached through the MIR dump)",
                  "baseline_off_cmd": "cd /repo && cargo test --workspace --no-fail-fast --offline",
                  "source_commits": ["83bdfe7"], "add_only": True},
        "engines": [
            {"name": "mirsym", "path": "/verif/vf", "serves_properties": sorted(CHECKS),
             "kind_free_text": "path-enumerating symbolic executor over rustc -Zunpretty=mir text of /repo's crates (Python + z3), with native replay driver /verif/replay"},
        ],
        "checks": checks,
        "not_applicable": na,
        "notes": "exit 0 = held within stated bounds; exit 1 = natively reproduced violation; exit 2 = inconclusive (never a pass).",
    }
    json.dump(man, open(os.path.join(ROOT, "MANIFEST.json"), "w"), indent=1)
    print("MANIFEST.json:", len(checks), "checks,", len(na), "not applicable")


if __name__ == "__main__":
    main()
