"""writes /verif/MANIFEST.json from the table below (run: python3 -m vf.gen_manifest)"""
import json, os
ROOT = os.path.dirname(os.path.dirname(os.path.abspath(__file__)))

CHECKS = {
    "C01": dict(
        text="Bounded symbolic model checking of the real parser code: every token-kind sequence over the full token alphabet "
             "(kinds and joint bits are solver variables) is executed path by path through the MIR of oq3_parser; a path ends in "
             "'returns', 'panic' (incl. debug assertions, overflow checks, DropBomb) or 'stuck' (step/event budget). Within the "
             "stated token bound every value is covered by the solver; failures are replayed natively before being reported.",
        note="Trusted: rustc's MIR dump reflects the compiled code; the stubs for std/drop_bomb/limit listed in the evidence have "
             "the documented contracts; z3. Bounds: uncut sequences <= 2 (quick) / 3 (thorough) tokens, single constructs from a "
             "top-level loop head <= 3 / 4 tokens. Longer inputs and rowan are outside the claim.",
        technique="symbolic execution of rustc MIR (path enumeration) + z3 SMT feasibility/obligation queries, native replay",
        design="6/C01"),
}

NOT_YET = {}


def main():
    props = [json.loads(l) for l in open(os.path.join(ROOT, "properties.jsonl"))]
    checks = []
    na = []
    for p in props:
        pid = p["id"]
        c = CHECKS.get(pid)
        if c is None:
            na.append({"property_id": pid, "reason": NOT_YET.get(pid, "check not built yet (work in progress; see DESIGN.md section 6)")})
            continue
        checks.append({
            "property_id": pid,
            "quick_cmd": f"./check {pid} --tier quick",
            "thorough_cmd": f"./check {pid} --tier thorough",
            "evidence_file": f"/verif/evidence/{pid}.json",
            "replay_cmd_template": f"./check {pid} --replay {{path}}",
            "engine": c.get("engine", "mirsym"),
            "level_claimed": {"category": "model_checking", "text": c["text"], "design_ref": c["design"]},
            "level_note": c["note"],
            "technique": c["technique"],
        })
    man = {
        "version": 1,
        "setup_cmd": "./setup.sh",
        "hooks": {"guard": "oq3_verif", "enable": "no source hooks are needed: the MIR dump gives access to private functions (RUSTFLAGS untouched)",
                  "baseline_off_cmd": "cd /repo && cargo test --workspace --no-fail-fast --offline",
                  "source_commits": [], "add_only": True},
        "engines": [
            {"name": "mirsym", "path": "/verif/vf", "serves_properties": sorted(CHECKS),
             "kind_free_text": "path-enumerating symbolic executor over rustc -Zunpretty=mir text of /repo's crates (Python + z3), with native replay driver /verif/replay"},
        ],
        "checks": checks,
        "not_applicable": na,
        "notes": "exit 0 = held within stated bounds; exit 1 = natively reproduced violation; exit 2 = inconclusive (never a pass).",
    }
    json.dump(man, open(os.path.join(ROOT, "MANIFEST.json"), "w"), indent=1)
    print("MANIFEST.json:", len(checks), "checks,", len(na), "not applicable")


if __name__ == "__main__":
    main()
